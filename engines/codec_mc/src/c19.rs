//! C19 — Equihash verification accepts exactly the valid solutions.
//!
//! Subject: `equihash::is_valid_solution` (/repo/components/equihash), also reached through the
//! mainnet block header of /repo/zcash_primitives/src/block.rs.
//!
//! Oracle: `reference.rs`, a bit-level verifier written from the protocol specification
//! (distinct indices, lexicographic ordering of sibling blocks, per-level collisions on
//! n/(k+1)-bit segments, zero XOR), independent of the crate's byte-level unpacking.
//!
//! Enumerated:
//! * completeness — `solver.rs` lists *all* solutions of a set of (input, nonce) pairs for small
//!   parameters (collision widths 8, 10, 12, 14, 16, 20 and — thorough — 24 bits; 8..64 indices;
//!   5..16 hashes per BLAKE2b output); each must verify;
//! * soundness — exhaustive neighbourhoods of every solution: every single-bit flip of solution,
//!   input and nonce; every length 0..=2*len (four fillers); all 8! index orderings for k = 3 (all
//!   transpositions, sub-tree swaps and rotations for larger k); every single-index substitution;
//!   every duplication of one index over another and every self-cancelling block copy; thorough:
//!   every pair substitution for (32,3);
//! * solver-made adversarial inputs: *near misses* (all conditions hold except that one node of
//!   the tree misses its collision in exactly one chosen bit — one search per (segment, bit), so
//!   every compared bit of every level, including the final zero test, is on both sides) and
//!   *repeated-index pseudo solutions* (every collision and the zero XOR hold, only distinctness
//!   fails);
//! * parameter grid — every (n,k) with n <= 520, k <= n+1, plus extreme u32 symbols, times solution
//!   lengths {0, 1, expected-1, expected, expected+1} times fillers {00, ff}: must be `Err`, never a
//!   panic and never `Ok`; a documented-supported pair with the right length must not be reported
//!   as "invalid parameters";
//! * header path — the mainnet block 415000 header parses, verifies, and every single-bit change of
//!   its 1487 bytes is rejected (or no longer parses).

mod reference;
mod solver;

use mc_core::{catch, Args, Run, SplitMix, Tier};
use rayon::prelude::*;
use reference::{decode, encode, reason, verify, Gen, P};
use serde_json::{json, Value};
use std::collections::{BTreeMap, HashSet};
use std::hash::{Hash, Hasher};

const HEADER_HEX: &str = include_str!("c19/mainnet_415000_header.hex");
const HEADER_HASH: &str = "0000000001ab37793ce771262b2ffa082519aa3fe891250a1adb43baaf856168";
/// Largest solution buffer the parameter grid allocates (covers every supported parameter pair);
/// for n > 512 the larger bound admits (520,25), the one grid pair with n > 512 whose collision
/// width and index width are otherwise representable (88 MB solution).
const GRID_MAX_LEN: u128 = 8 << 20;
const GRID_MAX_LEN_WIDE: u128 = 96 << 20;
fn grid_max_len(n: u32) -> u128 {
    if n > 512 && n <= 520 {
        GRID_MAX_LEN_WIDE
    } else {
        GRID_MAX_LEN
    }
}

// ---------------------------------------------------------------------------------------------
// one real-vs-reference comparison (used by the sweep and by replay)

fn real_verdict(n: u32, k: u32, input: &[u8], nonce: &[u8], soln: &[u8]) -> Result<Result<(), String>, String> {
    catch(|| equihash::is_valid_solution(n, k, input, nonce, soln).map_err(|e| e.to_string()))
}

fn short_kind(display: &str) -> &'static str {
    if display.contains("invalid parameters") {
        "params"
    } else if display.contains("collision") {
        "collision"
    } else if display.contains("ordered") {
        "order"
    } else if display.contains("duplicate") {
        "dup"
    } else if display.contains("non-zero") {
        "nonzero"
    } else {
        "other"
    }
}

/// `g` must be the generator for exactly (p, input, nonce).
fn check_verify(g: &mut Gen, input: &[u8], nonce: &[u8], soln: &[u8]) -> Result<String, String> {
    let p = g.p;
    let want = verify(g, soln);
    match real_verdict(p.n, p.k, input, nonce, soln) {
        Err(pn) => Err(format!("panic: {pn} (reference: {})", reason(want))),
        Ok(Ok(())) if want == 0 => Ok("accept".into()),
        Ok(Ok(())) => Err(format!("accepted, but the reference rejects it: {}", reason(want))),
        Ok(Err(e)) if want != 0 => Ok(format!("reject:{}|ref:{}", short_kind(&e), reason(want))),
        Ok(Err(e)) => Err(format!("rejected ({e}), but the reference finds a valid solution")),
    }
}

fn verify_case(p: P, input: &[u8], nonce: &[u8], soln: &[u8]) -> Value {
    json!({"n": p.n, "k": p.k, "input": hex::encode(input), "nonce": hex::encode(nonce), "soln": hex::encode(soln)})
}

// ---------------------------------------------------------------------------------------------
// parameter grid

fn grid_expected_len(n: u32, k: u32) -> Option<u128> {
    if k >= 100 {
        return None;
    }
    let c = (n as u128) / (k as u128 + 1);
    Some(((1u128 << k) * (c + 1)) / 8)
}

/// Parameters that the crate documents as verifiable (module docs of lib.rs and the requirement
/// list in params.rs): whole-byte hashes, k >= 3, integer collision width; at least one hash per
/// BLAKE2b output; collision segments and indices that the 32-bit unpacking accumulator can hold
/// (segment >= 8 bits, index = segment + 1 <= 25 bits); at most as many indices as exist.
fn documented_supported(n: u32, k: u32) -> bool {
    if !(n % 8 == 0 && k >= 3 && k < n && n % (k + 1) == 0 && n <= 512) {
        return false;
    }
    let c = n / (k + 1);
    (8..=24).contains(&c) && k <= c + 1
}

fn check_grid(n: u32, k: u32, len: usize, fill: u8) -> Result<String, String> {
    let buf = vec![fill; len];
    match real_verdict(n, k, b"grid input", &[0u8; 32], &buf) {
        Err(pn) => Err(format!("panic: {pn}")),
        Ok(Ok(())) => Err("accepted a solution all of whose indices are equal".into()),
        Ok(Err(e)) => {
            let kind = short_kind(&e);
            let right_len = grid_expected_len(n, k) == Some(len as u128);
            if documented_supported(n, k) && right_len && kind == "params" {
                return Err(format!("({n},{k}) is a documented supported parameter pair and the length {len} is right, yet: {e}"));
            }
            Ok(format!("{}{}:{kind}", if documented_supported(n, k) { "supported" } else { "unsupported" }, if right_len { "/len-ok" } else { "/len-bad" }))
        }
    }
}

fn grid_lengths(n: u32, k: u32) -> Vec<usize> {
    let mut v = vec![0usize, 1];
    if let Some(l) = grid_expected_len(n, k) {
        if l <= grid_max_len(n) {
            let l = l as usize;
            v.extend([l.saturating_sub(1), l, l + 1]);
        }
    }
    v.sort();
    v.dedup();
    v
}

fn run_grid(run: &Run) {
    let mut pairs: Vec<(u32, u32)> = Vec::new();
    for n in 0..=520u32 {
        for k in 0..=n + 1 {
            pairs.push((n, k));
        }
    }
    let grid_pairs = pairs.len();
    // extreme symbols outside the grid (u32 wrap points of k + 1, n / (k + 1), 1 << k)
    let ext_n = [0u32, 8, 200, 512, 1 << 31, u32::MAX - 7, u32::MAX];
    let ext_k = [0u32, 3, 31, 32, 63, 64, 127, 128, (1 << 31) - 1, 1 << 31, u32::MAX - 8, u32::MAX - 1, u32::MAX];
    for n in ext_n {
        for k in ext_k {
            if !(n <= 520 && k <= n + 1) {
                pairs.push((n, k));
            }
        }
    }
    let supported = pairs.iter().filter(|(n, k)| documented_supported(*n, *k)).count();
    let too_long = pairs.iter().filter(|(n, k)| grid_expected_len(*n, *k).map_or(true, |l| l > grid_max_len(*n))).count();
    type Fail = (u32, u32, usize, u8, String);
    let results: Vec<(u64, BTreeMap<String, u64>, Vec<Fail>)> = pairs
        .par_iter()
        .map(|&(n, k)| {
            let mut cnt = 0;
            let mut out: BTreeMap<String, u64> = BTreeMap::new();
            let mut fails = Vec::new();
            for len in grid_lengths(n, k) {
                for fill in [0x00u8, 0xff] {
                    if len == 0 && fill == 0xff {
                        continue;
                    }
                    cnt += 1;
                    match check_grid(n, k, len, fill) {
                        Ok(o) => *out.entry(format!("grid:{o}")).or_insert(0) += 1,
                        Err(m) => fails.push((n, k, len, fill, m)),
                    }
                }
            }
            (cnt, out, fails)
        })
        .collect();
    let mut total = 0;
    // failures are reported in (n, k, len, fill) order so that the kept ones are deterministic
    let mut failing_pairs = 0u64;
    let mut fail_msgs: BTreeMap<String, u64> = BTreeMap::new();
    for (c, o, fails) in results {
        total += c;
        for (k, v) in o {
            run.outcome_n(&k, v);
        }
        if !fails.is_empty() {
            failing_pairs += 1;
        }
        for (n, k, len, fill, m) in fails {
            *fail_msgs.entry(m.clone()).or_insert(0) += 1;
            run.fail("grid", format!("grid(n={n},k={k},len={len},fill={fill:02x})"), m, json!({"n": n, "k": k, "len": len, "fill": fill}));
        }
    }
    if failing_pairs > 0 {
        run.section("parameter_grid_failures", json!({"failing_pairs": failing_pairs, "by_message": fail_msgs}));
    }
    run.eval_distinct(total);
    run.section(
        "parameter_grid",
        json!({
            "pairs_in_grid": grid_pairs, "extreme_pairs": pairs.len() - grid_pairs, "cases": total,
            "documented_supported_pairs": supported,
            "pairs_whose_expected_length_exceeds_8MiB_(96MiB_for_n>512)_or_is_astronomic (only wrong lengths 0 and 1 tried; none of them is a supported pair)": too_long,
        }),
    );
    run.sample(json!({"grid": {"n": 8, "k": 3, "len": 3, "fill": 0}, "expected": "Err (collision width 2 bits cannot be unpacked), not a panic"}));
    run.sample(json!({"grid": {"n": 128, "k": 63, "len": 0, "fill": 0}, "expected": "Err, not an overflow in 2^k*(c+1)"}));
}

// ---------------------------------------------------------------------------------------------
// solutions and their neighbourhoods

struct Job {
    p: P,
    pair: usize,
    /// enumerate every substitute value (else a boundary alphabet)
    full_subst: bool,
    pair_subst: bool,
    /// also run the unpruned solver and try its repeated-index results
    dup_solver: bool,
}

/// Which (segment, bit) near misses are searched: every bit of every segment for small row counts,
/// both sides of every byte boundary of the unpacked segment for medium ones, the first and last
/// bit of the first, the k-th and the last segment for large ones (each costs one solver run).
fn near_combos(p: P, tier: Tier) -> Vec<(u32, u32)> {
    let rows = p.num_rows();
    let (all_up_to, boundary_up_to, corners_up_to): (u64, u64, u64) = match tier {
        Tier::Quick => (1 << 11, 1 << 15, 1 << 17),
        Tier::Thorough => (1 << 17, 1 << 21, 1 << 25),
    };
    let c = p.c();
    let levels: Vec<u32> = (1..=p.k + 1).collect();
    if rows <= all_up_to {
        levels.iter().flat_map(|lv| (0..c).map(move |b| (*lv, b))).collect()
    } else if rows <= boundary_up_to {
        levels.iter().flat_map(|lv| boundary_bits(c).into_iter().map(move |b| (*lv, b))).collect()
    } else if rows <= corners_up_to && rows > 1 << 21 {
        // one solver run over 2^25 rows takes minutes of CPU and gigabytes: two corners only
        vec![(1, c - 1), (p.k + 1, 0)]
    } else if rows <= corners_up_to {
        [1, p.k, p.k + 1].iter().flat_map(|lv| [0, c - 1].into_iter().map(move |b| (*lv, b))).collect()
    } else {
        Vec::new()
    }
}

/// First/last bit of the segment and both sides of every byte boundary of its right-aligned
/// byte representation.
fn boundary_bits(c: u32) -> Vec<u32> {
    let mut v = vec![0, c - 1];
    let mut b = c;
    while b > 8 {
        b -= 8;
        v.push(b - 1);
        v.push(b);
    }
    v.sort();
    v.dedup();
    v
}

fn pair_material(p: P, j: usize) -> (Vec<u8>, Vec<u8>) {
    // input/nonce lengths on both sides of the 128-byte BLAKE2b block, incl. empty strings
    let ilen = [108usize, 0, 1, 72, 140, 64, 128, 129][j % 8];
    let nlen = [32usize, 32, 32, 0, 32, 4, 0, 32][j % 8];
    let mut sm = SplitMix(0xC19 ^ ((p.n as u64) << 32) ^ ((p.k as u64) << 24) ^ j as u64);
    let mut input = vec![0u8; ilen];
    sm.fill(&mut input);
    if j == 0 {
        let t = b"Equihash is an asymmetric PoW based on the Generalised Birthday problem.";
        input = t.to_vec();
    }
    let mut nonce = vec![0u8; nlen];
    if nlen > 0 {
        nonce[0] = j as u8;
        nonce[nlen - 1] ^= (j >> 8) as u8;
    }
    (input, nonce)
}

fn next_permutation(a: &mut [usize]) -> bool {
    let n = a.len();
    if n < 2 {
        return false;
    }
    let mut i = n - 1;
    while i > 0 && a[i - 1] >= a[i] {
        i -= 1;
    }
    if i == 0 {
        return false;
    }
    let mut j = n - 1;
    while a[j] <= a[i - 1] {
        j -= 1;
    }
    a.swap(i - 1, j);
    a[i..].reverse();
    true
}

struct Local<'a> {
    run: &'a Run,
    p: P,
    tag: String,
    evals: u64,
    distinct: u64,
    seen: HashSet<u64>,
    outcomes: BTreeMap<String, u64>,
    accepted_orderings: u64,
    orderings_tried: u64,
}

fn case_hash(input: &[u8], nonce: &[u8], soln: &[u8]) -> u64 {
    let mut h = std::collections::hash_map::DefaultHasher::new();
    input.hash(&mut h);
    nonce.hash(&mut h);
    soln.hash(&mut h);
    h.finish()
}

impl Local<'_> {
    /// One case; `g` must be the generator of (p, input, nonce). Returns "accepted".
    fn case(&mut self, g: &mut Gen, input: &[u8], nonce: &[u8], class: &str, what: &dyn Fn() -> String, soln: &[u8], dedupe: bool) -> bool {
        self.evals += 1;
        if !dedupe || self.seen.insert(case_hash(input, nonce, soln)) {
            self.distinct += 1;
        }
        match check_verify(g, input, nonce, soln) {
            Ok(o) => {
                let acc = o == "accept";
                *self.outcomes.entry(format!("{class}:{o}")).or_insert(0) += 1;
                acc
            }
            Err(m) => {
                self.run.fail("verify", format!("{}:{}", self.tag, what()), m, verify_case(self.p, input, nonce, soln));
                false
            }
        }
    }
}

fn subst_alphabet(p: P, sol: &[u32], cur: u32) -> Vec<u32> {
    let max = (p.num_rows() - 1) as u32;
    let m = 512 / p.n;
    let mut v = vec![
        0,
        1,
        2,
        max,
        max - 1,
        max / 2,
        max / 2 + 1,
        cur ^ 1,
        cur.wrapping_add(1) & max,
        cur.wrapping_sub(1) & max,
        cur.wrapping_add(m) & max,
        cur.wrapping_sub(m) & max,
        (cur / m) * m,
        (cur / m) * m + m - 1,
    ];
    v.extend_from_slice(sol);
    for b in 0..p.index_bits() {
        v.push(cur ^ (1 << b));
    }
    v.retain(|x| *x <= max && *x != cur);
    v.sort();
    v.dedup();
    v
}

/// Cases that need no solution: every length 0..=2*len with zeros and pseudo-random bytes, and
/// pseudo-random strings of exactly the right length.
fn baseline(l: &mut Local, g: &mut Gen, input: &[u8], nonce: &[u8], salt: u64) {
    let len = l.p.soln_len();
    let mut sm = SplitMix(0x19C ^ salt);
    for n in 0..=2 * len {
        l.case(g, input, nonce, "length", &|| format!("zeros-len{n}"), &vec![0u8; n], true);
        l.case(g, input, nonce, "length", &|| format!("ones-len{n}"), &vec![0xffu8; n], true);
        let mut r = vec![0u8; n];
        sm.fill(&mut r);
        l.case(g, input, nonce, "length", &|| format!("pseudo-len{n}/{salt}"), &r, true);
    }
    for i in 0..32 {
        let mut r = vec![0u8; len];
        sm.fill(&mut r);
        l.case(g, input, nonce, "pseudo", &|| format!("pseudo{i}/{salt}"), &r, true);
    }
}

/// Exhaustive neighbourhood of one solution.
fn neighbourhood(l: &mut Local, job: &Job, input: &[u8], nonce: &[u8], sol: &[u32], first_of_pair: bool, tier: Tier) {
    let p = job.p;
    let run = l.run;
    let mut g = Gen::new(p, input, nonce);
    let base = encode(p, sol);
    let len = base.len();

    // A. the solution itself (completeness)
    if !l.case(&mut g, input, nonce, "solution", &|| "solution".into(), &base, true) {
        // the real code rejecting is reported by case(); the reference rejecting means a broken solver
        run.require(verify(&mut g, &base) == 0, "solver produced something the reference rejects");
    }
    run.require(decode(p, &base).as_deref() == Some(sol), "reference encode/decode do not round-trip");
    // B. every single-bit flip of the solution
    for bit in 0..len * 8 {
        let mut s = base.clone();
        s[bit / 8] ^= 0x80 >> (bit % 8);
        l.case(&mut g, input, nonce, "flip-soln", &|| format!("flip-soln-bit{bit}"), &s, true);
    }
    // C. every length 0..=2*len as a prefix of solution || solution
    let mut dbl = base.clone();
    dbl.extend_from_slice(&base);
    for n in 0..=2 * len {
        if n != len {
            l.case(&mut g, input, nonce, "length", &|| format!("prefix-len{n}"), &dbl[..n], true);
        }
    }
    // E. orderings
    let ni = sol.len();
    let try_order = |l: &mut Local, g: &mut Gen, perm: &[usize], class: &str| {
        let idx: Vec<u32> = perm.iter().map(|i| sol[*i]).collect();
        let s = encode(p, &idx);
        l.orderings_tried += 1;
        if l.case(g, input, nonce, class, &|| format!("order{:?}", perm), &s, true) {
            l.accepted_orderings += 1;
        }
    };
    let id: Vec<usize> = (0..ni).collect();
    if p.k == 3 {
        let mut perm = id.clone();
        loop {
            try_order(l, &mut g, &perm, "perm");
            if !next_permutation(&mut perm) {
                break;
            }
        }
    } else {
        try_order(l, &mut g, &id, "perm");
        for a in 0..ni {
            for b in a + 1..ni {
                let mut q = id.clone();
                q.swap(a, b);
                try_order(l, &mut g, &q, "transpose");
            }
        }
        // swapping the two halves of a block keeps every collision: only the ordering rule objects
        for r in 1..=p.k {
            let blk = 1usize << r;
            for w in 0..ni / blk {
                let mut q = id.clone();
                q[w * blk..(w + 1) * blk].rotate_left(blk / 2);
                try_order(l, &mut g, &q, "subtree-swap");
            }
        }
        for s in 1..ni {
            let mut q = id.clone();
            q.rotate_left(s);
            try_order(l, &mut g, &q, "rotate");
        }
        if tier == Tier::Thorough && ni <= 32 {
            // every permutation inside each aligned block of 8 indices
            for w in 0..ni / 8 {
                let mut inner: Vec<usize> = (0..8).collect();
                while next_permutation(&mut inner) {
                    let mut q = id.clone();
                    for (t, s) in inner.iter().enumerate() {
                        q[w * 8 + t] = w * 8 + s;
                    }
                    try_order(l, &mut g, &q, "perm-block8");
                }
            }
        }
    }
    // F. every single-index substitution
    for pos in 0..ni {
        let vals: Vec<u32> = if job.full_subst { (0..p.num_rows() as u32).filter(|v| *v != sol[pos]).collect() } else { subst_alphabet(p, sol, sol[pos]) };
        for v in vals {
            let mut idx = sol.to_vec();
            idx[pos] = v;
            l.case(&mut g, input, nonce, "subst", &|| format!("subst[{pos}]={v}"), &encode(p, &idx), true);
        }
    }
    // G. duplicates: one index copied over another; every block copied over its sibling (all
    //    collisions then hold trivially: only distinctness / strict ordering reject); a prefix
    //    block repeated everywhere
    for a in 0..ni {
        for b in 0..ni {
            if a != b {
                let mut idx = sol.to_vec();
                idx[b] = sol[a];
                l.case(&mut g, input, nonce, "dup", &|| format!("dup[{b}]=[{a}]"), &encode(p, &idx), true);
            }
        }
    }
    for r in 1..=p.k {
        let blk = 1usize << r;
        for w in 0..ni / blk {
            for dir in 0..2 {
                let mut idx = sol.to_vec();
                let (lo, hi) = (w * blk, w * blk + blk / 2);
                for t in 0..blk / 2 {
                    if dir == 0 {
                        idx[hi + t] = sol[lo + t];
                    } else {
                        idx[lo + t] = sol[hi + t];
                    }
                }
                l.case(&mut g, input, nonce, "dup-block", &|| format!("dup-block(r={r},w={w},dir={dir})"), &encode(p, &idx), true);
            }
        }
    }
    for r in 0..p.k {
        let blk = 1usize << r;
        let idx: Vec<u32> = (0..ni).map(|t| sol[t % blk]).collect();
        l.case(&mut g, input, nonce, "dup-cancel", &|| format!("repeat-first-{blk}"), &encode(p, &idx), true);
    }
    // H. input and nonce: every single-bit flip, length changes, moved split point
    for bit in 0..input.len() * 8 {
        let mut i2 = input.to_vec();
        i2[bit / 8] ^= 0x80 >> (bit % 8);
        let mut g2 = Gen::new(p, &i2, nonce);
        l.case(&mut g2, &i2, nonce, "flip-input", &|| format!("flip-input-bit{bit}"), &base, true);
    }
    for bit in 0..nonce.len() * 8 {
        let mut n2 = nonce.to_vec();
        n2[bit / 8] ^= 0x80 >> (bit % 8);
        let mut g2 = Gen::new(p, input, &n2);
        l.case(&mut g2, input, &n2, "flip-nonce", &|| format!("flip-nonce-bit{bit}"), &base, true);
    }
    {
        let mut i2 = input.to_vec();
        i2.push(0);
        let mut g2 = Gen::new(p, &i2, nonce);
        l.case(&mut g2, &i2, nonce, "len-input", &|| "input+00".into(), &base, true);
        let mut n2 = nonce.to_vec();
        n2.push(0);
        let mut g2 = Gen::new(p, input, &n2);
        l.case(&mut g2, input, &n2, "len-input", &|| "nonce+00".into(), &base, true);
        if !input.is_empty() {
            let i3 = &input[..input.len() - 1];
            let mut g2 = Gen::new(p, i3, nonce);
            l.case(&mut g2, i3, nonce, "len-input", &|| "input-last".into(), &base, true);
        }
        if !nonce.is_empty() {
            let n3 = &nonce[1..];
            let mut g2 = Gen::new(p, input, n3);
            l.case(&mut g2, input, n3, "len-input", &|| "nonce-first".into(), &base, true);
        }
        // moving the boundary between input and nonce does not change input || nonce
        let mut all = input.to_vec();
        all.extend_from_slice(nonce);
        for split in [0, all.len() / 2, all.len().saturating_sub(1), all.len()] {
            let (a, b) = all.split_at(split);
            let mut g2 = Gen::new(p, a, b);
            l.case(&mut g2, a, b, "split", &|| format!("split@{split}"), &base, true);
        }
    }
    // I. thorough: every pair substitution (distinct by construction from everything above except
    //    the exact transposition, which is skipped here)
    if job.pair_subst && first_of_pair {
        let rows = p.num_rows() as u32;
        for a in 0..ni {
            for b in a + 1..ni {
                for va in 0..rows {
                    if va == sol[a] {
                        continue;
                    }
                    for vb in 0..rows {
                        if vb == sol[b] || (va == sol[b] && vb == sol[a]) {
                            continue;
                        }
                        let mut idx = sol.to_vec();
                        idx[a] = va;
                        idx[b] = vb;
                        l.case(&mut g, input, nonce, "subst2", &|| format!("subst[{a}]={va},[{b}]={vb}"), &encode(p, &idx), false);
                    }
                }
            }
        }
    }
}

struct JobOut {
    p: P,
    pair: usize,
    solutions: usize,
    dup_pseudo_solutions: usize,
    near_misses: usize,
    near_combos: usize,
    secs: (f64, f64, f64),
    level_sizes: Vec<usize>,
    evals: u64,
    distinct: u64,
    outcomes: BTreeMap<String, u64>,
    accepted_orderings: u64,
    orderings_tried: u64,
    first_solution: Option<Vec<u32>>,
    capped: bool,
}

fn run_job(run: &Run, job: &Job, tier: Tier) -> JobOut {
    let p = job.p;
    let (input, nonce) = pair_material(p, job.pair);
    let cap = (p.num_rows() as usize).saturating_mul(64);
    let t0 = std::time::Instant::now();
    let solved = solver::solve(p, &input, &nonce, true, cap);
    let t_solve = t0.elapsed().as_secs_f64();
    let mut l = Local {
        run,
        p,
        tag: String::new(),
        evals: 0,
        distinct: 0,
        seen: HashSet::new(),
        outcomes: BTreeMap::new(),
        accepted_orderings: 0,
        orderings_tried: 0,
    };
    let mut g = Gen::new(p, &input, &nonce);
    l.tag = format!("({},{})#{}", p.n, p.k, job.pair);
    baseline(&mut l, &mut g, &input, &nonce, job.pair as u64);
    for (ord, sol) in solved.solutions.iter().enumerate() {
        l.tag = format!("({},{})#{}/sol{}", p.n, p.k, job.pair, ord);
        neighbourhood(&mut l, job, &input, &nonce, sol, ord == 0, tier);
    }
    // index lists with a repeated index that satisfy every collision condition and the zero XOR
    let mut dup_n = 0;
    let capped = solved.capped;
    if job.dup_solver {
        // a value source (up to 4096 lists under the row cap), not claimed complete
        let d = solver::solve(p, &input, &nonce, false, cap);
        dup_n = d.solutions.len();
        l.tag = format!("({},{})#{}", p.n, p.k, job.pair);
        for sol in &d.solutions {
            l.case(&mut g, &input, &nonce, "dup-solver", &|| format!("dup-solver{:?}", sol), &encode(p, sol), true);
        }
    }
    let t_nb = t0.elapsed().as_secs_f64();
    // near misses: exactly one node misses its collision in exactly one bit
    let combos = near_combos(p, tier);
    let near_one = |&(lv, b): &(u32, u32)| (lv, b, solver::near_misses(p, &input, &nonce, lv, b, cap));
    // (large row counts: one run at a time, each holds gigabytes)
    let near: Vec<(u32, u32, solver::Solved)> = if p.num_rows() > 1 << 21 { combos.iter().map(near_one).collect() } else { combos.par_iter().map(near_one).collect() };
    let mut near_n = 0;
    for (lv, b, s) in &near {
        near_n += s.solutions.len();
        for sol in s.solutions.iter().take(256) {
            l.case(&mut g, &input, &nonce, "near-miss", &|| format!("near-miss(level={lv},bit={b}){:?}", sol), &encode(p, sol), true);
        }
    }
    JobOut {
        p,
        pair: job.pair,
        near_misses: near_n,
        near_combos: combos.len(),
        secs: (t_solve, t_nb, t0.elapsed().as_secs_f64()),
        solutions: solved.solutions.len(),
        dup_pseudo_solutions: dup_n,
        level_sizes: solved.level_sizes,
        evals: l.evals,
        distinct: l.distinct,
        outcomes: l.outcomes,
        accepted_orderings: l.accepted_orderings,
        orderings_tried: l.orderings_tried,
        first_solution: solved.solutions.first().cloned(),
        capped,
    }
}

fn jobs(tier: Tier) -> Vec<Job> {
    let mut v = Vec::new();
    // (n, k, input/nonce pairs, every substitute value?, pairs that also get pair substitution, unpruned solver?)
    let mut add = |n: u32, k: u32, pairs: std::ops::Range<usize>, full_subst: bool, pair_subst_first: usize, dup_solver: bool| {
        for pair in pairs {
            v.push(Job { p: P { n, k }, pair, full_subst, pair_subst: pair < pair_subst_first, dup_solver });
        }
    };
    // the costly jobs come first so that they start early
    match tier {
        Tier::Quick => {
            add(80, 3, 1..2, false, 0, false); // pair 1 has solutions, pair 0 has none
            add(96, 5, 0..1, false, 0, true);
            add(80, 4, 0..1, false, 0, true);
            add(64, 3, 0..1, false, 0, true);
            add(72, 5, 0..2, false, 0, true);
            add(56, 3, 0..2, false, 0, true);
            add(48, 3, 0..2, true, 0, true);
            add(56, 6, 0..4, true, 0, true);
            add(32, 3, 0..8, true, 0, true);
            add(40, 3, 0..8, true, 0, true);
            add(48, 5, 0..8, true, 0, true);
        }
        Tier::Thorough => {
            add(96, 3, 0..1, false, 0, false);
            add(80, 3, 0..2, false, 0, false);
            add(32, 3, 0..64, true, 6, true);
            add(96, 5, 0..2, true, 0, true);
            add(80, 4, 0..2, true, 0, true);
            add(64, 3, 0..3, true, 0, true);
            add(72, 5, 0..8, true, 0, true);
            add(56, 3, 0..8, true, 0, true);
            add(48, 3, 0..8, true, 0, true);
            add(56, 6, 0..16, true, 0, true);
            add(40, 3, 0..64, true, 0, true);
            add(48, 5, 0..64, true, 0, true);
        }
    }
    v
}

// ---------------------------------------------------------------------------------------------
// the real header path

fn header_bytes() -> Vec<u8> {
    hex::decode(HEADER_HEX.trim()).expect("header hex")
}

/// `flip`: None = the vector itself, Some(b) = bit b (most significant first) of the serialized
/// header inverted before parsing. `base` may carry a warm generator for the unmodified
/// (input, nonce).
fn check_header(flip: Option<usize>, base: Option<&mut (Vec<u8>, Vec<u8>, Gen)>) -> Result<String, String> {
    use zcash_primitives::block::BlockHeader;
    let mut bytes = header_bytes();
    if let Some(b) = flip {
        if b >= bytes.len() * 8 {
            return Err("bit out of range".into());
        }
        bytes[b / 8] ^= 0x80 >> (b % 8);
    }
    let header = match catch(|| BlockHeader::read(&bytes[..])) {
        Ok(Ok(h)) => h,
        // the header codec itself is C03's subject
        Ok(Err(_)) => return if flip.is_some() { Ok("header:no-longer-parses".into()) } else { Err("the mainnet header vector does not parse".into()) },
        Err(_) => return if flip.is_some() { Ok("header:parse-panic".into()) } else { Err("the mainnet header vector does not parse".into()) },
    };
    let mut raw = Vec::new();
    header.write(&mut raw).map_err(|e| format!("header.write: {e}"))?;
    if flip.is_none() {
        if header.hash().to_string() != HEADER_HASH || raw != bytes {
            return Err("the embedded header vector is not mainnet block 415000".into());
        }
    }
    if raw.len() < 140 {
        return Err("serialized header shorter than 140 bytes".into());
    }
    let input = raw[..108].to_vec();
    let nonce = header.nonce.to_vec();
    let soln = header.solution.clone();
    let p = P { n: 200, k: 9 };
    let r = match base {
        Some((bi, bn, g)) if *bi == input && *bn == nonce => check_verify(g, &input, &nonce, &soln),
        _ => check_verify(&mut Gen::new(p, &input, &nonce), &input, &nonce, &soln),
    }?;
    match (flip, r.as_str()) {
        (None, "accept") => Ok("header:accept".into()),
        (None, o) => Err(format!("the mainnet header's solution is not accepted: {o}")),
        (Some(_), o) => Ok(format!("header:{o}")),
    }
}

fn run_header(run: &Run) {
    let bytes = header_bytes();
    match check_header(None, None) {
        Ok(o) => run.outcome(&o),
        Err(m) => run.fail("header", "header(mainnet-415000)".into(), m, json!({"flip": Value::Null})),
    }
    let raw_input = bytes[..108].to_vec();
    let raw_nonce = bytes[108..140].to_vec();
    let nbits = bytes.len() * 8;
    let outs: Vec<BTreeMap<String, u64>> = (0..nbits)
        .into_par_iter()
        .fold(
            || (None::<(Vec<u8>, Vec<u8>, Gen)>, BTreeMap::<String, u64>::new()),
            |(mut base, mut out), bit| {
                if base.is_none() {
                    base = Some((raw_input.clone(), raw_nonce.clone(), Gen::new(P { n: 200, k: 9 }, &raw_input, &raw_nonce)));
                }
                let region = if bit < 140 * 8 {
                    "pow-header"
                } else if bit < 143 * 8 {
                    "length-prefix"
                } else {
                    "solution"
                };
                match check_header(Some(bit), base.as_mut()) {
                    Ok(o) => *out.entry(format!("{o}@{region}")).or_insert(0) += 1,
                    Err(m) => run.fail("header", format!("header(mainnet-415000,flip-bit{bit})"), m, json!({"flip": bit})),
                }
                (base, out)
            },
        )
        .map(|(_, out)| out)
        .collect();
    for o in outs {
        for (k, v) in o {
            run.outcome_n(&k, v);
        }
    }
    run.eval_distinct(nbits as u64 + 1);
    run.section("header_path", json!({"vector": "mainnet block 415000 header (1487 bytes, from zcash_primitives/src/block.rs tests)", "single_bit_changes": nbits}));
}

// ---------------------------------------------------------------------------------------------

pub fn replay(kind: &str, case: &Value) -> Result<(), String> {
    let num = |v: &Value| v.as_u64().unwrap_or(0);
    match kind {
        "verify" => {
            let p = P { n: num(&case["n"]) as u32, k: num(&case["k"]) as u32 };
            let hx = |v: &Value| hex::decode(v.as_str().unwrap_or("")).map_err(|e| e.to_string());
            let (input, nonce, soln) = (hx(&case["input"])?, hx(&case["nonce"])?, hx(&case["soln"])?);
            check_verify(&mut Gen::new(p, &input, &nonce), &input, &nonce, &soln).map(|_| ())
        }
        "grid" => check_grid(num(&case["n"]) as u32, num(&case["k"]) as u32, num(&case["len"]) as usize, num(&case["fill"]) as u8).map(|_| ()),
        "header" => check_header(case["flip"].as_u64().map(|b| b as usize), None).map(|_| ()),
        _ => Err(format!("unknown kind {kind}")),
    }
}

pub fn run(args: &Args) -> i32 {
    let run = Run::new(args, "exploration");
    run.set_rule(
        "(a) every solution listed by a complete Wagner solver for each (parameters, input, nonce) job, and its exhaustive neighbourhood \
         (each single-bit flip of solution/input/nonce, each length 0..=2*len, all 8! orderings for k=3 or all transpositions, sub-tree swaps \
         and rotations otherwise, each single-index substitution, each index duplication and self-cancelling block copy, index lists with a \
         repeated index that pass every collision test, taken from the unpruned solver (up to 4096 per job, a value source), near misses from the solver (one node misses its collision in exactly one bit; per (segment, bit) up to 256 per job), pseudo-random strings); a case is distinct by (parameters, input, nonce, solution bytes); \
         (b) every (n,k) with n<=520, k<=n+1 plus extreme u32 symbols x lengths {0,1,expected-1,expected,expected+1} x fillers {00,ff}; \
         (c) every single-bit change of the mainnet block 415000 header. Oracle: bit-level reference verifier written from the specification",
    );
    run.assume("BLAKE2b (blake2b_simd) is trusted; the reference derives X_i from it with its own personalisation/slicing code");
    run.assume("a solution must consist of distinct indices (Equihash paper, property statement); given distinctness the specification's lexicographic block order and the crate's leading-index order coincide, and without it both reject");
    run.assume("parameters the crate must support = its documented requirement list (n multiple of 8, 3 <= k < n, (k+1) | n) restricted to what its 32-bit unpacking can represent (n <= 512, collision width 8..=24 bits, k <= width+1); for those a right-length solution must not be reported as 'invalid parameters'. Outside that set only 'Err, no panic, never Ok' is demanded");
    run.assume("grid fillers 00 and ff decode to 2^k equal indices, which is never a solution for k >= 1");

    // (b) parameter grid
    run_grid(&run);
    // (c) header path
    run_header(&run);
    // (a) solutions and neighbourhoods
    let js = jobs(args.tier);
    let outs: Vec<JobOut> = js.par_iter().map(|j| run_job(&run, j, args.tier)).collect();
    let mut per_param: BTreeMap<String, (usize, usize, usize, u64, u64, u64, usize, usize)> = BTreeMap::new();
    let mut total_solutions = 0;
    for o in &outs {
        run.eval_distinct(o.distinct);
        run.add_evaluations(o.evals - o.distinct);
        for (k, v) in &o.outcomes {
            run.outcome_n(k, *v);
        }
        if std::env::var("VERIF_C19_TIMING").is_ok() {
            eprintln!("({},{})#{} solve {:.2}s neighbourhoods done {:.2}s near misses done {:.2}s", o.p.n, o.p.k, o.pair, o.secs.0, o.secs.1, o.secs.2);
        }
        if o.capped {
            run.cap_hit(&format!("solver row cap hit for ({},{}) pair {}", o.p.n, o.p.k, o.pair));
        }
        total_solutions += o.solutions;
        let e = per_param.entry(format!("({},{})", o.p.n, o.p.k)).or_insert((0, 0, 0, 0, 0, 0, 0, 0));
        e.0 += 1;
        e.1 += o.solutions;
        e.2 += o.dup_pseudo_solutions;
        e.3 += o.evals;
        e.4 += o.orderings_tried;
        e.5 += o.accepted_orderings;
        e.6 += o.near_misses;
        e.7 += o.near_combos;
        if let Some(s) = &o.first_solution {
            if o.pair == 0 {
                let (input, nonce) = pair_material(o.p, o.pair);
                run.sample(json!({"n": o.p.n, "k": o.p.k, "input": hex::encode(&input), "nonce": hex::encode(&nonce), "indices": s,
                    "minimal": hex::encode(encode(o.p, s)), "rows_per_level": o.level_sizes, "expected": "accepted; every neighbour rejected unless the reference accepts it"}));
            }
        }
    }
    run.section(
        "solver_jobs",
        json!(per_param
            .iter()
            .map(|(k, v)| json!({"params": k, "input_nonce_pairs": v.0, "solutions": v.1, "repeated_index_pseudo_solutions": v.2, "cases": v.3, "orderings_tried": v.4, "orderings_accepted": v.5,
                "near_misses_found": v.6, "near_miss_level_bit_combinations": v.7}))
            .collect::<Vec<_>>()),
    );
    run.require(total_solutions >= args.tier.pick(20, 200) || run.failure_count() > 0, "too few solutions found by the solver");
    run.require(run.outcomes_distinct() >= 25 || run.failure_count() > 0, "fewer than 25 distinct (class, outcome) pairs observed");
    run.finish(&replay)
}
