//! C20 — chain-history tree roots match a from-scratch recomputation.
//!
//! Subject: `zcash_history::{Tree, Entry, Version (V1/V2/V3)}` and
//! `zcash_encoding::CompactSize::{read,write}_unbounded`.
//!
//! Model checking of the state graph over the leaf count n (the tree shape depends on nothing
//! else): states 1..=N per (version, leaf profile); transitions `append` (n -> n+1) and `truncate`
//! (n -> n-1, n >= 2). Every transition is executed on the real `Tree` built (i) fully loaded and
//! (ii) as the minimal partial view (`Tree::new(len, peaks, extra)` holding exactly the nodes the
//! operation reads, computed by the reference MMR); every minimal view with one needed node
//! removed must fail with `ExpectedInMemory` naming that node. In addition every operation
//! sequence of length <= L from every base n <= B is run on one `Tree` object (whose internal
//! state — generated nodes, stored map — is history dependent) with *fresh* leaves, fully loaded
//! and on the partial view holding what the sequence needs.
//!
//! Oracle: `refmmr.rs`, an independent rebuild from all current leaves (perfect sub-trees per set
//! bit of n, left-fold bagging, field-wise combination, BLAKE2b-256 with "ZcashHistory" || branch
//! id); append-then-truncate and truncate-then-append restore root and length; full == partial;
//! every node produced round-trips through `to_bytes`/`from_bytes` (and `Entry::write`/`read`);
//! truncations and byte rewrites of node encodings are accepted iff the documented rule accepts
//! them (canonical compact sizes, ascending representable height range), never a panic.

mod lattice;
mod refmmr;

use lattice::PROFILES;
use mc_core::explore::{bfs, Limits, Subject};
use mc_core::{catch, Args, Run};
use primitive_types::U256;
use rayon::prelude::*;
use refmmr::{all_subtrees, array_len, children, peaks, pos, root_over, truncate_needs, Forest, RNode};
use serde_json::{json, Value};
use std::collections::BTreeMap;
use std::marker::PhantomData;
use std::sync::{Arc, Mutex};
use zcash_history::{Entry, EntryLink, Error as HErr, NodeData, NodeDataV2, NodeDataV3, Tree, Version, V1, V2, V3};

// ---------------------------------------------------------------------------------------------
// glue between the model's nodes and the crate's node types

trait Ver: Version + 'static {
    const V: u8;
    fn real(r: &RNode) -> Self::NodeData;
    fn model(d: &Self::NodeData) -> RNode;
}

fn real_v1(r: &RNode) -> NodeData {
    NodeData {
        consensus_branch_id: r.branch,
        subtree_commitment: r.commitment,
        start_time: r.start_time,
        end_time: r.end_time,
        start_target: r.start_target,
        end_target: r.end_target,
        start_sapling_root: r.start_sapling_root,
        end_sapling_root: r.end_sapling_root,
        subtree_total_work: U256(r.work),
        start_height: r.start_height,
        end_height: r.end_height,
        sapling_tx: r.sapling_tx,
    }
}
fn model_v1(d: &NodeData) -> RNode {
    RNode {
        branch: d.consensus_branch_id,
        commitment: d.subtree_commitment,
        start_time: d.start_time,
        end_time: d.end_time,
        start_target: d.start_target,
        end_target: d.end_target,
        start_sapling_root: d.start_sapling_root,
        end_sapling_root: d.end_sapling_root,
        work: d.subtree_total_work.0,
        start_height: d.start_height,
        end_height: d.end_height,
        sapling_tx: d.sapling_tx,
        ..Default::default()
    }
}
impl Ver for V1 {
    const V: u8 = 1;
    fn real(r: &RNode) -> NodeData {
        real_v1(r)
    }
    fn model(d: &NodeData) -> RNode {
        model_v1(d)
    }
}
impl Ver for V2 {
    const V: u8 = 2;
    fn real(r: &RNode) -> NodeDataV2 {
        NodeDataV2 { v1: real_v1(r), start_orchard_root: r.start_orchard_root, end_orchard_root: r.end_orchard_root, orchard_tx: r.orchard_tx }
    }
    fn model(d: &NodeDataV2) -> RNode {
        RNode { start_orchard_root: d.start_orchard_root, end_orchard_root: d.end_orchard_root, orchard_tx: d.orchard_tx, ..model_v1(&d.v1) }
    }
}
impl Ver for V3 {
    const V: u8 = 3;
    fn real(r: &RNode) -> NodeDataV3 {
        NodeDataV3 {
            v2: <V2 as Ver>::real(r),
            start_ironwood_root: r.start_ironwood_root,
            end_ironwood_root: r.end_ironwood_root,
            ironwood_tx: r.ironwood_tx,
        }
    }
    fn model(d: &NodeDataV3) -> RNode {
        RNode { start_ironwood_root: d.start_ironwood_root, end_ironwood_root: d.end_ironwood_root, ironwood_tx: d.ironwood_tx, ..<V2 as Ver>::model(&d.v2) }
    }
}

/// Zero the fields a version does not have.
fn norm(ver: u8, mut n: RNode) -> RNode {
    if ver < 2 {
        n.start_orchard_root = [0; 32];
        n.end_orchard_root = [0; 32];
        n.orchard_tx = 0;
    }
    if ver < 3 {
        n.start_ironwood_root = [0; 32];
        n.end_ironwood_root = [0; 32];
        n.ironwood_tx = 0;
    }
    n
}

fn leaf(ver: u8, profile: &str, i: u64, stamp: u64, total: u64) -> RNode {
    norm(ver, lattice::leaf(profile, i, stamp, total))
}

#[derive(Clone, Debug)]
struct Cfg {
    ver: u8,
    profile: String,
    /// largest leaf count reachable in this run mode
    total: u64,
}

impl Cfg {
    fn forest(&self) -> Result<Forest, String> {
        let leaves: Vec<RNode> = (0..self.total).map(|i| leaf(self.ver, &self.profile, i, 0, self.total)).collect();
        Forest::new(self.ver, &leaves).ok_or_else(|| "leaf lattice overflows a counter (machinery)".to_string())
    }
    fn json(&self) -> Value {
        json!({"ver": self.ver, "profile": self.profile, "total": self.total})
    }
    fn from_json(v: &Value) -> Result<Cfg, String> {
        let profile = v["profile"].as_str().ok_or("no profile")?.to_string();
        if !PROFILES.contains(&profile.as_str()) {
            return Err("unknown profile".into());
        }
        Ok(Cfg { ver: v["ver"].as_u64().ok_or("no ver")? as u8, profile, total: v["total"].as_u64().ok_or("no total")? })
    }
    fn tag(&self) -> String {
        format!("V{}/{}", self.ver, self.profile)
    }
}

macro_rules! by_version {
    ($ver:expr, $f:ident ( $($a:expr),* )) => {
        match $ver {
            1 => $f::<V1>($($a),*),
            2 => $f::<V2>($($a),*),
            3 => $f::<V3>($($a),*),
            v => Err(format!("unknown version {v}")),
        }
    };
}

// ---------------------------------------------------------------------------------------------
// building views of the real tree from the reference array

fn entry<V: Ver>(forest: &Forest, f: u64, b: u32) -> (u32, Entry<V>) {
    let data = V::real(forest.node(f, b));
    let e = if b == 0 {
        Entry::new_leaf(data)
    } else {
        let (l, r) = children(f, b);
        Entry::new(data, EntryLink::Stored(pos(l.0, l.1)), EntryLink::Stored(pos(r.0, r.1)))
    };
    (pos(f, b), e)
}

fn view<V: Ver>(forest: &Forest, n: u64, extra: &[(u64, u32)]) -> Tree<V> {
    let pk = peaks(n);
    let peaks_v: Vec<(u32, Entry<V>)> = pk.iter().map(|(f, b)| entry::<V>(forest, *f, *b)).collect();
    let extra_v: Vec<(u32, Entry<V>)> = extra.iter().filter(|x| !pk.contains(x)).map(|(f, b)| entry::<V>(forest, *f, *b)).collect();
    Tree::new(array_len(n), peaks_v, extra_v)
}

fn full_extra(n: u64) -> Vec<(u64, u32)> {
    all_subtrees(n)
}

/// Nodes beyond the peaks that one truncation of an n-leaf tree reads (none for odd n: the last
/// peak is the leaf itself).
fn minimal_extra(n: u64) -> Vec<(u64, u32)> {
    truncate_needs(n)
}

fn link_str(l: EntryLink) -> String {
    match l {
        EntryLink::Stored(i) => format!("S{i}"),
        EntryLink::Generated(i) => format!("G{i}"),
    }
}

fn stored_idx(l: EntryLink) -> Option<u32> {
    match l {
        EntryLink::Stored(i) => Some(i),
        EntryLink::Generated(_) => None,
    }
}

fn diff(a: &RNode, b: &RNode) -> String {
    let mut v = Vec::new();
    macro_rules! f {
        ($($x:ident),*) => { $( if a.$x != b.$x { v.push(stringify!($x)); } )* };
    }
    f!(branch, commitment, start_time, end_time, start_target, end_target, start_sapling_root, end_sapling_root, work, start_height, end_height, sapling_tx,
       start_orchard_root, end_orchard_root, orchard_tx, start_ironwood_root, end_ironwood_root, ironwood_tx);
    v.join(",")
}

/// Root data, array length and leaf count as the real tree reports them.
fn observe<V: Ver>(t: &Tree<V>) -> Result<(RNode, u32, u64), String> {
    let r = t.root_node().map_err(|e| format!("root_node: {e:?}"))?;
    Ok((V::model(r.data()), t.len(), r.node().leaf_count()))
}

fn expect_state<V: Ver>(t: &Tree<V>, want_root: &RNode, n: u64, what: &str) -> Result<(), String> {
    let (root, len, leaves) = observe(t).map_err(|e| format!("{what}: {e}"))?;
    if &root != want_root {
        return Err(format!("{what}: root node differs from the from-scratch rebuild over {n} leaves in [{}]", diff(&root, want_root)));
    }
    if len != array_len(n) {
        return Err(format!("{what}: len() = {len}, the array of {n} leaves has {} entries", array_len(n)));
    }
    if leaves != n {
        return Err(format!("{what}: root leaf count {leaves}, expected {n}"));
    }
    Ok(())
}

/// `from_bytes(to_bytes(node)) == node` for node data and for the array entry.
fn roundtrip<V: Ver>(want: &RNode, kids: Option<(u32, u32)>) -> Result<(), String> {
    let data = V::real(want);
    let bytes = V::to_bytes(&data);
    let expect = refmmr::serialize(V::V, want);
    if bytes != expect {
        return Err(format!("to_bytes differs from the documented layout: {} vs {}", hex::encode(&bytes), hex::encode(&expect)));
    }
    let back = V::from_bytes(want.branch, &bytes).map_err(|e| format!("from_bytes(to_bytes(node)) failed: {e:?} for {}", hex::encode(&bytes)))?;
    if &V::model(&back) != want {
        return Err(format!("from_bytes(to_bytes(node)) != node in [{}]", diff(&V::model(&back), want)));
    }
    if V::hash(&data) != refmmr::node_hash(want.branch, &expect) {
        return Err("Version::hash differs from BLAKE2b-256(ZcashHistory || branch)(serialization)".into());
    }
    let e: Entry<V> = match kids {
        None => Entry::new_leaf(data),
        Some((l, r)) => Entry::new(data, EntryLink::Stored(l), EntryLink::Stored(r)),
    };
    let mut eb = Vec::new();
    e.write(&mut eb).map_err(|e| format!("Entry::write: {e:?}"))?;
    let mut want_eb = match kids {
        None => vec![1u8],
        Some((l, r)) => {
            let mut v = vec![0u8];
            v.extend_from_slice(&l.to_le_bytes());
            v.extend_from_slice(&r.to_le_bytes());
            v
        }
    };
    want_eb.extend_from_slice(&expect);
    if eb != want_eb {
        return Err("Entry::write differs from kind byte || links || node data".into());
    }
    let e2 = Entry::<V>::from_bytes(want.branch, &eb).map_err(|e| format!("Entry::from_bytes(write(entry)) failed: {e:?}"))?;
    let kids2 = if e2.leaf() { None } else { Some((e2.left().ok().and_then(stored_idx), e2.right().ok().and_then(stored_idx))) };
    if kids2 != kids.map(|(l, r)| (Some(l), Some(r))) || &V::model(e2.data()) != want {
        return Err("Entry::from_bytes(write(entry)) != entry".into());
    }
    Ok(())
}

// ---------------------------------------------------------------------------------------------
// one state / one transition of the graph (used by the search and by replay)

#[derive(Clone, Copy, Debug, PartialEq, Eq)]
enum Op {
    Append,
    Truncate,
}

/// Outcome labels collected while checking (for the diversity guard).
type Outs = Vec<String>;

fn check_state<V: Ver>(forest: &Forest, n: u64, outs: &mut Outs) -> Result<(), String> {
    let r = catch(|| -> Result<(), String> {
        let want = forest.root(n).ok_or("model overflow (machinery)")?;
        expect_state(&view::<V>(forest, n, &full_extra(n)), &want, n, "fully loaded view")?;
        expect_state(&view::<V>(forest, n, &minimal_extra(n)), &want, n, "minimal partial view")?;
        expect_state(&view::<V>(forest, n, &[]), &want, n, "peaks-only view")?;
        // every node the n-th leaf added, and the root, round-trip
        let prev = if n > 1 { array_len(n - 1) } else { 0 };
        for (f, b) in all_subtrees(n) {
            if pos(f, b) >= prev {
                let kids = (b > 0).then(|| {
                    let (l, r) = children(f, b);
                    (pos(l.0, l.1), pos(r.0, r.1))
                });
                roundtrip::<V>(forest.node(f, b), kids).map_err(|e| format!("node {} of the array: {e}", pos(f, b)))?;
            }
        }
        roundtrip::<V>(&want, None).map_err(|e| format!("root of {n} leaves: {e}"))?;
        Ok(())
    });
    outs.push(format!("state:peaks{}", peaks(n).len().min(4)));
    match r {
        Ok(x) => x,
        Err(p) => Err(format!("panic: {p}")),
    }
}

fn err_str(e: &HErr) -> String {
    match e {
        HErr::ExpectedInMemory(l) => format!("ExpectedInMemory({})", link_str(*l)),
        HErr::ExpectedNode(l) => format!("ExpectedNode({})", l.map(link_str).unwrap_or_default()),
    }
}

/// Append leaf `new` to `t` (n leaves before); compare everything observable with the model.
fn do_append<V: Ver>(t: &mut Tree<V>, new: &RNode, n: u64, want_root: &RNode, want_new: &[(RNode, Option<(u32, u32)>)], what: &str) -> Result<(), String> {
    let links = t.append_leaf(V::real(new)).map_err(|e| format!("{what}: append_leaf at {n} leaves failed: {}", err_str(&e)))?;
    let first = array_len(n);
    let got: Vec<String> = links.iter().map(|l| link_str(*l)).collect();
    let want_links: Vec<String> = (0..want_new.len() as u32).map(|i| format!("S{}", first + i)).collect();
    if got != want_links {
        return Err(format!("{what}: append_leaf at {n} leaves returned links {:?}, the array grows by {:?}", got, want_links));
    }
    for (i, (node, kids)) in want_new.iter().enumerate() {
        let r = t.resolve_link(links[i]).map_err(|e| format!("{what}: appended link does not resolve: {}", err_str(&e)))?;
        if &V::model(r.data()) != node {
            return Err(format!("{what}: appended node {} differs from the model in [{}]", got[i], diff(&V::model(r.data()), node)));
        }
        let k = if r.node().leaf() { None } else { Some((r.node().left().ok().and_then(stored_idx), r.node().right().ok().and_then(stored_idx))) };
        if k != kids.map(|(l, r)| (Some(l), Some(r))) {
            return Err(format!("{what}: appended node {} has children {:?}, the array layout says {:?}", got[i], k, kids));
        }
    }
    expect_state(t, want_root, n + 1, &format!("{what}: after append at {n} leaves"))
}

fn do_truncate<V: Ver>(t: &mut Tree<V>, n: u64, want_root: &RNode, what: &str) -> Result<(), String> {
    let cnt = t.truncate_leaf().map_err(|e| format!("{what}: truncate_leaf at {n} leaves failed: {}", err_str(&e)))?;
    let want = array_len(n) - array_len(n - 1);
    if cnt != want {
        return Err(format!("{what}: truncate_leaf at {n} leaves returned {cnt}, the array shrinks by {want}"));
    }
    expect_state(t, want_root, n - 1, &format!("{what}: after truncate at {n} leaves"))
}

/// The entries the (n+1)-th leaf adds to the array, in array order.
fn new_entries(node_of: &dyn Fn(u64, u32) -> Option<RNode>, n: u64) -> Option<Vec<(RNode, Option<(u32, u32)>)>> {
    let first = array_len(n);
    let mut v = Vec::new();
    for (f, b) in all_subtrees(n + 1) {
        if pos(f, b) >= first {
            let kids = (b > 0).then(|| {
                let (l, r) = children(f, b);
                (pos(l.0, l.1), pos(r.0, r.1))
            });
            v.push((node_of(f, b)?, kids));
        }
    }
    Some(v)
}

fn check_transition<V: Ver>(forest: &Forest, n: u64, op: Op, outs: &mut Outs) -> Result<(), String> {
    let r = catch(|| -> Result<(), String> {
        let here = forest.root(n).ok_or("model overflow (machinery)")?;
        match op {
            Op::Append => {
                let new = forest.node(n, 0).clone();
                let want = forest.root(n + 1).ok_or("model overflow (machinery)")?;
                let added = new_entries(&|f, b| Some(forest.node(f, b).clone()), n).unwrap();
                for (what, extra) in [("fully loaded", full_extra(n)), ("peaks-only view", vec![])] {
                    let mut t = view::<V>(forest, n, &extra);
                    do_append(&mut t, &new, n, &want, &added, what)?;
                    // append-then-truncate restores root and length
                    do_truncate(&mut t, n + 1, &here, &format!("{what}, append-then-truncate"))?;
                }
                outs.push(format!("append:new-nodes{}", added.len().min(4)));
            }
            Op::Truncate if n == 1 => {
                // not in the property's domain (nothing would be left); recorded only
                let mut t = view::<V>(forest, 1, &[]);
                match t.truncate_leaf() {
                    Ok(c) => outs.push(format!("truncate@1:ok({c})")),
                    Err(e) => outs.push(format!("truncate@1:{}", err_str(&e).split('(').next().unwrap_or(""))),
                }
            }
            Op::Truncate => {
                let want = forest.root(n - 1).ok_or("model overflow (machinery)")?;
                let again = forest.node(n - 1, 0).clone();
                let added = new_entries(&|f, b| Some(forest.node(f, b).clone()), n - 1).unwrap();
                let need = minimal_extra(n);
                for (what, extra) in [("fully loaded", full_extra(n)), ("minimal partial view", need.clone())] {
                    let mut t = view::<V>(forest, n, &extra);
                    do_truncate(&mut t, n, &want, what)?;
                    // truncate-then-append restores root and length
                    do_append(&mut t, &again, n - 1, &here, &added, &format!("{what}, truncate-then-append"))?;
                }
                outs.push(format!("truncate:removed{}:needs{}", (array_len(n) - array_len(n - 1)).min(4), need.len().min(6)));
                // every minimal view with one needed node removed: the documented failure, and
                // never a wrong root
                for gone in &need {
                    let extra: Vec<(u64, u32)> = need.iter().copied().filter(|x| x != gone).collect();
                    let mut t = view::<V>(forest, n, &extra);
                    let gi = pos(gone.0, gone.1);
                    match t.truncate_leaf() {
                        Err(HErr::ExpectedInMemory(EntryLink::Stored(i))) if i == gi => outs.push("minus-one:ExpectedInMemory".into()),
                        Err(e) => return Err(format!("view of {n} leaves without needed node {gi}: truncate_leaf failed with {}, expected ExpectedInMemory(S{gi})", err_str(&e))),
                        Ok(_) => match t.root_node() {
                            // the operation itself did not read the node (n = 2: the remaining leaf
                            // becomes the root unread); observing the root then fails as documented
                            Err(HErr::ExpectedInMemory(EntryLink::Stored(i))) if i == gi => outs.push("minus-one:ExpectedInMemory-at-root".into()),
                            _ => {
                                // only a wrong result is a violation; "did not need it after all" is recorded
                                expect_state(&t, &want, n - 1, &format!("view of {n} leaves without needed node {gi}: truncate_leaf succeeded"))?;
                                outs.push("minus-one:not-needed".into());
                            }
                        },
                    }
                }
            }
        }
        Ok(())
    });
    match r {
        Ok(x) => x,
        Err(p) => Err(format!("panic: {p}")),
    }
}

// ---------------------------------------------------------------------------------------------
// operation sequences on one Tree object, with fresh leaves

fn ops_from_str(s: &str) -> Result<Vec<Op>, String> {
    s.chars()
        .map(|c| match c {
            'A' => Ok(Op::Append),
            'T' => Ok(Op::Truncate),
            _ => Err(format!("bad op {c}")),
        })
        .collect()
}
fn ops_to_str(o: &[Op]) -> String {
    o.iter().map(|x| if *x == Op::Append { 'A' } else { 'T' }).collect()
}

/// What the partial view must hold (beyond the peaks of the base) so that the whole sequence can
/// run: for each truncation the nodes it reads that still are the base's own entries (array index
/// below the smallest length reached so far); everything else was pushed by an earlier append.
fn sequence_needs(base: u64, ops: &[Op]) -> Vec<(u64, u32)> {
    let mut need = Vec::new();
    let mut n = base;
    let mut min_len = array_len(base);
    for op in ops {
        match op {
            Op::Append => n += 1,
            Op::Truncate => {
                for (f, b) in truncate_needs(n) {
                    if pos(f, b) < min_len && !need.contains(&(f, b)) {
                        need.push((f, b));
                    }
                }
                n -= 1;
                min_len = min_len.min(array_len(n));
            }
        }
    }
    need
}

fn check_sequence<V: Ver>(cfg: &Cfg, forest: &Forest, base: u64, ops: &[Op]) -> Result<(), String> {
    let r = catch(|| -> Result<(), String> {
        let need = sequence_needs(base, ops);
        for (what, extra) in [("fully loaded", full_extra(base)), ("partial view", need)] {
            let mut t = view::<V>(forest, base, &extra);
            let mut fresh: Vec<Option<RNode>> = vec![None; base as usize];
            for (step, op) in ops.iter().enumerate() {
                let n = fresh.len() as u64;
                let w = format!("{what}, step {} of {}", step + 1, ops_to_str(ops));
                match op {
                    Op::Append => {
                        let new = leaf(cfg.ver, &cfg.profile, n, step as u64 + 1, cfg.total);
                        fresh.push(Some(new.clone()));
                        let want = root_over(forest, &fresh).ok_or("model overflow (machinery)")?;
                        let added = new_entries(&|f, b| refmmr::node_over(forest, &fresh, f, b), n).ok_or("model overflow (machinery)")?;
                        do_append(&mut t, &new, n, &want, &added, &w)?;
                    }
                    Op::Truncate => {
                        fresh.pop();
                        let want = root_over(forest, &fresh).ok_or("model overflow (machinery)")?;
                        do_truncate(&mut t, n, &want, &w)?;
                    }
                }
            }
        }
        Ok(())
    });
    match r {
        Ok(x) => x,
        Err(p) => Err(format!("panic: {p}")),
    }
}

/// All op strings of length 1..=maxlen that never truncate the last leaf away.
fn sequences(base: u64, maxlen: usize) -> Vec<Vec<Op>> {
    let mut out = Vec::new();
    fn rec(n: u64, cur: &mut Vec<Op>, maxlen: usize, out: &mut Vec<Vec<Op>>) {
        if !cur.is_empty() {
            out.push(cur.clone());
        }
        if cur.len() == maxlen {
            return;
        }
        cur.push(Op::Append);
        rec(n + 1, cur, maxlen, out);
        cur.pop();
        if n >= 2 {
            cur.push(Op::Truncate);
            rec(n - 1, cur, maxlen, out);
            cur.pop();
        }
    }
    rec(base, &mut Vec::new(), maxlen, &mut out);
    out
}

// ---------------------------------------------------------------------------------------------
// node encodings: truncations and byte rewrites

fn check_bytes<V: Ver>(branch: u32, bytes: &[u8]) -> Result<String, String> {
    let want = refmmr::parse(V::V, branch, bytes);
    let got = catch(|| V::from_bytes(branch, bytes).map(|d| (V::model(&d), V::to_bytes(&d))));
    match (got, want) {
        (Err(p), _) => Err(format!("panic: {p}")),
        (Ok(Ok((node, re))), Ok((wnode, used))) => {
            if node != wnode {
                return Err(format!("parsed node differs from the documented layout in [{}]", diff(&node, &wnode)));
            }
            if re != bytes[..used] {
                return Err("accepted encoding does not re-encode to the bytes consumed".into());
            }
            Ok("accept".into())
        }
        (Ok(Err(_)), Err(why)) => Ok(format!("reject:{why}")),
        (Ok(Ok(_)), Err(why)) => Err(format!("accepted, but the documented rule rejects it: {why}")),
        (Ok(Err(e)), Ok(_)) => Err(format!("rejected ({e:?}), but it is a well-formed canonical encoding")),
    }
}

fn check_entry_bytes<V: Ver>(branch: u32, bytes: &[u8]) -> Result<String, String> {
    // kind byte: 0 = node with two LE32 links, 1 = leaf, anything else invalid
    let want: Result<(Option<(u32, u32)>, RNode), &'static str> = match bytes.first() {
        None => Err("eof"),
        Some(0) if bytes.len() < 9 => Err("eof"),
        Some(0) => refmmr::parse(V::V, branch, &bytes[9..]).map(|(n, _)| {
            (Some((u32::from_le_bytes(bytes[1..5].try_into().unwrap()), u32::from_le_bytes(bytes[5..9].try_into().unwrap()))), n)
        }),
        Some(1) => refmmr::parse(V::V, branch, &bytes[1..]).map(|(n, _)| (None, n)),
        Some(_) => Err("kind"),
    };
    let got = catch(|| {
        Entry::<V>::from_bytes(branch, bytes).map(|e| {
            let kids = if e.leaf() { None } else { Some((e.left().ok().and_then(stored_idx), e.right().ok().and_then(stored_idx))) };
            (kids, V::model(e.data()))
        })
    });
    match (got, want) {
        (Err(p), _) => Err(format!("panic: {p}")),
        (Ok(Ok((kids, node))), Ok((wk, wn))) => {
            if node != wn || kids != wk.map(|(l, r)| (Some(l), Some(r))) {
                return Err("parsed entry differs from the documented layout".into());
            }
            Ok("entry-accept".into())
        }
        (Ok(Err(_)), Err(why)) => Ok(format!("entry-reject:{why}")),
        (Ok(Ok(_)), Err(why)) => Err(format!("entry accepted, but the documented rule rejects it: {why}")),
        (Ok(Err(e)), Ok(_)) => Err(format!("entry rejected ({e:?}), but it is well-formed")),
    }
}

/// The byte lattice applied to one encoding: every truncation, every position rewritten to each
/// of {00, 01, fc, fd, fe, ff, orig^01, orig^80} (all 256 values on compact-size flag bytes and
/// the first payload byte after them), and trailing bytes.
fn byte_variants(enc: &[u8], cs_positions: &[usize]) -> Vec<(String, Vec<u8>)> {
    let mut v: Vec<(String, Vec<u8>)> = (0..enc.len()).map(|n| (format!("cut@{n}"), enc[..n].to_vec())).collect();
    for p in 0..enc.len() {
        let mut vals: Vec<u8> = if cs_positions.contains(&p) { (0..=255).collect() } else { vec![0, 1, 0xfc, 0xfd, 0xfe, 0xff, enc[p] ^ 1, enc[p] ^ 0x80] };
        vals.sort();
        vals.dedup();
        for x in vals {
            if x != enc[p] {
                let mut e = enc.to_vec();
                e[p] = x;
                v.push((format!("byte[{p}]={x:02x}"), e));
            }
        }
    }
    for (name, tail) in [("tail+00", &[0u8][..]), ("tail+ff*9", &[0xff; 9][..])] {
        let mut e = enc.to_vec();
        e.extend_from_slice(tail);
        v.push((name.into(), e));
    }
    v.push(("unchanged".into(), enc.to_vec()));
    v
}

/// Offsets of the compact-size fields (flag byte and the byte after it) inside a node encoding.
fn cs_positions(ver: u8, n: &RNode) -> Vec<usize> {
    let mut v = Vec::new();
    let mut at = 32 + 16 + 64 + 32;
    let mut field = |at: &mut usize, val: u64| {
        v.push(*at);
        v.push(*at + 1);
        *at += refmmr::compact_size(val).len();
    };
    field(&mut at, n.start_height);
    field(&mut at, n.end_height);
    field(&mut at, n.sapling_tx);
    if ver >= 2 {
        at += 64;
        field(&mut at, n.orchard_tx);
    }
    if ver >= 3 {
        at += 64;
        field(&mut at, n.ironwood_tx);
    }
    v
}

fn check_bytes_dyn(ver: u8, branch: u32, entry: bool, bytes: &[u8]) -> Result<String, String> {
    if entry {
        by_version!(ver, check_entry_bytes(branch, bytes))
    } else {
        by_version!(ver, check_bytes(branch, bytes))
    }
}

// compact sizes directly
fn check_compact(value: Option<u64>, raw: Option<&[u8]>) -> Result<String, String> {
    use zcash_encoding_local::CompactSize;
    let r = catch(|| -> Result<String, String> {
        if let Some(v) = value {
            let mut w = Vec::new();
            CompactSize::write_unbounded(&mut w, v).map_err(|e| format!("write_unbounded({v}): {e:?}"))?;
            if w != refmmr::compact_size(v) {
                return Err(format!("write_unbounded({v}) = {}", hex::encode(&w)));
            }
            match CompactSize::read_unbounded(&w[..]) {
                Ok(x) if x == v => {}
                g => return Err(format!("read_unbounded(write_unbounded({v})) = {g:?}")),
            }
            // the bounded reader applies the 0x02000000 consensus limit; the unbounded one must not
            match (CompactSize::read(&w[..]), v <= 0x0200_0000) {
                (Ok(x), true) if x == v => Ok("cs:in-bound".into()),
                (Err(_), false) => Ok("cs:above-bound".into()),
                (g, _) => Err(format!("CompactSize::read of {v}: {g:?}")),
            }
        } else {
            let b = raw.unwrap();
            match (CompactSize::read_unbounded(b), refmmr::read_compact_size(b)) {
                (Ok(x), Ok((y, _))) if x == y => Ok("cs-raw:accept".into()),
                (Err(_), Err(why)) => Ok(format!("cs-raw:reject:{why}")),
                (g, w) => Err(format!("read_unbounded({}) = {g:?}, documented rule: {w:?}", hex::encode(b))),
            }
        }
    });
    match r {
        Ok(x) => x,
        Err(p) => Err(format!("panic: {p}")),
    }
}

const CS_VALUES: &[u64] = &[
    0, 1, 251, 252, 253, 254, 255, 256, 0xfffe, 0xffff, 0x1_0000, 0x1_0001, 0x1ff_ffff, 0x200_0000, 0x200_0001, 0xffff_fffe, 0xffff_ffff, 0x1_0000_0000, 0x1_0000_0001,
    1 << 63, u64::MAX - 1, u64::MAX,
];

// ---------------------------------------------------------------------------------------------
// the graph search

struct Graph<'a, V: Ver> {
    run: &'a Run,
    forest: &'a Forest,
    nmax: u64,
    _v: PhantomData<V>,
}

impl<V: Ver> Graph<'_, V> {
    fn note(&self, outs: Outs) {
        for o in outs {
            self.run.outcome(&o);
        }
    }
}

impl<V: Ver> Subject for Graph<'_, V> {
    type State = u64;
    type Op = Op;
    fn ops(&self, s: &u64, _depth: usize) -> Vec<Op> {
        let mut v = Vec::new();
        if *s < self.nmax {
            v.push(Op::Append);
        }
        v.push(Op::Truncate);
        v
    }
    fn step(&self, s: &u64, op: &Op) -> Result<Option<u64>, String> {
        let mut outs = Vec::new();
        let r = check_transition::<V>(self.forest, *s, *op, &mut outs);
        self.note(outs);
        r?;
        Ok(match op {
            Op::Append => Some(*s + 1),
            Op::Truncate if *s >= 2 => Some(*s - 1),
            Op::Truncate => None,
        })
    }
    fn key(&self, s: &u64) -> Vec<u8> {
        s.to_le_bytes().to_vec()
    }
    fn check(&self, s: &u64) -> Result<(), String> {
        let mut outs = Vec::new();
        let r = check_state::<V>(self.forest, *s, &mut outs);
        self.note(outs);
        r
    }
}

/// The same graph as a stateright model (second engine): `next_state` executes the transition on
/// the real tree, the `always` property evaluates the state check on the real tree.
struct SrModel<V: Ver> {
    forest: Arc<Forest>,
    nmax: u64,
    fails: Arc<Mutex<Vec<(u64, Op, String)>>>,
    _v: PhantomData<fn() -> V>,
}

impl<V: Ver> stateright::Model for SrModel<V> {
    type State = u64;
    type Action = Op;
    fn init_states(&self) -> Vec<u64> {
        vec![1]
    }
    fn actions(&self, s: &u64, a: &mut Vec<Op>) {
        if *s < self.nmax {
            a.push(Op::Append);
        }
        if *s >= 2 {
            a.push(Op::Truncate);
        }
    }
    fn next_state(&self, s: &u64, a: Op) -> Option<u64> {
        match check_transition::<V>(&self.forest, *s, a, &mut Vec::new()) {
            Err(m) => {
                self.fails.lock().unwrap().push((*s, a, m));
                None
            }
            Ok(()) => Some(if a == Op::Append { *s + 1 } else { *s - 1 }),
        }
    }
    fn properties(&self) -> Vec<stateright::Property<Self>> {
        vec![stateright::Property::always("root equals the from-scratch rebuild", |m: &SrModel<V>, s: &u64| check_state::<V>(&m.forest, *s, &mut Vec::new()).is_ok())]
    }
}

struct GraphOut {
    states: u64,
    transitions: u64,
    sr_unique_states: u64,
    capped: Option<String>,
    /// (leaf count before the failing element, failing op or None for a state check, message)
    cex: Vec<(u64, Option<Op>, String)>,
}

fn search<V: Ver>(run: &Run, cfg: &Cfg, nmax: u64, wall: f64) -> Result<GraphOut, String> {
    let forest = cfg.forest()?;
    let g = Graph::<V> { run, forest: &forest, nmax, _v: PhantomData };
    let (stats, cex) = bfs(&g, vec![1u64], &Limits { max_depth: usize::MAX, max_states: u64::MAX, max_wall_s: wall }, 8);
    let mut out = Vec::new();
    for c in cex {
        // the history is an op list from the one-leaf tree; the failing element is its last op, or
        // the state it leads to when the whole history is executable
        let mut n = 1u64;
        let mut failing: Option<Op> = None;
        for (i, op) in c.history.iter().enumerate() {
            let last = i + 1 == c.history.len();
            if last && check_transition::<V>(&forest, n, *op, &mut Vec::new()).is_err() {
                failing = Some(*op);
                break;
            }
            n = if *op == Op::Append { n + 1 } else { n - 1 };
        }
        out.push((n, failing, c.msg));
    }
    // second engine
    use stateright::{Checker, Model};
    let fails = Arc::new(Mutex::new(Vec::new()));
    let checker = SrModel::<V> { forest: Arc::new(forest), nmax, fails: fails.clone(), _v: PhantomData }.checker().spawn_bfs().join();
    let sr_unique_states = checker.unique_state_count() as u64;
    if let Some(path) = checker.discovery("root equals the from-scratch rebuild") {
        let n = *path.last_state();
        if !out.iter().any(|(m, op, _)| *m == n && op.is_none()) {
            out.push((n, None, "stateright: the always-property 'root equals the from-scratch rebuild' fails in this state".into()));
        }
    }
    for (n, op, m) in fails.lock().unwrap().iter() {
        if !out.iter().any(|(x, o, _)| x == n && *o == Some(*op)) {
            out.push((*n, Some(*op), m.clone()));
        }
    }
    Ok(GraphOut { states: stats.states, transitions: stats.transitions, sr_unique_states, capped: stats.capped, cex: out })
}

// ---------------------------------------------------------------------------------------------

pub fn replay(kind: &str, case: &Value) -> Result<(), String> {
    match kind {
        "state" | "transition" => {
            let cfg = Cfg::from_json(&case["cfg"])?;
            let forest = cfg.forest()?;
            let n = case["n"].as_u64().ok_or("no n")?;
            if n == 0 || n + 1 > cfg.total {
                return Err("n out of range".into());
            }
            let mut o = Vec::new();
            if kind == "state" {
                by_version!(cfg.ver, check_state(&forest, n, &mut o))
            } else {
                let op = ops_from_str(case["op"].as_str().unwrap_or(""))?;
                if op.len() != 1 {
                    return Err("one op expected".into());
                }
                by_version!(cfg.ver, check_transition(&forest, n, op[0], &mut o))
            }
        }
        "sequence" => {
            let cfg = Cfg::from_json(&case["cfg"])?;
            let forest = cfg.forest()?;
            let base = case["base"].as_u64().ok_or("no base")?;
            let ops = ops_from_str(case["ops"].as_str().unwrap_or(""))?;
            if base == 0 || base + ops.len() as u64 > cfg.total {
                return Err("sequence leaves the prepared leaf range".into());
            }
            by_version!(cfg.ver, check_sequence(&cfg, &forest, base, &ops))
        }
        "bytes" => {
            let b = hex::decode(case["bytes"].as_str().unwrap_or("")).map_err(|e| e.to_string())?;
            check_bytes_dyn(case["ver"].as_u64().unwrap_or(0) as u8, case["branch"].as_u64().unwrap_or(0) as u32, case["entry"].as_bool().unwrap_or(false), &b).map(|_| ())
        }
        "compact" => {
            if let Some(v) = case["value"].as_str() {
                check_compact(Some(v.parse::<u64>().map_err(|e| e.to_string())?), None).map(|_| ())
            } else {
                let b = hex::decode(case["raw"].as_str().unwrap_or("")).map_err(|e| e.to_string())?;
                check_compact(None, Some(&b)).map(|_| ())
            }
        }
        _ => Err(format!("unknown kind {kind}")),
    }
}

pub fn run(args: &Args) -> i32 {
    let run = Run::new(args, "model_checking");
    let nmax: u64 = args.tier.pick(64, 1032);
    let seq_base_max: u64 = args.tier.pick(32, 64);
    let seq_len: usize = args.tier.pick(7, 10);
    run.set_rule(&format!(
        "state graph: leaf count n in 1..={nmax} per (version V1/V2/V3, leaf profile), transitions append/truncate, each executed on the real Tree \
         fully loaded and as a minimal partial view, plus every minimal view with one needed node removed; a case is distinct by (version, profile, \
         n, operation, view). Sequences: every append/truncate string of length 1..={seq_len} from every base n in 1..={seq_base_max} (fresh leaves) on one \
         Tree object, fully loaded and partial. Encodings: every node produced round-trips; byte lattice (all truncations, each byte rewritten to \
         8 boundary values / all 256 on compact-size bytes, trailing bytes) on node and entry encodings. Oracle: from-scratch MMR rebuild"
    ));
    run.assume("BLAKE2b (blake2b_simd) is trusted; the model serialises and personalises on its own");
    run.assume("leaf contents keep every counter sum within u64 and the work sum within 256 bits (one leaf may hold u64::MAX / nearly 2^256 while the others hold 0): overflowing sums are outside the property");
    run.assume("leaves are single blocks with consecutive heights (the tree derives leaf counts from height ranges); truncating a one-leaf tree is outside the domain and only recorded");
    run.assume("a node encoding is acceptable iff it has enough bytes, canonical compact sizes and an ascending height range whose size fits a u64 (documented on NodeData::read); trailing bytes are ignored by the cursor-based from_bytes");
    run.assume("the nodes a truncation needs beyond the peaks are both children of every node on the right slope of the last peak (tree.rs docs and examples/long.rs)");

    let cfgs: Vec<Cfg> = PROFILES.iter().flat_map(|p| (1..=3u8).map(move |v| Cfg { ver: v, profile: p.to_string(), total: 0 })).collect();

    // 1. state graph
    let wall = args.tier.pick(40.0, 420.0);
    let gouts: Vec<(Cfg, Result<GraphOut, String>)> = cfgs
        .par_iter()
        .map(|c| {
            let cfg = Cfg { total: nmax + 1, ..c.clone() };
            let r = by_version!(cfg.ver, search(&run, &cfg, nmax, wall));
            (cfg, r)
        })
        .collect();
    let mut graph_table = Vec::new();
    for (cfg, r) in gouts {
        match r {
            Err(m) => mc_core::machinery_error(&format!("C20 {}: {m}", cfg.tag())),
            Ok(g) => {
                // per transition: full + partial (+ restore) executions; counted as 2 traces, plus one per state
                run.add_graph(g.states, g.transitions, 2 * (g.states + 2 * g.transitions)); // both engines execute every state and transition
                run.eval_distinct(3 * g.states + 2 * g.transitions);
                if let Some(c) = &g.capped {
                    run.cap_hit(&format!("{}: {c}", cfg.tag()));
                }
                graph_table.push(json!({"config": cfg.tag(), "states": g.states, "transitions": g.transitions, "stateright_unique_states": g.sr_unique_states}));
                run.require(!g.cex.is_empty() || g.capped.is_some() || g.states == g.sr_unique_states, &format!("{}: the two engines disagree on the number of states ({} vs {})", cfg.tag(), g.states, g.sr_unique_states));
                for (n, op, msg) in g.cex {
                    match op {
                        Some(op) => run.fail("transition", format!("{}:n={n}:{}", cfg.tag(), ops_to_str(&[op])), msg, json!({"cfg": cfg.json(), "n": n, "op": ops_to_str(&[op])})),
                        None => run.fail("state", format!("{}:n={n}", cfg.tag()), msg, json!({"cfg": cfg.json(), "n": n})),
                    }
                }
            }
        }
    }
    run.section("state_graph", json!(graph_table));
    run.sample(json!({"graph": "V2/cs253, n=6 -> truncate", "minimal_view": "peaks {6 (4 leaves), 9 (2 leaves)} + extra {7, 8}", "expected": "root == rebuild over 5 leaves, len 8, returns 2; without node 7 or 8: ExpectedInMemory"}));

    // 2. operation sequences
    let seq_total = seq_base_max + seq_len as u64;
    let jobs: Vec<(Cfg, u64)> = cfgs.iter().flat_map(|c| (1..=seq_base_max).map(move |b| (Cfg { total: seq_total, ..c.clone() }, b))).collect();
    let forests: BTreeMap<String, Forest> = cfgs
        .iter()
        .map(|c| {
            let cfg = Cfg { total: seq_total, ..c.clone() };
            (cfg.tag(), cfg.forest().unwrap_or_else(|m| mc_core::machinery_error(&m)))
        })
        .collect();
    let souts: Vec<(u64, u64, Vec<(String, String, Value)>)> = jobs
        .par_iter()
        .map(|(cfg, base)| {
            let forest = &forests[&cfg.tag()];
            let mut fails = Vec::new();
            let (mut cnt, mut steps) = (0u64, 0u64);
            for ops in sequences(*base, seq_len) {
                cnt += 1;
                steps += ops.len() as u64;
                let r: Result<(), String> = by_version!(cfg.ver, check_sequence(cfg, forest, *base, &ops));
                if let Err(m) = r {
                    if fails.len() < 3 {
                        fails.push((format!("{}:base={base}:{}", cfg.tag(), ops_to_str(&ops)), m, json!({"cfg": cfg.json(), "base": base, "ops": ops_to_str(&ops)})));
                    }
                }
            }
            (cnt, steps, fails)
        })
        .collect();
    let (mut seqs, mut steps) = (0u64, 0u64);
    for (c, s, fails) in souts {
        seqs += c;
        steps += s;
        for (k, m, case) in fails {
            run.fail("sequence", k, m, case);
        }
    }
    run.eval_distinct(2 * seqs);
    run.add_graph(0, 2 * steps, 2 * seqs);
    run.outcome_n("sequence:agrees", seqs);
    run.section("sequences", json!({"sequences": seqs, "operations_executed_per_view": steps, "views": 2, "base_max": seq_base_max, "max_len": seq_len}));
    run.sample(json!({"sequence": "V3/extreme base=7 ops=TTAATA", "expected": "after every step root == rebuild over the current (fresh) leaves, on the full and the partial view"}));

    // 3. encodings: byte lattice on node and entry encodings
    let mut enc_cases = 0u64;
    let mut enc_out: BTreeMap<String, u64> = BTreeMap::new();
    for c in &cfgs {
        let cfg = Cfg { total: 9, ..c.clone() };
        let forest = cfg.forest().unwrap_or_else(|m| mc_core::machinery_error(&m));
        let picks: Vec<(&str, RNode, Option<(u32, u32)>)> = vec![
            ("leaf0", forest.node(0, 0).clone(), None),
            ("leaf2", forest.node(2, 0).clone(), None),
            ("node(0,1)", forest.node(0, 1).clone(), Some((0, 1))),
            ("root7", forest.root(7).unwrap(), Some((u32::MAX, 0x0100_0000))),
        ];
        for (name, node, kids) in picks {
            let enc = refmmr::serialize(cfg.ver, &node);
            let csp = cs_positions(cfg.ver, &node);
            for (what, v) in byte_variants(&enc, &csp) {
                enc_cases += 1;
                match check_bytes_dyn(cfg.ver, node.branch, false, &v) {
                    Ok(o) => *enc_out.entry(format!("bytes:{o}")).or_insert(0) += 1,
                    Err(m) => run.fail("bytes", format!("bytes:{}:{name}:{what}", cfg.tag()), m, json!({"ver": cfg.ver, "branch": node.branch, "entry": false, "bytes": hex::encode(&v)})),
                }
            }
            // entry encoding: kind byte and links rewritten, every truncation
            let mut eenc = match kids {
                None => vec![1u8],
                Some((l, r)) => {
                    let mut v = vec![0u8];
                    v.extend_from_slice(&l.to_le_bytes());
                    v.extend_from_slice(&r.to_le_bytes());
                    v
                }
            };
            let hdr = eenc.len();
            eenc.extend_from_slice(&enc);
            let mut variants: Vec<(String, Vec<u8>)> = (0..=eenc.len()).map(|n| (format!("cut@{n}"), eenc[..n].to_vec())).collect();
            for k in 0..=255u8 {
                if k != eenc[0] {
                    let mut e = eenc.clone();
                    e[0] = k;
                    variants.push((format!("kind={k:02x}"), e));
                }
            }
            for p in 1..hdr {
                let mut vals = vec![0u8, 1, 0xff, eenc[p] ^ 0x80];
                vals.sort();
                vals.dedup();
                for x in vals {
                    if x != eenc[p] {
                        let mut e = eenc.clone();
                        e[p] = x;
                        variants.push((format!("byte[{p}]={x:02x}"), e));
                    }
                }
            }
            for (what, v) in variants {
                enc_cases += 1;
                match check_bytes_dyn(cfg.ver, node.branch, true, &v) {
                    Ok(o) => *enc_out.entry(format!("bytes:{o}")).or_insert(0) += 1,
                    Err(m) => run.fail("bytes", format!("entry-bytes:{}:{name}:{what}", cfg.tag()), m, json!({"ver": cfg.ver, "branch": node.branch, "entry": true, "bytes": hex::encode(&v)})),
                }
            }
        }
    }
    // height-range rule on encodings: every ordered pair of boundary heights
    for ver in 1..=3u8 {
        for &s in CS_VALUES {
            for &e in CS_VALUES {
                let mut n = leaf(ver, "plain", 0, 0, 1);
                n.start_height = s;
                n.end_height = e;
                let enc = refmmr::serialize(ver, &n);
                enc_cases += 1;
                match check_bytes_dyn(ver, n.branch, false, &enc) {
                    Ok(o) => *enc_out.entry(format!("heights:{o}")).or_insert(0) += 1,
                    Err(m) => run.fail("bytes", format!("heights:V{ver}:{s}..{e}"), m, json!({"ver": ver, "branch": n.branch, "entry": false, "bytes": hex::encode(&enc)})),
                }
            }
        }
    }
    // compact sizes directly
    for &v in CS_VALUES {
        enc_cases += 1;
        match check_compact(Some(v), None) {
            Ok(o) => *enc_out.entry(o).or_insert(0) += 1,
            Err(m) => run.fail("compact", format!("compact:{v}"), m, json!({"value": v.to_string()})),
        }
    }
    for flag in [0xfcu8, 0xfd, 0xfe, 0xff] {
        for &v in CS_VALUES {
            for cut in [false, true] {
                let mut raw = vec![flag];
                raw.extend_from_slice(&v.to_le_bytes());
                let w = match flag {
                    0xfd => 3,
                    0xfe => 5,
                    0xff => 9,
                    _ => 1,
                };
                raw.truncate(if cut { w - 1 } else { w });
                enc_cases += 1;
                match check_compact(None, Some(&raw)) {
                    Ok(o) => *enc_out.entry(o).or_insert(0) += 1,
                    Err(m) => run.fail("compact", format!("compact-raw:{}", hex::encode(&raw)), m, json!({"raw": hex::encode(&raw)})),
                }
            }
        }
    }
    for (k, v) in enc_out {
        run.outcome_n(&k, v);
    }
    run.eval_distinct(enc_cases);
    run.section("encodings", json!({"cases": enc_cases}));

    run.require(run.outcomes_distinct() >= 20 || run.failure_count() > 0, "fewer than 20 distinct outcome classes observed");
    run.finish(&replay)
}
