//! C03 — transaction and block-header wire codecs are faithful and canonical.
//!
//! Well-formed side: a shape lattice of transactions for every supported (version, branch) pair,
//! built from a plain-data description (`spec::TxSpec`), serialised by an independent writer
//! (`spec::ref_write`), constructed through the public `from_parts` constructors, written, read
//! back behind a counting reader with trailing sentinel bytes, and compared field by field through
//! public accessors. Arbitrary-bytes side: everything at distance 1 from those encodings and from
//! the repository's published vectors (truncation, extension, byte rewrites, count / amount /
//! flags / branch / version field lattices incl. non-canonical CompactSize forms), judged against
//! an independent parser (`spec::ref_parse`). Block headers and the CompactSize combinators of
//! `components/zcash_encoding` get the same treatment.

pub mod gen;
pub mod header;
pub mod oracle;
pub mod pool;
pub mod real;
pub mod spec;

use gen::*;
use mc_core::{Args, Run, Tier};
use rayon::prelude::*;
use serde_json::{json, Value};
use spec::*;
use std::collections::{BTreeMap, HashSet};

/// One arbitrary-bytes case: (mutation description, how to obtain the bytes from the base).
type Mutant = (String, Mut);

#[derive(Clone, Debug)]
enum Mut {
    Whole(Vec<u8>),
    Trunc(usize),
    Ext(usize, u8),
    Byte(usize, u8),
}

impl Mut {
    fn apply(&self, base: &[u8]) -> Vec<u8> {
        match self {
            Mut::Whole(v) => v.clone(),
            Mut::Trunc(l) => base[..*l].to_vec(),
            Mut::Ext(n, b) => {
                let mut m = base.to_vec();
                m.extend(std::iter::repeat(*b).take(*n));
                m
            }
            Mut::Byte(p, v) => {
                let mut m = base.to_vec();
                m[*p] = *v;
                m
            }
        }
    }
}

fn splice(b: &[u8], off: usize, len: usize, new: &[u8]) -> Vec<u8> {
    let mut v = Vec::with_capacity(b.len() + new.len());
    v.extend_from_slice(&b[..off]);
    v.extend_from_slice(new);
    v.extend_from_slice(&b[off + len..]);
    v
}

fn is_opaque(f: F) -> bool {
    matches!(
        f,
        F::InScript(_) | F::OutScript(_) | F::SpProof(_) | F::SpSig(_) | F::SoEnc(_) | F::SoOut(_) | F::SoProof(_) | F::SapBsig | F::Js(_) | F::JsSig | F::OEnc(..) | F::OOut(..) | F::OProof(_) | F::OSig(..) | F::OBsig(_)
    )
}

pub fn amount_lattice() -> Vec<i64> {
    vec![0, 1, -1, 5, MAX_MONEY - 1, MAX_MONEY, MAX_MONEY + 1, -MAX_MONEY + 1, -MAX_MONEY, -MAX_MONEY - 1, i64::MAX, i64::MIN, 1 << 32, -(1 << 32)]
}

/// Structured-field lattices: every count / amount / flags / branch / header / group-id field ×
/// its boundary values.
fn field_mutants(enc: &[u8], spans: &[Span], all_flags: bool) -> Vec<Mutant> {
    let mut out = Vec::new();
    let mut extra: Vec<Mutant> = Vec::new();
    let header_span = spans.iter().find(|s| s.f == F::Header).copied();
    for sp in spans {
        let cur = &enc[sp.off..sp.off + sp.len];
        let mut push = |desc: String, new: Vec<u8>| {
            if new != cur {
                out.push((format!("{:?}={}", sp.f, desc), Mut::Whole(splice(enc, sp.off, sp.len, &new))));
            }
        };
        match sp.f {
            F::VinCount | F::VoutCount | F::InScriptLen(_) | F::OutScriptLen(_) | F::SapSpendCount | F::SapOutCount | F::JsCount | F::OCount(_) | F::OProofLen(_) => {
                let curv = ref_compact_value(cur);
                let mut vals = header::compact_values();
                vals.push(curv);
                vals.push(curv + 1);
                vals.push(curv.saturating_sub(1));
                vals.sort();
                vals.dedup();
                for n in vals {
                    for form in [1usize, 3, 5, 9] {
                        if let Some(e) = compact_size_form(n, form) {
                            push(format!("cs{form}:{n:#x}"), e);
                        }
                    }
                }
            }
            F::SapVb | F::OVb(_) | F::OutValue(_) => {
                for a in amount_lattice() {
                    push(format!("{a}"), a.to_le_bytes().to_vec());
                }
            }
            F::OFlags(_) => {
                for f in 0..=255u8 {
                    // every value, or one value on each side of every bit the grammar inspects
                    if all_flags || f < 16 || f.count_ones() == 1 || f.count_zeros() <= 1 {
                        push(format!("{f:#04x}"), vec![f]);
                    }
                }
            }
            F::Branch => {
                for (_, b) in BRANCHES {
                    for d in [0u32, 1, u32::MAX] {
                        let v = b.wrapping_add(d);
                        push(format!("{v:#010x}"), v.to_le_bytes().to_vec());
                    }
                }
                push("0xffffffff".into(), u32::MAX.to_le_bytes().to_vec());
            }
            F::Header => {
                for v in [0u32, 1, 2, 3, 4, 5, 6, 7, 0x7fff_ffff] {
                    for ow in [0u32, 1 << 31] {
                        push(format!("{:#010x}", v | ow), (v | ow).to_le_bytes().to_vec());
                    }
                }
            }
            F::GroupId => {
                for g in [V3_GID, V4_GID, V5_GID, V6_GID] {
                    for d in [0u32, 1, u32::MAX] {
                        let v = g.wrapping_add(d);
                        push(format!("{v:#010x}"), v.to_le_bytes().to_vec());
                        // the matching header word too (re-interpretation under another version)
                        if let (Some(h), 0) = (header_span, d) {
                            let ver = Ver::from_header(0x8000_0000 | [(V3_GID, 3), (V4_GID, 4), (V5_GID, 5), (V6_GID, 6)].iter().find(|x| x.0 == g).unwrap().1, g).unwrap();
                            let mut m = splice(enc, sp.off, sp.len, &v.to_le_bytes());
                            m[h.off..h.off + 4].copy_from_slice(&ver.header().to_le_bytes());
                            if m != enc {
                                extra.push((format!("Header+GroupId={}", ver.name()), Mut::Whole(m)));
                            }
                        }
                    }
                }
                push("0".into(), vec![0; 4]);
            }
            F::LockTime | F::Expiry | F::InIndex(_) | F::InSeq(_) => {
                for v in [0u32, 1, 1 << 31, u32::MAX] {
                    push(format!("{v:#x}"), v.to_le_bytes().to_vec());
                }
            }
            _ => {}
        }
    }
    out.extend(extra);
    out
}

fn ref_compact_value(b: &[u8]) -> u64 {
    let mut t = [0u8; 8];
    if b.len() == 1 {
        b[0] as u64
    } else {
        t[..b.len() - 1].copy_from_slice(&b[1..]);
        u64::from_le_bytes(t)
    }
}

/// Byte positions to rewrite. `all`: every byte. Otherwise: every byte of structured fields and,
/// for opaque fields longer than 8 bytes, the first two, the last two and the ZIP 244 split
/// points of note ciphertexts.
fn byte_positions(spans: &[Span], len: usize, all: bool) -> Vec<usize> {
    if all {
        return (0..len).collect();
    }
    let mut v = Vec::new();
    for sp in spans {
        if is_opaque(sp.f) && sp.len > 8 {
            let mut offs = vec![0, 1, sp.len - 2, sp.len - 1];
            if matches!(sp.f, F::SoEnc(_) | F::OEnc(..)) {
                offs.extend([51, 52, 563, 564]);
            }
            v.extend(offs.into_iter().map(|o| sp.off + o));
        } else {
            v.extend(sp.off..sp.off + sp.len);
        }
    }
    v.sort();
    v.dedup();
    v
}

fn byte_mutants(enc: &[u8], positions: &[usize]) -> Vec<Mutant> {
    let mut out = Vec::new();
    for &p in positions {
        let c = enc[p];
        let mut seen = vec![c];
        for (name, n) in [("^1", c ^ 1), ("^80", c ^ 0x80), ("=00", 0u8), ("=ff", 0xff)] {
            if seen.contains(&n) {
                continue;
            }
            seen.push(n);
            out.push((format!("byte[{p}]{name}"), Mut::Byte(p, n)));
        }
    }
    out
}

/// Truncation at every length in `lengths`, and the four extensions.
fn length_mutants(enc: &[u8], lengths: &[usize]) -> Vec<Mutant> {
    let mut out: Vec<Mutant> = lengths.iter().filter(|l| **l < enc.len()).map(|l| (format!("trunc[{l}]"), Mut::Trunc(*l))).collect();
    for (n, fillb) in [(1usize, 0u8), (1, 0xff), (32, 0), (32, 0xff)] {
        out.push((format!("ext[{n}x{fillb:02x}]"), Mut::Ext(n, fillb)));
    }
    out
}

struct Base {
    id: String,
    ext_branch: u32,
    enc: Vec<u8>,
    spans: Vec<Span>,
}

fn base_of(ver: Ver, branch: u32, sh: &Shape) -> Base {
    let w = ref_write(&make_spec(ver, branch, sh));
    Base { id: format!("{}@{}/{}", ver.name(), branch_name(branch), sh.id()), ext_branch: branch, enc: w.buf, spans: w.spans }
}

fn case_json(mode: &str, bytes: &[u8], ext_branch: u32) -> Value {
    json!({"mode": mode, "hex": hex::encode(bytes), "branch": ext_branch})
}

fn decide(mode: &str, bytes: &[u8], ext_branch: u32) -> Result<String, String> {
    match mode {
        "wf" => oracle::check_wf(bytes, ext_branch),
        "bytes" => oracle::check_bytes(bytes, ext_branch),
        "hdr-wf" => header::check_header_wf(bytes),
        "hdr-bytes" => header::check_header_bytes(bytes),
        _ => Err(format!("unknown mode {mode}")),
    }
}

pub fn replay(kind: &str, case: &Value) -> Result<(), String> {
    match kind {
        "tx" | "hdr" => {
            let b = hex::decode(case["hex"].as_str().unwrap_or("")).map_err(|e| e.to_string())?;
            decide(case["mode"].as_str().unwrap_or(""), &b, case["branch"].as_u64().unwrap_or(0) as u32).map(|_| ())
        }
        "tx-reader" | "hdr-reader" => {
            let b = hex::decode(case["hex"].as_str().unwrap_or("")).map_err(|e| e.to_string())?;
            let a = real::Answers::parse(case["answers"].as_str().unwrap_or("")).ok_or("bad reader answers")?;
            if kind == "tx-reader" {
                oracle::check_reader(&b, case["branch"].as_u64().unwrap_or(0) as u32, a).map(|_| ())
            } else {
                header::check_header_reader(&b, a).map(|_| ())
            }
        }
        "compact" => header::check_compact(case["n"].as_str().and_then(|s| s.parse().ok()).unwrap_or(0), case["form"].as_u64().unwrap_or(1) as usize).map(|_| ()),
        "optional" => header::check_optional(case["tag"].as_u64().unwrap_or(0) as u8).map(|_| ()),
        _ => Err(format!("unknown kind {kind}")),
    }
}

/// Evaluate a batch of cases against one base; record outcomes and failures.
fn sweep(run: &Run, kind: &str, mode: &str, base_id: &str, ext_branch: u32, base: &[u8], cases: Vec<Mutant>) {
    let results: Vec<(u128, Result<String, String>, usize)> = cases
        .par_iter()
        .enumerate()
        .map(|(i, (_, m))| {
            let bytes = m.apply(base);
            let r = decide(mode, &bytes, ext_branch);
            let mut k = bytes;
            k.extend_from_slice(&ext_branch.to_le_bytes());
            k.extend_from_slice(mode.as_bytes());
            (mc_core::key128(&k), r, i)
        })
        .collect();
    let mut seen = HashSet::new();
    let mut outcomes: BTreeMap<String, u64> = BTreeMap::new();
    let mut dups = 0u64;
    for (h, r, i) in results {
        if !seen.insert(h) {
            dups += 1;
            continue;
        }
        run.eval(&h.to_le_bytes());
        match r {
            Ok(o) => *outcomes.entry(o).or_insert(0) += 1,
            Err(m) => {
                *outcomes.entry("VIOLATION".into()).or_insert(0) += 1;
                let (desc, mu) = &cases[i];
                run.fail(kind, format!("{base_id}:{desc}"), m, case_json(mode, &mu.apply(base), ext_branch));
            }
        }
    }
    run.add_evaluations(dups);
    for (o, n) in outcomes {
        run.outcome_n(&o, n);
    }
}

/// Deviation levels of the reader-answer dimension, for the evidence.
#[derive(Default)]
struct ReaderCounts {
    split: std::sync::atomic::AtomicU64,
    interrupt: std::sync::atomic::AtomicU64,
    chunk: [std::sync::atomic::AtomicU64; 4],
}

const CHUNKS: [usize; 4] = [1, 2, 3, 7];

/// Evaluate reader-answer cases: `(description, bytes (None = the base itself), answers)`.
/// The slice parse of the base is computed once and shared by all cases on the base itself
/// (`check_reader` recomputes it when a case is replayed).
fn sweep_reader(run: &Run, hdr: bool, base_id: &str, ext_branch: u32, base: &[u8], cases: Vec<(String, Option<Vec<u8>>, real::Answers)>, counts: &ReaderCounts) {
    use std::sync::atomic::Ordering::Relaxed;
    let kind = if hdr { "hdr-reader" } else { "tx-reader" };
    let shared = if hdr { None } else { oracle::slice_parse(base, ext_branch).ok() };
    let results: Vec<Result<String, String>> = cases
        .par_iter()
        .map(|(_, bytes, a)| {
            let b: &[u8] = bytes.as_deref().unwrap_or(base);
            if hdr {
                header::check_header_reader(b, *a)
            } else {
                match (&shared, bytes) {
                    (Some(sp), None) => oracle::check_reader_with(b, ext_branch, *a, sp),
                    _ => oracle::check_reader(b, ext_branch, *a),
                }
            }
        })
        .collect();
    let mut outcomes: BTreeMap<String, u64> = BTreeMap::new();
    for ((desc, bytes, a), r) in cases.iter().zip(results) {
        match a {
            real::Answers::SplitAt(_) => counts.split.fetch_add(1, Relaxed),
            real::Answers::InterruptAt(_) => counts.interrupt.fetch_add(1, Relaxed),
            real::Answers::Chunk(k) => counts.chunk[CHUNKS.iter().position(|c| c == k).unwrap_or(0)].fetch_add(1, Relaxed),
            real::Answers::Full => 0,
        };
        match r {
            Ok(o) => *outcomes.entry(o).or_insert(0) += 1,
            Err(m) => {
                let b: &[u8] = bytes.as_deref().unwrap_or(base);
                run.fail(kind, format!("{base_id}:{desc}@{}", a.name()), m, json!({"hex": hex::encode(b), "branch": ext_branch, "answers": a.name()}));
            }
        }
    }
    // distinct by construction: (base, bytes variant, answers) are enumerated without repetition
    run.eval_distinct(cases.len() as u64);
    for (o, n) in outcomes {
        run.outcome_n(&o, n);
    }
}

/// Reader cases on one complete encoding: every call short (k in CHUNKS), the same on the stream
/// truncated by one byte (must stay an error), and one short read / one interruption at each of
/// `positions`.
fn reader_cases(enc: &[u8], positions: &[usize], interrupts: bool) -> Vec<(String, Option<Vec<u8>>, real::Answers)> {
    let mut v = Vec::new();
    for k in CHUNKS {
        v.push(("whole".to_string(), None, real::Answers::Chunk(k)));
        if !enc.is_empty() {
            v.push((format!("trunc[{}]", enc.len() - 1), Some(enc[..enc.len() - 1].to_vec()), real::Answers::Chunk(k)));
        }
    }
    for &i in positions {
        v.push(("whole".to_string(), None, real::Answers::SplitAt(i)));
        if interrupts {
            v.push(("whole".to_string(), None, real::Answers::InterruptAt(i)));
        }
    }
    v
}

/// Three positions inside every field that is read with one call: after its first byte, in the
/// middle, before its last byte (plus the field boundaries themselves).
fn field_interior_positions(spans: &[Span], len: usize) -> Vec<usize> {
    let mut v = vec![0, len];
    for sp in spans {
        v.push(sp.off);
        if sp.len > 1 {
            v.extend([sp.off + 1, sp.off + sp.len / 2, sp.off + sp.len - 1]);
        }
    }
    v.sort();
    v.dedup();
    v
}

fn vectors() -> Vec<Base> {
    use zcash_primitives::transaction::tests::data;
    let mut raw: Vec<(String, Vec<u8>, u32)> = vec![("vec:tx_read_write".into(), data::tx_read_write::TX_READ_WRITE.to_vec(), 0xe9ff_75a6)];
    for (i, v) in data::zip_0143::make_test_vectors().into_iter().enumerate() {
        raw.push((format!("vec:zip143[{i}]"), v.tx, u32::from(v.consensus_branch_id)));
    }
    for (i, v) in data::zip_0243::make_test_vectors().into_iter().enumerate() {
        raw.push((format!("vec:zip243[{i}]"), v.tx, u32::from(v.consensus_branch_id)));
    }
    for (i, v) in data::zip_0244::make_test_vectors().into_iter().enumerate() {
        raw.push((format!("vec:zip244[{i}]"), v.tx, 0xc2d6_d0b4));
    }
    raw.into_iter()
        .map(|(id, enc, br)| {
            let spans = match ref_parse(&enc, br) {
                Ok(p) => {
                    let w = ref_write(&p.spec);
                    if w.buf == enc {
                        w.spans
                    } else {
                        vec![]
                    }
                }
                Err(_) => vec![],
            };
            Base { id, ext_branch: br, enc, spans }
        })
        .collect()
}

fn header_lattice(solution_lens: &[usize]) -> Vec<header::Hdr> {
    // three symbols per 32-byte field: all zero, all 0xff, filled
    let h32 = |field: &str, k: usize| -> [u8; 32] {
        match k {
            0 => [0; 32],
            1 => [0xff; 32],
            _ => pool::fill32(field, 0),
        }
    };
    let mut v = Vec::new();
    for version in [0i32, 1, 4, -1, i32::MIN, i32::MAX] {
        for prev in 0..3 {
            for merkle in 0..3 {
                for root in 0..3 {
                    for time in [0u32, 1, 1 << 31, u32::MAX] {
                        for bits in [0u32, 1, 1 << 31, u32::MAX] {
                            for nonce in 0..3 {
                                for &sl in solution_lens {
                                    v.push(header::Hdr {
                                        version,
                                        prev: h32("hdr-prev", prev),
                                        merkle: h32("hdr-merkle", merkle),
                                        sapling_root: h32("hdr-root", root),
                                        time,
                                        bits,
                                        nonce: h32("hdr-nonce", nonce),
                                        solution: pool::fill("sol", sl, sl),
                                    });
                                }
                            }
                        }
                    }
                }
            }
        }
    }
    v
}

pub fn run(args: &Args) -> i32 {
    let run = Run::new(args, "exploration");
    let thorough = args.tier == Tier::Thorough;
    run.set_rule(
        "well-formed: every shape of the {0,1,2}^k count lattice (vin, vout, Sapling spends/outputs, Orchard actions, Ironwood actions) for every \
         supported (version, branch) pair, plus scalar shapes (lock_time x expiry on {0,1,2^31,2^32-1}, value balances and output values on the \
         MAX_MONEY lattice, script lengths and vin/vout counts at 252/253, flag bytes, distinct v4 anchors, free proof lengths); arbitrary bytes: \
         truncation lengths and byte rewrites {^1,^0x80,=0,=0xff} at every position (thorough; quick: every position of structured fields, and the \
         first/last two bytes and ZIP 244 split points of opaque fields), extension by 1/32 bytes, and every count/amount/flags/branch/header/group-id \
         field x its boundary lattice (all four CompactSize forms, canonical or not) applied to base encodings and to the published vectors; reader answers \
         (deviation-bounded): every lattice encoding, vector and header delivered with every call short (at most 1/2/3/7 bytes), also truncated by one \
         byte; exactly one short read (b[..i].chain(b[i..])) at three positions inside every field of every field-lattice base and at every enumerated \
         byte position of the byte-level bases, vectors and header bases, where also one ErrorKind::Interrupted is injected; block \
         headers: 7 fields on boundary values x solution lengths {0,1,252,253,1344}; direct CompactSize/Vector/Optional lattice. A case is distinct \
         by (input bytes, branch, oracle); non-trivial because it differs from every other input by at least one byte",
    );
    run.assume("the pool of valid group/field element encodings comes from the crates' proptest strategies under proptest's deterministic runner (value source only)");
    run.assume("'never reads past what it reports as consumed': the reader position after read() must equal the length of the value's own serialisation, and trailing sentinel bytes must stay unread");
    run.assume("accepted arbitrary bytes must equal the canonical serialisation of the parsed value (implied by equal txid for v1-v4; checked for v5/v6 as the canonical-codec reading of the title)");
    run.assume("reader answers: the value, re-serialisation, txid, auth commitment (header: hash) obtained through a scripted reader must equal those of the contiguous-slice parse of the same bytes; rejected streams must stay rejected");
    run.assume("registry zcash_encoding 0.4 (used by the transaction parser) is exercised only through Transaction::read; the direct lattice runs on components/zcash_encoding");
    let p = pool::pool();
    run.require(p.min_len() >= pool::POOL_MIN - 2, "value pool too small");
    run.section("pool_sizes", json!({"min": p.min_len(), "sapling_cv": p.sap_cv.len(), "orchard_rk": p.orch_rk.len()}));

    let mut phases: Vec<(String, f64)> = Vec::new();
    let mut t0 = run.elapsed();
    let mut phase = |name: &str, run: &Run| {
        let t = run.elapsed();
        phases.push((name.to_string(), t - t0));
        t0 = t;
    };

    let rc = ReaderCounts::default();
    // ---- well-formed side -------------------------------------------------------------------
    let pairs = pairs();
    let wf_cases: u64 = pairs
        .par_iter()
        .map(|(ver, branch)| {
            let mut shapes = count_lattice(*ver, 2);
            shapes.extend(scalar_shapes(*ver, *branch, thorough));
            let cases: Vec<Mutant> = shapes.iter().map(|sh| (sh.id(), Mut::Whole(ref_write(&make_spec(*ver, *branch, sh)).buf))).collect();
            let n = cases.len() as u64;
            // reader answers: every call short (k = 1, 2, 3, 7) on every lattice encoding and on
            // the stream truncated by one byte
            for (id, m) in &cases {
                let enc = m.apply(&[]);
                sweep_reader(&run, false, &format!("{}@{}/{id}", ver.name(), branch_name(*branch)), *branch, &enc, reader_cases(&enc, &[], false), &rc);
            }
            sweep(&run, "tx", "wf", &format!("wf:{}@{}", ver.name(), branch_name(*branch)), *branch, &[], cases);
            n
        })
        .sum();
    run.sample(json!({"mode": "wf", "pair": "v6@Nu6_3", "shape": Shape::base(2, 2, 2, 2, 2, 2).id(), "bytes": ref_write(&make_spec(Ver::V6, 0x37a5_165b, &Shape::base(2, 2, 2, 2, 2, 2))).buf.len()}));
    run.section("wellformed_cases", json!(wf_cases));
    run.section("pairs", json!(pairs.iter().map(|(v, b)| format!("{}@{}", v.name(), branch_name(*b))).collect::<Vec<_>>()));
    phase("wellformed", &run);

    // ---- arbitrary bytes: structured-field lattices -------------------------------------------
    // one or two branches per version for the count lattice; two shapes for every other pair
    let rep_pairs: Vec<(Ver, u32)> = vec![(Ver::Sprout(1), 0), (Ver::Sprout(2), 0), (Ver::V3, 0x5ba8_1b19), (Ver::V4, 0xe9ff_75a6), (Ver::V5, 0xc2d6_d0b4), (Ver::V5, 0x37a5_165b), (Ver::V6, 0x37a5_165b)];
    let mut field_bases: Vec<Base> = Vec::new();
    for (ver, branch) in &rep_pairs {
        for sh in count_lattice(*ver, 2) {
            let counts = [sh.vin, sh.vout, sh.spends, sh.outputs, sh.orchard, sh.ironwood];
            let twos = counts.iter().filter(|c| **c == 2).count();
            // quick: shapes over {0,1} and shapes over {0,2}
            let full = thorough && !(*ver == Ver::V5 && *branch == 0x37a5_165b);
            if full || twos == 0 || counts.iter().all(|c| *c == 2 || *c == 0) {
                field_bases.push(base_of(*ver, *branch, &sh));
            }
        }
    }
    for (ver, branch) in &pairs {
        if !rep_pairs.contains(&(*ver, *branch)) {
            field_bases.push(base_of(*ver, *branch, &Shape::base(1, 1, 1, 1, 1, 1)));
            field_bases.push(base_of(*ver, *branch, &Shape::base(1, 0, 0, 0, 0, 0)));
        }
    }
    run.section("field_lattice_bases", json!(field_bases.len()));
    let cap = args.tier.pick(45.0, 420.0);
    let skipped = std::sync::atomic::AtomicUsize::new(0);
    field_bases.par_iter().for_each(|b| {
        if run.elapsed() > cap {
            skipped.fetch_add(1, std::sync::atomic::Ordering::Relaxed);
            return;
        }
        // reader answers: exactly one short read at positions inside every field
        {
            let quick_lattice = {
                let c: Vec<usize> = b.id.split('/').nth(1).unwrap_or("").split(',').filter_map(|t| t.trim_start_matches(|ch: char| ch.is_alphabetic()).parse().ok()).collect();
                c.iter().all(|x| *x <= 1) || c.iter().all(|x| *x == 0 || *x == 2)
            };
            let pos = if thorough && quick_lattice { byte_positions(&b.spans, b.enc.len(), false) } else { field_interior_positions(&b.spans, b.enc.len()) };
            let cases = pos.iter().map(|i| ("whole".to_string(), None, real::Answers::SplitAt(*i))).collect();
            sweep_reader(&run, false, &b.id, b.ext_branch, &b.enc, cases, &rc);
        }
        let all_flags = thorough || b.id.contains("in1,out1,sp1,so1,or1,ir1");
        sweep(&run, "tx", "bytes", &b.id, b.ext_branch, &b.enc, field_mutants(&b.enc, &b.spans, all_flags));
    });
    let sk = skipped.load(std::sync::atomic::Ordering::Relaxed);
    if sk > 0 {
        run.cap_hit(&format!("wall cap {cap}s: structured-field lattices skipped for {sk}/{} bases", field_bases.len()));
    }
    run.sample(json!({"mode": "bytes", "base": "v4@Canopy/in1,out0,sp0,so0,or0,ir0", "mutation": "SapVb=5", "note": "non-zero valueBalance without Sapling spends/outputs must be rejected"}));
    run.sample(json!({"mode": "bytes", "base": "v6@Nu6_3/in0,out0,sp0,so0,or1,ir0", "mutation": "Branch=0xc2d6d0b4", "note": "v6 Orchard bundle under a pre-NU6.3 branch id must be rejected"}));
    phase("field_lattices", &run);

    // ---- arbitrary bytes: truncation, extension, byte rewrites --------------------------------
    let mut byte_bases: Vec<Base> = Vec::new();
    for (ver, branch) in &rep_pairs {
        let mut shapes = vec![Shape::base(1, 1, 1, 1, 1, 1), Shape::base(0, 0, 0, 0, 0, 0)];
        if thorough {
            shapes.push(Shape::base(2, 2, 2, 2, 2, 2));
        }
        if ver.has_sapling() {
            shapes.extend([Shape::base(0, 0, 1, 0, 0, 0), Shape::base(0, 0, 0, 1, 0, 0), Shape { distinct_anchors: true, ..Shape::base(1, 0, 2, 0, 0, 0) }]);
        }
        if ver.has_orchard() {
            shapes.push(Shape::base(0, 0, 0, 0, 1, 0));
        }
        if ver.has_ironwood() {
            shapes.push(Shape::base(0, 0, 0, 0, 0, 1));
        }
        shapes.push(Shape { in_script: 253, out_script: 252, ..Shape::base(1, 1, 0, 0, 0, 0) });
        for sh in shapes {
            let b = base_of(*ver, *branch, &sh);
            if !byte_bases.iter().any(|x| x.enc == b.enc && x.ext_branch == b.ext_branch) {
                byte_bases.push(b);
            }
        }
    }
    let vecs = vectors();
    run.require(vecs.iter().all(|v| !v.spans.is_empty()), "a published vector is not reproduced by the reference parser/writer");
    run.section("vectors", json!(vecs.iter().map(|v| json!({"id": v.id, "bytes": v.enc.len()})).collect::<Vec<_>>()));
    // every vector must itself be accepted and round-trip; then its structured-field lattices
    vecs.par_iter().for_each(|v| {
        sweep(&run, "tx", "bytes", &v.id, v.ext_branch, &v.enc, vec![("self".into(), Mut::Whole(v.enc.clone()))]);
        sweep(&run, "tx", "bytes", &v.id, v.ext_branch, &v.enc, field_mutants(&v.enc, &v.spans, true));
    });
    phase("vectors_field_lattices", &run);
    let n_lattice_bytes = byte_bases.len();
    byte_bases.extend(vecs);
    run.section("byte_level_bases", json!({"lattice": n_lattice_bytes, "vectors": byte_bases.len() - n_lattice_bytes, "all_byte_positions": thorough}));
    let cap2 = args.tier.pick(50.0, 540.0);
    byte_bases.par_iter().for_each(|b| {
        if run.elapsed() > cap2 {
            skipped.fetch_add(1, std::sync::atomic::Ordering::Relaxed);
            return;
        }
        // thorough: every truncation length and every byte position of lattice bases and of the
        // v5 / tx_read_write vectors; otherwise the structured positions (see `byte_positions`)
        let all = thorough && !(b.id.starts_with("vec:zip143") || b.id.starts_with("vec:zip243"));
        let positions = byte_positions(&b.spans, b.enc.len(), all);
        {
            let mut pos = positions.clone();
            pos.extend([0, b.enc.len()]);
            pos.sort();
            pos.dedup();
            let mut rcases = reader_cases(&b.enc, &pos, true);
            // truncated streams under "every call one byte": still errors, at every enumerated length
            for &t in &positions {
                if t < b.enc.len() {
                    rcases.push((format!("trunc[{t}]"), Some(b.enc[..t].to_vec()), real::Answers::Chunk(1)));
                }
            }
            sweep_reader(&run, false, &b.id, b.ext_branch, &b.enc, rcases, &rc);
        }
        let mut cases = length_mutants(&b.enc, &positions);
        cases.extend(byte_mutants(&b.enc, &positions));
        sweep(&run, "tx", "bytes", &b.id, b.ext_branch, &b.enc, cases);
    });
    let sk2 = skipped.load(std::sync::atomic::Ordering::Relaxed) - sk;
    if sk2 > 0 {
        run.cap_hit(&format!("wall cap {cap2}s: byte-level mutation skipped for {sk2}/{} bases", byte_bases.len()));
    }
    phase("byte_level", &run);

    // ---- block headers ------------------------------------------------------------------------
    let hdrs = header_lattice(&[0, 1, 252, 253, 1344]);
    run.section("header_lattice", json!(hdrs.len()));
    let cases: Vec<Mutant> = hdrs.iter().enumerate().map(|(i, h)| (format!("hdr[{i}]"), Mut::Whole(header::ref_write_header(h)))).collect();
    {
        let rcases: Vec<(String, Option<Vec<u8>>, real::Answers)> =
            cases.iter().flat_map(|(id, m)| CHUNKS.iter().map(move |k| (id.clone(), Some(m.apply(&[])), real::Answers::Chunk(*k)))).collect();
        sweep_reader(&run, true, "hdr", 0, &[], rcases, &rc);
    }
    sweep(&run, "hdr", "hdr-wf", "hdr", 0, &[], cases);
    for sl in [0usize, 1, 252, 253, 1344] {
        let hb = header::ref_write_header(&header::Hdr { version: 4, prev: pool::fill32("hdr-prev", 0), merkle: pool::fill32("hdr-merkle", 0), sapling_root: pool::fill32("hdr-root", 0), time: 1_600_000_000, bits: 0x1f07_ffff, nonce: pool::fill32("hdr-nonce", 0), solution: pool::fill("sol", sl, sl) });
        let all: Vec<usize> = (0..hb.len()).collect();
        let mut m = length_mutants(&hb, &all);
        m.extend(byte_mutants(&hb, &all));
        let cs_len = compact_size(sl as u64).len();
        let cur = sl as u64;
        let mut vals = header::compact_values();
        vals.extend([cur, cur + 1, cur.saturating_sub(1)]);
        vals.sort();
        vals.dedup();
        for n in vals {
            for form in [1usize, 3, 5, 9] {
                if let Some(e) = compact_size_form(n, form) {
                    m.push((format!("sollen=cs{form}:{n:#x}"), Mut::Whole(splice(&hb, 140, cs_len, &e))));
                }
            }
        }
        {
            let pos: Vec<usize> = (0..=hb.len()).collect();
            let mut rcases = reader_cases(&hb, &pos, true);
            for t in 0..hb.len() {
                rcases.push((format!("trunc[{t}]"), Some(hb[..t].to_vec()), real::Answers::Chunk(1)));
            }
            sweep_reader(&run, true, &format!("hdrbase[sol{sl}]"), 0, &hb, rcases, &rc);
        }
        sweep(&run, "hdr", "hdr-bytes", &format!("hdrbase[sol{sl}]"), 0, &hb, m);
    }
    phase("headers", &run);
    run.section("phase_seconds", json!(phases));
    {
        use std::sync::atomic::Ordering::Relaxed;
        run.section(
            "reader_answer_deviation_levels",
            json!({
                "0 deviations (every call served in full)": "every other case of this run (slice parses)",
                "1 deviation: one short read (split at position i)": rc.split.load(Relaxed),
                "1 deviation: one ErrorKind::Interrupted at position i": rc.interrupt.load(Relaxed),
                "every call short, at most 1 byte": rc.chunk[0].load(Relaxed),
                "every call short, at most 2 bytes": rc.chunk[1].load(Relaxed),
                "every call short, at most 3 bytes": rc.chunk[2].load(Relaxed),
                "every call short, at most 7 bytes": rc.chunk[3].load(Relaxed),
            }),
        );
    }

    // ---- direct CompactSize / Optional lattice ---------------------------------------------------
    for n in header::compact_values() {
        for form in [1usize, 3, 5, 9] {
            match header::check_compact(n, form) {
                Ok(o) => {
                    if o != "n/a" {
                        run.eval(format!("compact:{n}:{form}").as_bytes());
                        run.outcome(&o);
                    }
                }
                Err(m) => run.fail("compact", format!("compact:{n:#x}/form{form}"), m, json!({"n": n.to_string(), "form": form})),
            }
        }
    }
    for tag in 0..=255u8 {
        run.eval(format!("optional:{tag}").as_bytes());
        match header::check_optional(tag) {
            Ok(o) => run.outcome(&o),
            Err(m) => run.fail("optional", format!("optional:{tag}"), m, json!({"tag": tag})),
        }
    }

    run.require(run.outcomes_distinct() >= 12 || run.failure_count() > 0, "fewer than 12 distinct outcomes (accept / reject classes) observed");
    run.finish(&replay)
}
