//! C09 — monetary amounts never leave the valid range or wrap.
//!
//! Alphabet: the boundary lattice L (one point on each side of every comparison in value.rs and
//! of every intermediate overflow). Enumerated: every constructor/parser on every lattice point,
//! every binary operator on all pairs of valid lattice values, all multiplier/divisor lattice
//! points, all sums over sequences of length <= 3, every 8-byte encoding of a lattice point with
//! every single byte rewritten to every value. Oracle: exact i128 arithmetic.

use mc_core::{catch, Args, Run};
use serde_json::{json, Value};
use std::num::NonZeroU64;
use zcash_protocol::value::{BalanceError, ZatBalance, Zatoshis, MAX_MONEY};

const MAX: i128 = MAX_MONEY as i128;

fn lattice(r: i128) -> Vec<i128> {
    let mut v: Vec<i128> = vec![i64::MIN as i128, i64::MIN as i128 + 1];
    for d in -r..=r {
        v.push(-MAX + d);
        v.push(d);
        v.push(MAX + d);
    }
    for d in -1..=1 {
        v.push(MAX / 2 + d);
        v.push(-MAX / 2 + d);
    }
    v.extend([i64::MAX as i128 - 1, i64::MAX as i128]);
    // u64 counterparts
    v.extend([(1i128 << 63) - 1, 1i128 << 63, (1i128 << 63) + 1, u64::MAX as i128 - 1, u64::MAX as i128]);
    // values whose product / sum with another lattice point wraps a 64-bit intermediate
    v.extend([5000, 1 << 32, (1i128 << 32) + 1, 4_392_000_000_000]);
    v.sort();
    v.dedup();
    v
}

fn mults() -> Vec<i128> {
    let mut m: Vec<i128> = vec![0, 1, 2, 3, u32::MAX as i128, u32::MAX as i128 + 1, i64::MAX as i128, i64::MAX as i128 + 1, u64::MAX as i128 - 1, u64::MAX as i128];
    for a in [1i128, 2, 3, 5000, MAX / 2, MAX - 1, MAX] {
        m.push(MAX / a);
        m.push(MAX / a + 1);
        // multipliers for which a * m wraps u64/i64 back into the valid range
        m.push(((1i128 << 64) / a) + 1);
        m.push(((1i128 << 63) / a) + 1);
    }
    m.retain(|x| *x >= 0 && *x <= u64::MAX as i128);
    m.sort();
    m.dedup();
    m
}

fn in_bal(x: i128) -> bool {
    (-MAX..=MAX).contains(&x)
}
fn in_zat(x: i128) -> bool {
    (0..=MAX).contains(&x)
}
fn zb(x: i128) -> ZatBalance {
    ZatBalance::from_i64(x as i64).expect("lattice value in balance range")
}
fn zt(x: i128) -> Zatoshis {
    Zatoshis::from_u64(x as u64).expect("lattice value in zatoshi range")
}
fn bal_val(b: ZatBalance) -> i128 {
    i64::from(b) as i128
}
fn zat_val(z: Zatoshis) -> i128 {
    z.into_u64() as i128
}

/// Compare an `Option` result against the exact value: Some(v) iff exact in range and v == exact.
fn opt_bal(got: Option<ZatBalance>, exact: i128) -> Result<&'static str, String> {
    match (got, in_bal(exact)) {
        (Some(v), true) if bal_val(v) == exact => Ok("some"),
        (None, false) => Ok("none"),
        (g, _) => Err(format!("got {:?}, exact result {} (in range: {})", g, exact, in_bal(exact))),
    }
}
fn opt_zat(got: Option<Zatoshis>, exact: i128) -> Result<&'static str, String> {
    match (got, in_zat(exact)) {
        (Some(v), true) if zat_val(v) == exact => Ok("some"),
        (None, false) => Ok("none"),
        (g, _) => Err(format!("got {:?}, exact result {} (in range: {})", g, exact, in_zat(exact))),
    }
}
fn res_bal(got: Result<ZatBalance, BalanceError>, x: i128, lo: i128, hi: i128) -> Result<&'static str, String> {
    match got {
        Ok(v) if (lo..=hi).contains(&x) && bal_val(v) == x => Ok("ok"),
        Err(BalanceError::Underflow) if x < lo => Ok("underflow"),
        Err(BalanceError::Overflow) if x > hi => Ok("overflow"),
        g => Err(format!("constructor on {} gave {:?} (valid range {}..={})", x, g, lo, hi)),
    }
}
fn res_zat(got: Result<Zatoshis, BalanceError>, x: i128) -> Result<&'static str, String> {
    match got {
        Ok(v) if in_zat(x) && zat_val(v) == x => Ok("ok"),
        Err(BalanceError::Underflow) if x < 0 => Ok("underflow"),
        Err(BalanceError::Overflow) if x > MAX => Ok("overflow"),
        g => Err(format!("constructor on {} gave {:?}", x, g)),
    }
}

pub const UNARY_OPS: &[&str] = &[
    "zb_from_i64", "zb_from_nonneg_i64", "zb_from_u64", "zb_try_from_i64", "zb_const_from_i64", "zb_const_from_u64",
    "zt_from_u64", "zt_from_nonneg_i64", "zt_try_from_u64", "zt_const_from_u64", "zt_try_from_zb", "u64_try_from_zb",
    "zb_neg", "zt_neg", "zb_bytes", "zt_bytes", "zb_from_zt", "zb_sign", "zt_rw",
];
pub const BIN_OPS: &[&str] = &[
    "zb_add_zb", "zb_sub_zb", "ozb_add_zb", "ozb_sub_zb", "zb_add_zt", "zb_sub_zt", "ozb_add_zt", "ozb_sub_zt", "zt_add_zt", "zt_sub_zt",
    "ozt_add_zt", "ozt_sub_zt", "zb_ord", "zt_ord",
];
pub const MUL_OPS: &[&str] = &["zb_mul_usize", "zt_mul_u64", "zt_mul_usize", "zt_div", "zt_divrem"];

fn fits_i64(x: i128) -> bool {
    (i64::MIN as i128..=i64::MAX as i128).contains(&x)
}
fn fits_u64(x: i128) -> bool {
    (0..=u64::MAX as i128).contains(&x)
}

/// Is (op, a, b) in the domain of the operation? (`a`, `b` are exact integers.)
fn applicable(op: &str, a: i128, b: i128) -> bool {
    match op {
        "zb_from_i64" | "zb_from_nonneg_i64" | "zb_try_from_i64" | "zb_const_from_i64" | "zt_from_nonneg_i64" => fits_i64(a),
        "zb_from_u64" | "zb_const_from_u64" | "zt_from_u64" | "zt_try_from_u64" | "zt_const_from_u64" => fits_u64(a),
        "zt_try_from_zb" | "u64_try_from_zb" | "zb_neg" | "zb_bytes" | "zb_sign" => in_bal(a),
        "zt_neg" | "zt_bytes" | "zb_from_zt" | "zt_rw" => in_zat(a),
        "zb_add_zb" | "zb_sub_zb" | "ozb_add_zb" | "ozb_sub_zb" | "zb_ord" => in_bal(a) && in_bal(b),
        "zb_add_zt" | "zb_sub_zt" | "ozb_add_zt" | "ozb_sub_zt" => in_bal(a) && in_zat(b),
        "zt_add_zt" | "zt_sub_zt" | "ozt_add_zt" | "ozt_sub_zt" | "zt_ord" => in_zat(a) && in_zat(b),
        "zb_mul_usize" => in_bal(a) && fits_u64(b),
        "zt_mul_u64" | "zt_mul_usize" => in_zat(a) && fits_u64(b),
        "zt_div" | "zt_divrem" => in_zat(a) && fits_u64(b) && b != 0,
        _ => false,
    }
}

/// Run one operation on the real code and compare with exact arithmetic.
/// Returns the outcome class (for diversity accounting) or a violation message.
pub fn check_op(op: &str, a: i128, b: i128) -> Result<&'static str, String> {
    let r = catch(|| -> Result<&'static str, String> {
        match op {
            "zb_from_i64" => res_bal(ZatBalance::from_i64(a as i64), a, -MAX, MAX),
            "zb_try_from_i64" => res_bal(ZatBalance::try_from(a as i64), a, -MAX, MAX),
            "zb_from_nonneg_i64" => res_bal(ZatBalance::from_nonnegative_i64(a as i64), a, 0, MAX),
            "zb_from_u64" => res_bal(ZatBalance::from_u64(a as u64), a, 0, MAX),
            "zt_from_u64" => res_zat(Zatoshis::from_u64(a as u64), a),
            "zt_try_from_u64" => res_zat(Zatoshis::try_from(a as u64), a),
            "zt_from_nonneg_i64" => res_zat(Zatoshis::from_nonnegative_i64(a as i64), a),
            // Documented: the const constructors panic outside the range (their failure signal).
            "zb_const_from_i64" => match catch(|| ZatBalance::const_from_i64(a as i64)) {
                Ok(v) if in_bal(a) && bal_val(v) == a => Ok("ok"),
                Err(_) if !in_bal(a) => Ok("documented-panic"),
                g => Err(format!("const_from_i64({a}) -> {:?}", g)),
            },
            "zb_const_from_u64" => match catch(|| ZatBalance::const_from_u64(a as u64)) {
                Ok(v) if in_zat(a) && bal_val(v) == a => Ok("ok"),
                Err(_) if !in_zat(a) => Ok("documented-panic"),
                g => Err(format!("const_from_u64({a}) -> {:?}", g)),
            },
            "zt_const_from_u64" => match catch(|| Zatoshis::const_from_u64(a as u64)) {
                Ok(v) if in_zat(a) && zat_val(v) == a => Ok("ok"),
                Err(_) if !in_zat(a) => Ok("documented-panic"),
                g => Err(format!("const_from_u64({a}) -> {:?}", g)),
            },
            "zt_try_from_zb" => res_zat(Zatoshis::try_from(zb(a)), a),
            "u64_try_from_zb" => match u64::try_from(zb(a)) {
                Ok(v) if a >= 0 && v as i128 == a => Ok("ok"),
                Err(BalanceError::Underflow) if a < 0 => Ok("underflow"),
                g => Err(format!("u64::try_from(ZatBalance({a})) -> {:?}", g)),
            },
            "zb_neg" => opt_bal(Some(-zb(a)), -a),
            "zt_neg" => opt_bal(Some(-zt(a)), -a),
            "zb_from_zt" => {
                opt_bal(Some(ZatBalance::from(zt(a))), a)?;
                opt_bal(Some(ZatBalance::from(&zt(a))), a)
            }
            "zb_sign" => {
                let v = zb(a);
                if v.is_positive() != (a > 0) || v.is_negative() != (a < 0) {
                    return Err(format!("sign predicates wrong for {a}"));
                }
                if i64::from(v) as i128 != a || i64::from(&v) as i128 != a {
                    return Err(format!("i64::from wrong for {a}"));
                }
                Ok("ok")
            }
            "zb_bytes" => {
                let bytes = zb(a).to_i64_le_bytes();
                if bytes != (a as i64).to_le_bytes() {
                    return Err(format!("to_i64_le_bytes({a}) = {:?}", bytes));
                }
                res_bal(ZatBalance::from_i64_le_bytes(bytes), a, -MAX, MAX)
            }
            "zt_bytes" => {
                let z = zt(a);
                if z.to_u64_le_bytes() != (a as u64).to_le_bytes() || z.to_i64_le_bytes() != (a as i64).to_le_bytes() {
                    return Err(format!("zatoshi byte encodings wrong for {a}"));
                }
                res_zat(Zatoshis::from_u64_le_bytes(z.to_u64_le_bytes()), a)?;
                res_zat(Zatoshis::from_nonnegative_i64_le_bytes(z.to_i64_le_bytes()), a)?;
                if z.is_zero() != (a == 0) || z.is_positive() != (a > 0) || u64::from(z) as i128 != a {
                    return Err(format!("zatoshi predicates wrong for {a}"));
                }
                Ok("ok")
            }
            "zt_rw" => {
                let mut buf = Vec::new();
                zt(a).write(&mut buf).map_err(|e| format!("write failed: {e}"))?;
                if buf != (a as u64).to_le_bytes() {
                    return Err(format!("write({a}) = {:?}", buf));
                }
                match Zatoshis::read(&buf[..]) {
                    Ok(v) if zat_val(v) == a => Ok("ok"),
                    g => Err(format!("read(write({a})) = {:?}", g)),
                }
            }
            "zb_add_zb" => opt_bal(zb(a) + zb(b), a + b),
            "zb_sub_zb" => opt_bal(zb(a) - zb(b), a - b),
            "ozb_add_zb" => {
                opt_bal(Some(zb(a)) + zb(b), a + b)?;
                opt_bal(None::<ZatBalance> + zb(b), i128::MAX).map(|_| "none-lifted")
            }
            "ozb_sub_zb" => {
                opt_bal(Some(zb(a)) - zb(b), a - b)?;
                opt_bal(None::<ZatBalance> - zb(b), i128::MAX).map(|_| "none-lifted")
            }
            "zb_add_zt" => opt_bal(zb(a) + zt(b), a + b),
            "zb_sub_zt" => opt_bal(zb(a) - zt(b), a - b),
            "ozb_add_zt" => {
                opt_bal(Some(zb(a)) + zt(b), a + b)?;
                opt_bal(None::<ZatBalance> + zt(b), i128::MAX).map(|_| "none-lifted")
            }
            "ozb_sub_zt" => {
                opt_bal(Some(zb(a)) - zt(b), a - b)?;
                opt_bal(None::<ZatBalance> - zt(b), i128::MAX).map(|_| "none-lifted")
            }
            "zt_add_zt" => opt_zat(zt(a) + zt(b), a + b),
            "zt_sub_zt" => opt_zat(zt(a) - zt(b), a - b),
            "ozt_add_zt" => {
                opt_zat(Some(zt(a)) + zt(b), a + b)?;
                opt_zat(None::<Zatoshis> + zt(b), i128::MAX).map(|_| "none-lifted")
            }
            "ozt_sub_zt" => {
                opt_zat(Some(zt(a)) - zt(b), a - b)?;
                opt_zat(None::<Zatoshis> - zt(b), i128::MAX).map(|_| "none-lifted")
            }
            "zb_ord" => {
                if (zb(a) < zb(b)) != (a < b) || (zb(a) == zb(b)) != (a == b) || zb(a).cmp(&zb(b)) != a.cmp(&b) {
                    return Err(format!("ordering of balances {a},{b} wrong"));
                }
                Ok("ok")
            }
            "zt_ord" => {
                if (zt(a) < zt(b)) != (a < b) || (zt(a) == zt(b)) != (a == b) || zt(a).cmp(&zt(b)) != a.cmp(&b) {
                    return Err(format!("ordering of zatoshis {a},{b} wrong"));
                }
                Ok("ok")
            }
            "zb_mul_usize" => opt_bal(zb(a) * (b as u64 as usize), a * b),
            "zt_mul_u64" => opt_zat(zt(a) * (b as u64), a * b),
            "zt_mul_usize" => opt_zat(zt(a) * (b as u64 as usize), a * b),
            "zt_div" => opt_zat(Some(zt(a) / NonZeroU64::new(b as u64).unwrap()), a / b),
            "zt_divrem" => {
                let qr = zt(a).div_with_remainder(NonZeroU64::new(b as u64).unwrap());
                opt_zat(Some(*qr.quotient()), a / b)?;
                opt_zat(Some(*qr.remainder()), a % b)?;
                if zat_val(*qr.quotient()) * b + zat_val(*qr.remainder()) != a {
                    return Err("quotient*divisor+remainder != dividend".into());
                }
                Ok("some")
            }
            _ => Err(format!("unknown op {op}")),
        }
    });
    match r {
        Ok(x) => x,
        Err(p) => Err(format!("panic: {p}")),
    }
}

/// Sums: fold semantics. `Some(v)` => v is the exact sum and in range; `None` => some prefix sum
/// is out of range (the documented behaviour of a fold of checked additions; for non-negative
/// amounts this coincides with "the exact total is out of range").
pub fn check_sum(kind: &str, xs: &[i128]) -> Result<&'static str, String> {
    let r = catch(|| -> Result<&'static str, String> {
        let exact: i128 = xs.iter().sum();
        let mut pre = 0i128;
        let mut prefix_out = false;
        for x in xs {
            pre += x;
            if (kind.starts_with("zb") && !in_bal(pre)) || (kind.starts_with("zt") && !in_zat(pre)) {
                prefix_out = true;
            }
        }
        let verdict = |got: Option<i128>, in_range: bool| -> Result<&'static str, String> {
            match got {
                Some(v) if v == exact && in_range && !prefix_out => Ok("some"),
                None if prefix_out => Ok("none"),
                g => Err(format!("sum {:?} -> {:?}, exact {}, prefix_out {}", xs, g, exact, prefix_out)),
            }
        };
        match kind {
            "zb_sum_assoc" => verdict(ZatBalance::sum(xs.iter().map(|x| zb(*x))).map(bal_val), in_bal(exact)),
            "zb_sum_iter" => verdict(xs.iter().map(|x| zb(*x)).sum::<Option<ZatBalance>>().map(bal_val), in_bal(exact)),
            "zb_sum_ref" => {
                let v: Vec<_> = xs.iter().map(|x| zb(*x)).collect();
                verdict(v.iter().sum::<Option<ZatBalance>>().map(bal_val), in_bal(exact))
            }
            "zt_sum_iter" => verdict(xs.iter().map(|x| zt(*x)).sum::<Option<Zatoshis>>().map(zat_val), in_zat(exact)),
            "zt_sum_ref" => {
                let v: Vec<_> = xs.iter().map(|x| zt(*x)).collect();
                verdict(v.iter().sum::<Option<Zatoshis>>().map(zat_val), in_zat(exact))
            }
            _ => Err(format!("unknown sum kind {kind}")),
        }
    });
    match r {
        Ok(x) => x,
        Err(p) => Err(format!("panic: {p}")),
    }
}

/// Every decoder on one 8-byte string.
pub fn check_bytes(bytes: [u8; 8]) -> Result<&'static str, String> {
    let r = catch(|| -> Result<&'static str, String> {
        let s = i64::from_le_bytes(bytes) as i128;
        let u = u64::from_le_bytes(bytes) as i128;
        let a = res_bal(ZatBalance::from_i64_le_bytes(bytes), s, -MAX, MAX)?;
        res_bal(ZatBalance::from_nonnegative_i64_le_bytes(bytes), s, 0, MAX)?;
        res_bal(ZatBalance::from_u64_le_bytes(bytes), u, 0, MAX)?;
        res_zat(Zatoshis::from_u64_le_bytes(bytes), u)?;
        res_zat(Zatoshis::from_nonnegative_i64_le_bytes(bytes), s)?;
        match Zatoshis::read(&bytes[..]) {
            Ok(v) if in_zat(u) && zat_val(v) == u => {}
            Err(_) if !in_zat(u) => {}
            g => return Err(format!("Zatoshis::read({:?}) -> {:?}", bytes, g)),
        }
        // accepted => re-encodes to the same bytes
        if let Ok(v) = ZatBalance::from_i64_le_bytes(bytes) {
            if v.to_i64_le_bytes() != bytes {
                return Err("accepted balance bytes do not re-encode identically".into());
            }
        }
        if let Ok(v) = Zatoshis::from_u64_le_bytes(bytes) {
            if v.to_u64_le_bytes() != bytes {
                return Err("accepted zatoshi bytes do not re-encode identically".into());
            }
        }
        // short reads must be errors, not panics
        for n in 0..8 {
            if Zatoshis::read(&bytes[..n]).is_ok() {
                return Err(format!("Zatoshis::read accepted {n} bytes"));
            }
        }
        Ok(a)
    });
    match r {
        Ok(x) => x,
        Err(p) => Err(format!("panic: {p}")),
    }
}

pub fn replay(kind: &str, case: &Value) -> Result<(), String> {
    let num = |v: &Value| -> i128 { v.as_str().and_then(|s| s.parse().ok()).unwrap_or(0) };
    match kind {
        "op" => check_op(case["op"].as_str().unwrap_or(""), num(&case["a"]), num(&case["b"])).map(|_| ()),
        "sum" => {
            let xs: Vec<i128> = case["xs"].as_array().map(|a| a.iter().map(num).collect()).unwrap_or_default();
            check_sum(case["op"].as_str().unwrap_or(""), &xs).map(|_| ())
        }
        "bytes" => {
            let b = hex::decode(case["bytes"].as_str().unwrap_or("")).map_err(|e| e.to_string())?;
            check_bytes(b.try_into().map_err(|_| "need 8 bytes".to_string())?).map(|_| ())
        }
        _ => Err(format!("unknown kind {kind}")),
    }
}

pub fn run(args: &Args) -> i32 {
    let run = Run::new(args, "exploration");
    run.set_rule(
        "every (operator, operand tuple) over the boundary lattice of value.rs (points on each side of 0, +-MAX_MONEY, MAX_MONEY/2, \
         i64/u64 extremes and 64-bit wrap points), every sum sequence of length <=3, every 8-byte encoding of a lattice point with each \
         single byte rewritten to each value; a case is distinct by (operator, operands) and non-trivial when the operands are in the \
         operator's domain; oracle = exact i128 arithmetic",
    );
    run.assume("const_from_* constructors document a panic outside the range; that panic is their failure signal");
    run.assume("Sum is a left fold of checked additions: None is accepted iff some prefix sum leaves the range");
    let lat = lattice(args.tier.pick(2, 5));
    let mul = mults();
    run.section("lattice_points", json!(lat.len()));
    run.section("multiplier_points", json!(mul.len()));
    let rec = |op: &str, a: i128, b: i128| {
        match check_op(op, a, b) {
            Ok(o) => run.outcome(&format!("{op}:{o}")),
            Err(m) => run.fail("op", format!("{op}({a},{b})"), m, json!({"op": op, "a": a.to_string(), "b": b.to_string()})),
        }
    };
    let mut n = 0u64;
    for op in UNARY_OPS {
        for &a in &lat {
            if applicable(op, a, 0) {
                rec(op, a, 0);
                n += 1;
            }
        }
    }
    for op in BIN_OPS {
        for &a in &lat {
            for &b in &lat {
                if applicable(op, a, b) {
                    rec(op, a, b);
                    n += 1;
                }
            }
        }
    }
    for op in MUL_OPS {
        for &a in &lat {
            for &b in &mul {
                if applicable(op, a, b) {
                    rec(op, a, b);
                    n += 1;
                }
            }
        }
    }
    run.sample(json!({"op": "zb_add_zb", "a": MAX.to_string(), "b": "1", "expected": "None"}));
    run.sample(json!({"op": "zt_mul_u64", "a": "5000", "b": ((1i128 << 64) / 5000 + 1).to_string(), "expected": "None (u64 wrap lands in range)"}));
    // sums
    let sum_lat = lattice(args.tier.pick(2, 1));
    let bal: Vec<i128> = sum_lat.iter().copied().filter(|x| in_bal(*x)).collect();
    let zat: Vec<i128> = sum_lat.iter().copied().filter(|x| in_zat(*x)).collect();
    let maxlen = args.tier.pick(3, 4);
    for (kinds, dom) in [(&["zb_sum_assoc", "zb_sum_iter", "zb_sum_ref"][..], &bal), (&["zt_sum_iter", "zt_sum_ref"][..], &zat)] {
        let mut seqs: Vec<Vec<i128>> = vec![vec![]];
        let mut level: Vec<Vec<i128>> = vec![vec![]];
        for _ in 0..maxlen {
            let mut next = Vec::new();
            for s in &level {
                for &x in dom.iter() {
                    let mut t = s.clone();
                    t.push(x);
                    next.push(t);
                }
            }
            seqs.extend(next.iter().cloned());
            level = next;
        }
        for kind in kinds {
            for s in &seqs {
                n += 1;
                match check_sum(kind, s) {
                    Ok(o) => run.outcome(&format!("{kind}:{o}")),
                    Err(m) => run.fail("sum", format!("{kind}{:?}", s), m, json!({"op": kind, "xs": s.iter().map(|x| x.to_string()).collect::<Vec<_>>()})),
                }
            }
        }
    }
    run.sample(json!({"op": "zb_sum_iter", "xs": [MAX.to_string(), "1", "-1"], "expected": "None (prefix leaves the range)"}));
    // bytes: every lattice point that fits 64 bits, every single byte rewritten to every value
    let mut seen = std::collections::BTreeSet::new();
    for &x in &lat {
        let base: [u8; 8] = if fits_i64(x) { (x as i64).to_le_bytes() } else { (x as u64).to_le_bytes() };
        for pos in 0..8 {
            for v in 0..=255u8 {
                let mut b = base;
                b[pos] = v;
                if !seen.insert(b) {
                    continue;
                }
                n += 1;
                match check_bytes(b) {
                    Ok(o) => run.outcome(&format!("bytes:{o}")),
                    Err(m) => run.fail("bytes", format!("bytes:{}", hex::encode(b)), m, json!({"bytes": hex::encode(b)})),
                }
            }
        }
    }
    run.sample(json!({"bytes": hex::encode((MAX as i64 + 1).to_le_bytes()), "expected": "every decoder: Overflow"}));
    run.eval_distinct(n);
    run.require(run.outcomes_distinct() >= 40 || run.failure_count() > 0, "fewer than 40 distinct (operator, outcome) classes observed");
    run.finish(&replay)
}
