//! Reference model of the ZIP 221 chain-history Merkle mountain range, written from the rules
//! documented in /repo/zcash_history (node layout in node_data.rs docs, "ZcashHistory" || branch id
//! personalisation, array representation described in tree.rs / examples) — plain structs, own
//! serializer, own CompactSize, own 256-bit addition; it never calls the crate.
//!
//! Shape rule (specification view, no incremental stack): a tree with n leaves consists of one
//! perfect sub-tree per set bit of n, largest first; the sub-tree over leaves [f, f + 2^b) is
//! parent(sub-tree(f, b-1), sub-tree(f + 2^(b-1), b-1)); the root is the left fold
//! parent(parent(peak0, peak1), peak2) ... of the peaks. In the array representation the entries
//! of everything left of leaf f take 2f - popcount(f) slots, and the root of sub-tree (f, b) is the
//! last of its 2^(b+1) - 1 slots.

use std::collections::HashMap;

#[derive(Clone, Debug, PartialEq, Eq, Default)]
pub struct RNode {
    pub branch: u32,
    pub commitment: [u8; 32],
    pub start_time: u32,
    pub end_time: u32,
    pub start_target: u32,
    pub end_target: u32,
    pub start_sapling_root: [u8; 32],
    pub end_sapling_root: [u8; 32],
    /// 256-bit unsigned, little-endian 64-bit limbs
    pub work: [u64; 4],
    pub start_height: u64,
    pub end_height: u64,
    pub sapling_tx: u64,
    // V2
    pub start_orchard_root: [u8; 32],
    pub end_orchard_root: [u8; 32],
    pub orchard_tx: u64,
    // V3
    pub start_ironwood_root: [u8; 32],
    pub end_ironwood_root: [u8; 32],
    pub ironwood_tx: u64,
}

pub fn compact_size(v: u64) -> Vec<u8> {
    if v < 253 {
        vec![v as u8]
    } else if v <= 0xffff {
        let mut o = vec![0xfd];
        o.extend_from_slice(&(v as u16).to_le_bytes());
        o
    } else if v <= 0xffff_ffff {
        let mut o = vec![0xfe];
        o.extend_from_slice(&(v as u32).to_le_bytes());
        o
    } else {
        let mut o = vec![0xff];
        o.extend_from_slice(&v.to_le_bytes());
        o
    }
}

/// Canonical CompactSize reader over the whole u64 range. Returns (value, bytes consumed).
pub fn read_compact_size(b: &[u8]) -> Result<(u64, usize), &'static str> {
    let flag = *b.first().ok_or("eof")?;
    let (width, min): (usize, u64) = match flag {
        0..=252 => return Ok((flag as u64, 1)),
        253 => (2, 253),
        254 => (4, 0x1_0000),
        255 => (8, 0x1_0000_0000),
    };
    if b.len() < 1 + width {
        return Err("eof");
    }
    let mut le = [0u8; 8];
    le[..width].copy_from_slice(&b[1..1 + width]);
    let v = u64::from_le_bytes(le);
    if v < min {
        return Err("non-canonical");
    }
    Ok((v, 1 + width))
}

pub fn serialize(ver: u8, n: &RNode) -> Vec<u8> {
    let mut o = Vec::with_capacity(320);
    o.extend_from_slice(&n.commitment);
    o.extend_from_slice(&n.start_time.to_le_bytes());
    o.extend_from_slice(&n.end_time.to_le_bytes());
    o.extend_from_slice(&n.start_target.to_le_bytes());
    o.extend_from_slice(&n.end_target.to_le_bytes());
    o.extend_from_slice(&n.start_sapling_root);
    o.extend_from_slice(&n.end_sapling_root);
    for limb in n.work {
        o.extend_from_slice(&limb.to_le_bytes());
    }
    o.extend(compact_size(n.start_height));
    o.extend(compact_size(n.end_height));
    o.extend(compact_size(n.sapling_tx));
    if ver >= 2 {
        o.extend_from_slice(&n.start_orchard_root);
        o.extend_from_slice(&n.end_orchard_root);
        o.extend(compact_size(n.orchard_tx));
    }
    if ver >= 3 {
        o.extend_from_slice(&n.start_ironwood_root);
        o.extend_from_slice(&n.end_ironwood_root);
        o.extend(compact_size(n.ironwood_tx));
    }
    o
}

struct Rd<'a> {
    b: &'a [u8],
    pos: usize,
}
impl Rd<'_> {
    fn take<const N: usize>(&mut self) -> Result<[u8; N], &'static str> {
        if self.b.len() < self.pos + N {
            return Err("eof");
        }
        let mut o = [0u8; N];
        o.copy_from_slice(&self.b[self.pos..self.pos + N]);
        self.pos += N;
        Ok(o)
    }
    fn u32(&mut self) -> Result<u32, &'static str> {
        Ok(u32::from_le_bytes(self.take::<4>()?))
    }
    fn cs(&mut self) -> Result<u64, &'static str> {
        let (v, n) = read_compact_size(&self.b[self.pos..])?;
        self.pos += n;
        Ok(v)
    }
}

/// Documented acceptance rule of the node parser: enough bytes, canonical compact sizes, and a
/// height range that is ascending and holds a number of blocks representable in a u64.
/// Returns the node and the number of bytes consumed (trailing bytes are not looked at).
pub fn parse(ver: u8, branch: u32, b: &[u8]) -> Result<(RNode, usize), &'static str> {
    let mut r = Rd { b, pos: 0 };
    let mut n = RNode { branch, ..Default::default() };
    n.commitment = r.take::<32>()?;
    n.start_time = r.u32()?;
    n.end_time = r.u32()?;
    n.start_target = r.u32()?;
    n.end_target = r.u32()?;
    n.start_sapling_root = r.take::<32>()?;
    n.end_sapling_root = r.take::<32>()?;
    for i in 0..4 {
        n.work[i] = u64::from_le_bytes(r.take::<8>()?);
    }
    n.start_height = r.cs()?;
    n.end_height = r.cs()?;
    if !height_range_ok(&n) {
        return Err("height range");
    }
    n.sapling_tx = r.cs()?;
    if ver >= 2 {
        n.start_orchard_root = r.take::<32>()?;
        n.end_orchard_root = r.take::<32>()?;
        n.orchard_tx = r.cs()?;
    }
    if ver >= 3 {
        n.start_ironwood_root = r.take::<32>()?;
        n.end_ironwood_root = r.take::<32>()?;
        n.ironwood_tx = r.cs()?;
    }
    Ok((n, r.pos))
}

pub fn height_range_ok(n: &RNode) -> bool {
    n.end_height >= n.start_height && (n.end_height as u128 - n.start_height as u128 + 1) <= u64::MAX as u128
}

fn add256(a: [u64; 4], b: [u64; 4]) -> Option<[u64; 4]> {
    let mut o = [0u64; 4];
    let mut carry = 0u128;
    for i in 0..4 {
        let s = a[i] as u128 + b[i] as u128 + carry;
        o[i] = s as u64;
        carry = s >> 64;
    }
    if carry != 0 {
        None
    } else {
        Some(o)
    }
}

pub fn personalization(branch: u32) -> [u8; 16] {
    let mut p = [0u8; 16];
    p[..12].copy_from_slice(b"ZcashHistory");
    p[12..].copy_from_slice(&branch.to_le_bytes());
    p
}

pub fn node_hash(branch: u32, data: &[u8]) -> [u8; 32] {
    let h = blake2b_simd::Params::new().hash_length(32).personal(&personalization(branch)).hash(data);
    let mut o = [0u8; 32];
    o.copy_from_slice(h.as_bytes());
    o
}

/// ZIP 221 make_parent. `None`: a counter or the work sum leaves its integer type (outside the
/// domain of the model), or the branch ids differ.
pub fn combine(ver: u8, l: &RNode, r: &RNode) -> Option<RNode> {
    if l.branch != r.branch {
        return None;
    }
    let mut buf = serialize(ver, l);
    buf.extend(serialize(ver, r));
    let mut n = RNode {
        branch: l.branch,
        commitment: node_hash(l.branch, &buf),
        start_time: l.start_time,
        end_time: r.end_time,
        start_target: l.start_target,
        end_target: r.end_target,
        start_sapling_root: l.start_sapling_root,
        end_sapling_root: r.end_sapling_root,
        work: add256(l.work, r.work)?,
        start_height: l.start_height,
        end_height: r.end_height,
        sapling_tx: l.sapling_tx.checked_add(r.sapling_tx)?,
        ..Default::default()
    };
    if ver >= 2 {
        n.start_orchard_root = l.start_orchard_root;
        n.end_orchard_root = r.end_orchard_root;
        n.orchard_tx = l.orchard_tx.checked_add(r.orchard_tx)?;
    }
    if ver >= 3 {
        n.start_ironwood_root = l.start_ironwood_root;
        n.end_ironwood_root = r.end_ironwood_root;
        n.ironwood_tx = l.ironwood_tx.checked_add(r.ironwood_tx)?;
    }
    Some(n)
}

// ------------------------------------------------------------------------------------------
// shape

/// Array length for n leaves.
pub fn array_len(n: u64) -> u32 {
    (2 * n - n.count_ones() as u64) as u32
}

/// Array index of the root of the perfect sub-tree over leaves [f, f + 2^b).
pub fn pos(f: u64, b: u32) -> u32 {
    debug_assert!(f % (1 << b) == 0);
    array_len(f) + (1u32 << (b + 1)) - 2
}

/// Peaks of a tree with n leaves, left to right, as (first leaf, height).
pub fn peaks(n: u64) -> Vec<(u64, u32)> {
    let mut v = Vec::new();
    let mut f = 0u64;
    for b in (0..64).rev() {
        if n & (1 << b) != 0 {
            v.push((f, b));
            f += 1 << b;
        }
    }
    v
}

/// Children of sub-tree (f, b), b >= 1.
pub fn children(f: u64, b: u32) -> ((u64, u32), (u64, u32)) {
    ((f, b - 1), (f + (1 << (b - 1)), b - 1))
}

/// The stored nodes (beyond the peaks) that truncating the last leaf of an n-leaf tree reads:
/// both children of every node on the right slope of the last peak.
pub fn truncate_needs(n: u64) -> Vec<(u64, u32)> {
    let mut v = Vec::new();
    let (mut f, mut b) = *peaks(n).last().expect("n >= 1");
    while b > 0 {
        let (l, r) = children(f, b);
        v.push(l);
        v.push(r);
        (f, b) = r;
    }
    v
}

/// Every (f, b) sub-tree present in an n-leaf tree, in array order.
pub fn all_subtrees(n: u64) -> Vec<(u64, u32)> {
    let mut v = Vec::new();
    fn rec(f: u64, b: u32, v: &mut Vec<(u64, u32)>) {
        if b > 0 {
            let (l, r) = children(f, b);
            rec(l.0, l.1, v);
            rec(r.0, r.1, v);
        }
        v.push((f, b));
    }
    for (f, b) in peaks(n) {
        rec(f, b, &mut v);
    }
    v
}

/// Leaves plus memoised sub-tree nodes. A leaf is identified by (position, stamp): stamp 0 is the
/// leaf the profile puts at that position, other stamps are fresh leaves appended later.
pub struct Forest {
    pub ver: u8,
    memo: HashMap<(u64, u32), RNode>,
}

impl Forest {
    /// Pre-computes every aligned perfect sub-tree over `leaves`.
    pub fn new(ver: u8, leaves: &[RNode]) -> Option<Forest> {
        let mut memo = HashMap::new();
        for (i, l) in leaves.iter().enumerate() {
            memo.insert((i as u64, 0), l.clone());
        }
        let mut b = 1;
        while (1usize << b) <= leaves.len() {
            let mut f = 0u64;
            while f as usize + (1 << b) <= leaves.len() {
                let (l, r) = children(f, b);
                let n = combine(ver, &memo[&l], &memo[&r])?;
                memo.insert((f, b), n);
                f += 1 << b;
            }
            b += 1;
        }
        Some(Forest { ver, memo })
    }
    pub fn node(&self, f: u64, b: u32) -> &RNode {
        &self.memo[&(f, b)]
    }
    /// Root of the tree over the first n leaves.
    pub fn root(&self, n: u64) -> Option<RNode> {
        let mut it = peaks(n).into_iter();
        let (f, b) = it.next()?;
        let mut root = self.node(f, b).clone();
        for (f, b) in it {
            root = combine(self.ver, &root, self.node(f, b))?;
        }
        Some(root)
    }
}

/// Tree over an explicit leaf list whose tail may differ from the forest's leaves: `fresh[i]` is
/// `Some(leaf)` when position i holds a leaf other than the profile's.
pub fn node_over(forest: &Forest, fresh: &[Option<RNode>], f: u64, b: u32) -> Option<RNode> {
    let hi = (f + (1 << b)) as usize;
    if fresh[f as usize..hi.min(fresh.len())].iter().all(|x| x.is_none()) && hi <= fresh.len() {
        return Some(forest.node(f, b).clone());
    }
    if b == 0 {
        return fresh[f as usize].clone();
    }
    let (l, r) = children(f, b);
    combine(forest.ver, &node_over(forest, fresh, l.0, l.1)?, &node_over(forest, fresh, r.0, r.1)?)
}

pub fn root_over(forest: &Forest, fresh: &[Option<RNode>]) -> Option<RNode> {
    let mut it = peaks(fresh.len() as u64).into_iter();
    let (f, b) = it.next()?;
    let mut root = node_over(forest, fresh, f, b)?;
    for (f, b) in it {
        root = combine(forest.ver, &root, &node_over(forest, fresh, f, b)?)?;
    }
    Some(root)
}
