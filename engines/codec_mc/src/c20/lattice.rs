//! Leaf-content lattice. A profile fixes the consensus branch id, the height of leaf 0 (leaf i has
//! height base + i; the tree derives its shape from the height ranges) and how counters, work,
//! times and roots vary with the leaf position. Symbols are chosen around the comparisons in
//! zcash_encoding::CompactSize (252/253, 0xffff/0x10000, 0xffffffff/0x100000000, the 0x02000000
//! consensus bound that `read_unbounded` must *not* apply), around u64/U256 limits of the sums in
//! combine_inner, and around limb carries of the 256-bit work addition.

use super::refmmr::RNode;
use mc_core::SplitMix;

pub const PROFILES: &[&str] = &["plain", "cs253", "cs-u16", "cs-bound", "cs-u32", "extreme", "zero"];

const COUNTERS: &[u64] = &[0, 1, 252, 253, 254, 0xffff, 0x1_0000, 0x1ff_ffff, 0x200_0000, 0x200_0001, 0xffff_ffff, 0x1_0000_0000, 1 << 40];

fn fill32(sm: &mut SplitMix) -> [u8; 32] {
    let mut b = [0u8; 32];
    sm.fill(&mut b);
    b
}

/// Leaf at position `i` (stamp 0) or a fresh leaf appended at step `stamp` > 0 of a sequence.
/// `total` = the largest leaf count the run can reach (only "extreme" depends on it).
pub fn leaf(profile: &str, i: u64, stamp: u64, total: u64) -> RNode {
    let mut sm = SplitMix(0xC20 ^ (i << 20) ^ (stamp << 50) ^ profile.len() as u64 ^ ((profile.as_bytes()[1] as u64) << 8));
    let c = |off: u64| COUNTERS[((i + off + 5 * stamp) % COUNTERS.len() as u64) as usize];
    let mut n = RNode::default();
    // "generic" leaves: start and end fields differ, so a start/end mix-up in a parent is visible
    n.commitment = fill32(&mut sm);
    n.start_sapling_root = fill32(&mut sm);
    n.end_sapling_root = fill32(&mut sm);
    n.start_orchard_root = fill32(&mut sm);
    n.end_orchard_root = fill32(&mut sm);
    n.start_ironwood_root = fill32(&mut sm);
    n.end_ironwood_root = fill32(&mut sm);
    n.start_time = sm.next() as u32;
    n.end_time = sm.next() as u32;
    n.start_target = sm.next() as u32;
    n.end_target = sm.next() as u32;
    let base: u64;
    match profile {
        "plain" => {
            // ZIP 221 style leaf: one block, start == end everywhere
            n.branch = 0xc2d6_d0b4;
            base = 1;
            n.end_sapling_root = n.start_sapling_root;
            n.end_orchard_root = n.start_orchard_root;
            n.end_ironwood_root = n.start_ironwood_root;
            n.start_time = 1_600_000_000 + 75 * i as u32 + stamp as u32;
            n.end_time = n.start_time;
            n.start_target = 0x1c00_ab03 ^ (i as u32 & 0xff);
            n.end_target = n.start_target;
            n.work = [0x1_0000 + i + stamp, 0, 0, 0];
            n.sapling_tx = i % 5;
            n.orchard_tx = (i + 1) % 3;
            n.ironwood_tx = (i + stamp) % 2;
        }
        "cs253" => {
            n.branch = 1;
            base = 250;
            n.work = [u64::MAX - (i % 3), if i % 4 == 0 { u64::MAX } else { 0 }, 0, 0]; // limb carries
            n.sapling_tx = c(0);
            n.orchard_tx = c(3);
            n.ironwood_tx = c(7);
        }
        "cs-u16" => {
            n.branch = 0;
            base = 0xffff - 2;
            n.work = [i, u64::MAX, u64::MAX, (i % 2) * 0xffff]; // carry into the top limb
            n.sapling_tx = c(5);
            n.orchard_tx = c(9);
            n.ironwood_tx = c(1);
        }
        "cs-bound" => {
            n.branch = 0xf5b9_230b;
            base = 0x200_0000 - 2;
            n.work = [0, 0, 0, 1 + i];
            n.sapling_tx = if i == 0 { 0x200_0000 } else { (i % 2) as u64 };
            n.orchard_tx = if i == 1 { 0x200_0001 } else { 0 };
            n.ironwood_tx = if i == 0 { 0x1ff_ffff } else { 1 };
        }
        "cs-u32" => {
            n.branch = u32::MAX;
            base = 0xffff_ffff - 2;
            n.work = [sm.next(), sm.next(), sm.next(), sm.next() >> 12];
            n.sapling_tx = if i == 0 { 0xffff_fff0 } else { 8 };
            n.orchard_tx = if i % 2 == 0 { 0xffff_ffff } else { 1 };
            n.ironwood_tx = 0x1_0000_0000 + i;
            n.start_time = u32::MAX;
            n.end_target = u32::MAX;
        }
        "extreme" => {
            // the last reachable leaf has height u64::MAX; one leaf carries u64::MAX / nearly
            // U256::MAX while the sums stay (just) representable
            n.branch = 0x8000_0001;
            base = u64::MAX - (total - 1);
            n.work = if i == 1 && stamp == 0 { [u64::MAX - (1 << 32), u64::MAX, u64::MAX, u64::MAX] } else { [i + stamp, 0, 0, 0] };
            n.sapling_tx = if i == 2 && stamp == 0 { u64::MAX } else { 0 };
            n.orchard_tx = if i == 0 { u64::MAX - 4096 } else { 1 };
            n.ironwood_tx = if i == 3 && stamp == 0 { u64::MAX - 1 } else { (i == 4 && stamp == 0) as u64 };
            n.end_time = 0;
            n.start_target = 0;
        }
        "zero" => {
            // nothing but the height distinguishes the leaves
            n = RNode::default();
            base = 0;
            n.commitment[0] = stamp as u8;
        }
        _ => panic!("unknown profile {profile}"),
    }
    n.start_height = base + i;
    n.end_height = base + i;
    n
}
