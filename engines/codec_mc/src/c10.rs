//! C10 — address strings: parsing and encoding are inverse and enforce ZIP 316.
//!
//! Three exhaustive sweeps, all driving the real code in /repo:
//!
//! 1. Unified containers. Every typecode sequence of length 0..=4 over the typecode alphabet
//!    (one symbol per arm of `Typecode::try_from` plus the CompactSize width boundaries) x every
//!    combination of item-length variants {correct, -1, +1, 0} for the known typecodes x container
//!    {Address, Ufvk, Uivk} x 3 networks x padding {right, other network's HRP, one bit off (2 places)},
//!    rendered to a string by an independent encoder (`refenc`: own CompactSize, own F4Jumble from the
//!    ZIP 316 text, own Bech32m). Oracle: the ZIP 316 well-formedness predicate written from the spec.
//!    Plus: encoding deviations (non-canonical CompactSize, declared length != carried bytes, trailing
//!    bytes), an unknown-item length lattice, the F4Jumble / Bech32 size limits, and the constructor
//!    `try_from_items` on every sequence.
//! 2. F4Jumble: every length in a range plus the domain edges x 5 message patterns against the
//!    independent implementation, both compositions, all four entry points.
//! 3. Strings: for every address kind x network a seed; every single-character substitution, every
//!    truncation, wrong checksum variant, wrong prefix, whitespace, case, non-canonical Bech32 padding;
//!    driven through `ZcashAddress`, `zcash_keys::address::Address` and the `AddressCodec` impls.

use mc_core::{catch, Args, Run, SplitMix, Tier};
use rayon::prelude::*;
use serde_json::{json, Value};
use std::collections::BTreeMap;
use zcash_address::unified::{self, Container, Encoding, Item};
use zcash_protocol::consensus::NetworkType;

mod refenc;
mod strings;

use refenc::Variant;

// ---------------------------------------------------------------------------------------------
// Tables written from ZIP 316 (not taken from the code under test)
// ---------------------------------------------------------------------------------------------

pub const KINDS: [&str; 3] = ["address", "ufvk", "uivk"];
pub const NETS: [&str; 3] = ["main", "test", "regtest"];
const HRPS: [[&str; 3]; 3] = [["u", "utest", "uregtest"], ["uview", "uviewtest", "uviewregtest"], ["uivk", "uivktest", "uivkregtest"]];
const MAX_TYPECODE: u64 = 0x0200_0000;

pub fn hrp(kind: usize, net: usize) -> &'static str {
    HRPS[kind][net]
}
pub fn net_type(net: usize) -> NetworkType {
    [NetworkType::Main, NetworkType::Test, NetworkType::Regtest][net]
}

/// `Some(Some(n))`: known typecode whose item is exactly n bytes in this container;
/// `Some(None)`: known typecode that must not occur in this container (P2SH in a viewing key);
/// `None`: not a known typecode.
fn known_len(kind: usize, tc: u64) -> Option<Option<usize>> {
    match (kind, tc) {
        (0, 0) | (0, 1) => Some(Some(20)),
        (0, 2) | (0, 3) => Some(Some(43)),
        (1, 0) | (2, 0) => Some(Some(65)),
        (1, 1) | (2, 1) => Some(None),
        (1, 2) => Some(Some(128)),
        (1, 3) => Some(Some(96)),
        (2, 2) | (2, 3) => Some(Some(64)),
        _ => None,
    }
}

/// Length carried by an unknown item in the main sweep (a function of the typecode, so that the
/// CompactSize width boundaries of the *length* field are hit without another product dimension).
fn unknown_default_len(tc: u64) -> usize {
    match tc {
        4 => 32,
        0xfc => 252,
        0xfd => 2,
        0xffff => 0,
        0x10000 => 7,
        0x0200_0000 => 253,
        _ => 1,
    }
}

// ---------------------------------------------------------------------------------------------
// Container cases
// ---------------------------------------------------------------------------------------------

#[derive(Clone, Debug, PartialEq, Eq)]
pub struct ItemSpec {
    pub tc: u64,
    /// bytes carried
    pub len: usize,
    /// length declared in the CompactSize field (== len unless the case is a deviation)
    pub declared: u64,
    /// CompactSize width used for the typecode / length (0 = canonical)
    pub tc_w: usize,
    pub len_w: usize,
}

impl ItemSpec {
    pub fn plain(tc: u64, len: usize) -> ItemSpec {
        ItemSpec { tc, len, declared: len as u64, tc_w: 0, len_w: 0 }
    }
    fn data(&self, idx: usize) -> Vec<u8> {
        (0..self.len).map(|k| ((k * 7 + idx * 59 + (self.tc as usize % 251) * 13 + 1) % 255 + 1) as u8).collect()
    }
    fn raw(&self, idx: usize) -> Option<Vec<u8>> {
        let mut o = if self.tc_w == 0 { refenc::compact_size(self.tc) } else { refenc::compact_size_width(self.tc, self.tc_w)? };
        o.extend(if self.len_w == 0 { refenc::compact_size(self.declared) } else { refenc::compact_size_width(self.declared, self.len_w)? });
        o.extend(self.data(idx));
        Some(o)
    }
    fn deviates(&self) -> bool {
        self.declared != self.len as u64
            || (self.tc_w != 0 && self.tc_w != refenc::compact_size(self.tc).len())
            || (self.len_w != 0 && self.len_w != refenc::compact_size(self.declared).len())
    }
}

#[derive(Clone, Debug)]
pub struct Spec {
    pub kind: usize,
    pub net: usize,
    /// 0 right; 1 padding of another network's HRP; 2 last padding bit flipped; 3 first bit after the HRP flipped
    pub pad: usize,
    pub items: Vec<ItemSpec>,
    /// bytes appended after the last item (before the padding)
    pub trailing: Vec<u8>,
}

impl Spec {
    fn to_json(&self) -> Value {
        json!({
            "kind": KINDS[self.kind], "net": NETS[self.net], "pad": self.pad,
            "items": self.items.iter().map(|i| json!([i.tc, i.len, i.declared, i.tc_w, i.len_w])).collect::<Vec<_>>(),
            "trailing": hex::encode(&self.trailing),
        })
    }
    fn from_json(v: &Value) -> Result<Spec, String> {
        let pos = |arr: &[&str], s: &Value| arr.iter().position(|x| Some(*x) == s.as_str()).ok_or_else(|| format!("bad field {s}"));
        let items = v["items"]
            .as_array()
            .ok_or("items")?
            .iter()
            .map(|i| {
                let g = |k: usize| i[k].as_u64().ok_or_else(|| "bad item".to_string());
                Ok(ItemSpec { tc: g(0)?, len: g(1)? as usize, declared: g(2)?, tc_w: g(3)? as usize, len_w: g(4)? as usize })
            })
            .collect::<Result<Vec<_>, String>>()?;
        Ok(Spec {
            kind: pos(&KINDS, &v["kind"])?,
            net: pos(&NETS, &v["net"])?,
            pad: v["pad"].as_u64().ok_or("pad")? as usize,
            items,
            trailing: hex::decode(v["trailing"].as_str().unwrap_or("")).map_err(|e| e.to_string())?,
        })
    }
    fn key(&self) -> String {
        let items: Vec<String> = self
            .items
            .iter()
            .map(|i| {
                let mut s = format!("{:#x}/{}", i.tc, i.len);
                if i.deviates() {
                    s.push_str(&format!("(decl{},w{}:{})", i.declared, i.tc_w, i.len_w));
                }
                s
            })
            .collect();
        let tr = if self.trailing.is_empty() { String::new() } else { format!("+{}", hex::encode(&self.trailing)) };
        format!("container:{}:{}:pad{}:[{}]{}", KINDS[self.kind], NETS[self.net], self.pad, items.join(","), tr)
    }

    fn padding(&self) -> [u8; 16] {
        let mut p = [0u8; 16];
        let h = hrp(self.kind, if self.pad == 1 { (self.net + 1) % 3 } else { self.net }).as_bytes();
        p[..h.len()].copy_from_slice(h);
        match self.pad {
            2 => p[15] ^= 1,
            3 => p[h.len()] ^= 0x80,
            _ => {}
        }
        p
    }

    /// The raw (un-jumbled) encoding, or None when a requested CompactSize width cannot hold a value.
    fn raw(&self) -> Option<Vec<u8>> {
        let mut raw = Vec::new();
        for (i, it) in self.items.iter().enumerate() {
            raw.extend(it.raw(i)?);
        }
        raw.extend(&self.trailing);
        raw.extend(self.padding());
        Some(raw)
    }

    /// Independent string encoding. Outside the F4Jumble domain the bytes are left un-jumbled (no
    /// valid encoding exists; the parser must refuse whatever it is given).
    fn encode(&self) -> Option<String> {
        let raw = self.raw()?;
        let j = refenc::f4jumble(&raw).unwrap_or(raw);
        Some(refenc::bech32_encode(hrp(self.kind, self.net), &j, Variant::Bech32m))
    }
}

#[derive(Clone, Copy, Debug, PartialEq, Eq)]
pub enum Expect {
    Accept,
    Reject(&'static str),
    /// ZIP 316 / the documentation do not settle it; only the accepted-implies clauses are checked.
    Either(&'static str),
}

/// ZIP 316 well-formedness, written from the specification.
pub fn expect(spec: &Spec) -> Expect {
    let raw_len = match spec.raw() {
        Some(r) => r.len(),
        None => return Expect::Reject("unencodable"),
    };
    if !(refenc::F4_MIN..=refenc::F4_MAX).contains(&raw_len) {
        return Expect::Reject("f4jumble-length");
    }
    if spec.pad != 0 {
        return Expect::Reject("padding");
    }
    if !spec.trailing.is_empty() {
        return Expect::Reject("trailing-bytes");
    }
    if spec.items.iter().any(|i| i.deviates()) {
        return Expect::Reject("item-encoding");
    }
    if spec.items.iter().any(|i| i.tc > MAX_TYPECODE) {
        return Expect::Reject("typecode-range");
    }
    for i in &spec.items {
        match known_len(spec.kind, i.tc) {
            Some(None) => return Expect::Reject("p2sh-in-viewing-key"),
            Some(Some(n)) if n != i.len => return Expect::Reject("item-length"),
            _ => {}
        }
    }
    if spec.items.windows(2).any(|w| w[0].tc == w[1].tc) {
        return Expect::Reject("duplicate-typecode");
    }
    if spec.items.windows(2).any(|w| w[0].tc > w[1].tc) {
        return Expect::Reject("typecode-order");
    }
    let has = |tc: u64| spec.items.iter().any(|i| i.tc == tc);
    if has(0) && has(1) {
        return Expect::Reject("p2pkh-and-p2sh");
    }
    if spec.items.iter().all(|i| i.tc <= 1) {
        return Expect::Reject("only-transparent"); // includes the empty container
    }
    if !(has(2) || has(3)) {
        // Only unknown items besides transparent ones. ZIP 316 asks for a shielded item; the crate
        // documents that it counts unknown typecodes as non-transparent. Either reading is allowed.
        return Expect::Either("only-unknown-nontransparent");
    }
    Expect::Accept
}

fn unified_err_class(e: &unified::ParseError) -> &'static str {
    match e {
        unified::ParseError::BothP2phkAndP2sh => "both",
        unified::ParseError::DuplicateTypecode(_) => "duplicate",
        unified::ParseError::InvalidTypecodeValue(_) => "typecode-value",
        unified::ParseError::InvalidEncoding(_) => "invalid-encoding",
        unified::ParseError::InvalidTypecodeOrder => "order",
        unified::ParseError::OnlyTransparent => "only-transparent",
        unified::ParseError::NotUnified => "not-unified",
        unified::ParseError::UnknownPrefix(_) => "unknown-prefix",
    }
}

struct Decoded {
    net: NetworkType,
    items: Vec<Vec<u8>>,
    reencoded: String,
    reconstructed_equal: bool,
}

fn decode_as<C: Encoding + Container + PartialEq>(s: &str) -> Result<Decoded, unified::ParseError> {
    let (net, c) = C::decode(s)?;
    let items = c.items_as_parsed().iter().map(|i| i.typed_encoding()).collect();
    let reencoded = c.encode(&net);
    // documented: a container can be rebuilt from its items (any order)
    let reconstructed_equal = matches!(C::try_from_items(c.items()), Ok(c2) if c2 == c);
    Ok(Decoded { net, items, reencoded, reconstructed_equal })
}

fn decode_kind(kind: usize, s: &str) -> Result<Decoded, unified::ParseError> {
    match kind {
        0 => decode_as::<unified::Address>(s),
        1 => decode_as::<unified::Ufvk>(s),
        _ => decode_as::<unified::Uivk>(s),
    }
}

/// One container case against the real decoder. Ok(outcome class) or Err(violation).
pub fn check_container(spec: &Spec) -> Result<String, String> {
    let exp = expect(spec);
    let s = match spec.encode() {
        Some(s) => s,
        None => return Ok("skipped:unencodable".into()),
    };
    let got = catch(|| decode_kind(spec.kind, &s)).map_err(|p| format!("decode panicked: {p}"))?;
    let outcome = match (&got, exp) {
        (Ok(_), Expect::Reject(why)) => return Err(format!("accepted a container ZIP 316 forbids ({why}): {}", short(&s))),
        (Err(e), Expect::Accept) => return Err(format!("rejected a well-formed container with {e:?}: {}", short(&s))),
        (Err(e), Expect::Reject(why)) => format!("reject:{why}:{}", unified_err_class(e)),
        (Err(e), Expect::Either(why)) => format!("either-rejected:{why}:{}", unified_err_class(e)),
        (Ok(d), _) => {
            if d.net != net_type(spec.net) {
                return Err(format!("decoded network {:?} differs from the HRP's network {}", d.net, NETS[spec.net]));
            }
            let want: Vec<Vec<u8>> = spec.items.iter().enumerate().map(|(i, it)| it.raw(i).unwrap()).collect();
            if d.items != want {
                return Err(format!("items not preserved: decoded {} items {:?}", d.items.len(), d.items.iter().map(hex::encode).collect::<Vec<_>>()));
            }
            if d.reencoded != s {
                return Err(format!("encode(decode(s)) != s: {} vs {}", short(&d.reencoded), short(&s)));
            }
            if !d.reconstructed_equal {
                return Err("try_from_items(items()) does not rebuild the decoded container".into());
            }
            if exp == Expect::Accept { "accept".to_string() } else { "either-accepted".to_string() }
        }
    };
    // The general address parser must agree for unified addresses.
    if spec.kind == 0 {
        let z = catch(|| zcash_address::ZcashAddress::try_from_encoded(&s)).map_err(|p| format!("ZcashAddress parse panicked: {p}"))?;
        match (&z, got.is_ok()) {
            (Ok(z), true) => {
                let e = catch(|| z.encode()).map_err(|p| format!("ZcashAddress encode panicked: {p}"))?;
                if e != s {
                    return Err("ZcashAddress re-encodes the unified address differently".into());
                }
            }
            (Err(_), false) => {}
            _ => return Err(format!("ZcashAddress::try_from_encoded ({:?}) disagrees with unified::Address::decode ({})", z.as_ref().err(), got.is_ok())),
        }
    }
    Ok(outcome)
}

fn short(s: &str) -> String {
    if s.len() <= 160 {
        s.to_string()
    } else {
        format!("{}…{} ({} chars)", &s[..60], &s[s.len() - 20..], s.len())
    }
}

/// `try_from_items` on an arbitrary-order item list: Ok iff the multiset is well-formed; the result
/// encodes to the independent encoding of the sorted items and decodes back.
pub fn check_ctor(kind: usize, tcs: &[u64], net: usize) -> Result<String, String> {
    let specs: Vec<ItemSpec> = tcs.iter().map(|&tc| ItemSpec::plain(tc, known_len(kind, tc).map(|l| l.unwrap_or(20)).unwrap_or(unknown_default_len(tc)))).collect();
    check_ctor_items(kind, &specs, net)
}

/// Same, with explicit item lengths (which must be the correct ones for known typecodes).
pub fn check_ctor_items(kind: usize, specs: &[ItemSpec], net: usize) -> Result<String, String> {
    // build typed items; P2SH cannot be expressed in viewing keys, typecodes above the range are not values
    fn arr<const N: usize>(d: &[u8]) -> [u8; N] {
        d.try_into().unwrap()
    }
    let mut sorted: Vec<(usize, &ItemSpec)> = specs.iter().enumerate().collect();
    sorted.sort_by_key(|(_, i)| i.tc); // stable: equal typecodes keep input order (all such cases are rejected)
    let canon = Spec { kind, net, pad: 0, items: vec![], trailing: vec![] };
    let mut raw = Vec::new();
    for (orig, it) in &sorted {
        raw.extend(it.raw(*orig).unwrap());
    }
    raw.extend(canon.padding());
    let exp = {
        let s = Spec { items: sorted.iter().map(|(_, i)| (*i).clone()).collect(), ..canon.clone() };
        // expectation of the sorted sequence, with the F4Jumble length of the actual raw bytes
        match expect(&s) {
            Expect::Reject("f4jumble-length") => Expect::Either("no-encoding-exists"),
            e => e,
        }
    };
    let r = catch(|| -> Result<Option<(String, bool)>, unified::ParseError> {
        macro_rules! go {
            ($C:ty, $mk:expr) => {{
                let items: Vec<_> = specs.iter().enumerate().map(|(i, it)| $mk(it, it.data(i))).collect();
                let c = <$C>::try_from_items(items)?;
                if !(refenc::F4_MIN..=refenc::F4_MAX).contains(&raw.len()) {
                    return Ok(None); // no ZIP 316 string exists for this value (F4Jumble is undefined); not encoded here
                }
                let s = c.encode(&net_type(net));
                let back = matches!(<$C>::decode(&s), Ok((n, c2)) if n == net_type(net) && c2 == c);
                Ok(Some((s, back)))
            }};
        }
        match kind {
            0 => go!(unified::Address, |it: &ItemSpec, d: Vec<u8>| match it.tc {
                0 => unified::Receiver::P2pkh(arr(&d)),
                1 => unified::Receiver::P2sh(arr(&d)),
                2 => unified::Receiver::Sapling(arr(&d)),
                3 => unified::Receiver::Orchard(arr(&d)),
                t => unified::Receiver::Unknown { typecode: t as u32, data: d },
            }),
            1 => go!(unified::Ufvk, |it: &ItemSpec, d: Vec<u8>| match it.tc {
                0 => unified::Fvk::P2pkh(arr(&d)),
                2 => unified::Fvk::Sapling(arr(&d)),
                3 => unified::Fvk::Orchard(arr(&d)),
                t => unified::Fvk::Unknown { typecode: t as u32, data: d },
            }),
            _ => go!(unified::Uivk, |it: &ItemSpec, d: Vec<u8>| match it.tc {
                0 => unified::Ivk::P2pkh(arr(&d)),
                2 => unified::Ivk::Sapling(arr(&d)),
                3 => unified::Ivk::Orchard(arr(&d)),
                t => unified::Ivk::Unknown { typecode: t as u32, data: d },
            }),
        }
    })
    .map_err(|p| format!("try_from_items/encode panicked: {p}"))?;
    match (r, exp) {
        (Ok(_), Expect::Reject(why)) => Err(format!("try_from_items accepted an ill-formed item set ({why})")),
        (Err(e), Expect::Accept) => Err(format!("try_from_items refused a well-formed item set: {e:?}")),
        (Err(e), _) => Ok(format!("ctor-reject:{}", unified_err_class(&e))),
        (Ok(None), _) => Ok("ctor-accept:no-encoding-exists".into()),
        (Ok(Some((s, back))), _) => {
            let want = refenc::bech32_encode(hrp(kind, net), &refenc::f4jumble(&raw).ok_or("reference jumble failed")?, Variant::Bech32m);
            if s != want {
                return Err(format!("encode() differs from the independent encoding of the sorted items: {} vs {}", short(&s), short(&want)));
            }
            if !back {
                return Err("decode(encode(c)) != c".into());
            }
            Ok("ctor-accept".into())
        }
    }
}

// ---------------------------------------------------------------------------------------------
// F4Jumble
// ---------------------------------------------------------------------------------------------

pub const PATTERNS: usize = 5;

fn pattern(p: usize, len: usize) -> Vec<u8> {
    match p {
        0 => vec![0u8; len],
        1 => vec![0xffu8; len],
        2 => (0..len).map(|i| (i % 251) as u8).collect(),
        3 => {
            let mut v = vec![0u8; len];
            SplitMix(len as u64 ^ 0xC10).fill(&mut v);
            v
        }
        _ => {
            let mut v = vec![0u8; len];
            if len > 0 {
                v[len - 1] = 1;
                v[0] ^= 0x80;
            }
            v
        }
    }
}

pub fn check_f4(len: usize, p: usize) -> Result<&'static str, String> {
    let m = pattern(p, len);
    let valid = (refenc::F4_MIN..=refenc::F4_MAX).contains(&len);
    let r = catch(|| -> Result<&'static str, String> {
        let fwd = f4jumble::f4jumble(&m);
        let inv = f4jumble::f4jumble_inv(&m);
        let mut a = m.clone();
        let fwd_mut = f4jumble::f4jumble_mut(&mut a);
        let mut b = m.clone();
        let inv_mut = f4jumble::f4jumble_inv_mut(&mut b);
        if !valid {
            if fwd.is_ok() || inv.is_ok() || fwd_mut.is_ok() || inv_mut.is_ok() {
                return Err(format!("length {len} is outside 48..=4194368 but was not refused"));
            }
            if a != m || b != m {
                return Err(format!("length {len}: the in-place variant modified the message although it failed"));
            }
            return Ok("invalid-length-refused");
        }
        let (fwd, inv) = match (fwd, inv, fwd_mut, inv_mut) {
            (Ok(f), Ok(i), Ok(()), Ok(())) => (f, i),
            _ => return Err(format!("valid length {len} refused")),
        };
        if fwd.len() != len || inv.len() != len {
            return Err(format!("length {len} not preserved"));
        }
        if a != fwd || b != inv {
            return Err(format!("length {len}: in-place and allocating variants differ"));
        }
        let rf = refenc::f4jumble(&m).ok_or("reference refused a valid length")?;
        if fwd != rf {
            return Err(format!("length {len}, pattern {p}: f4jumble differs from the ZIP 316 definition (first difference at byte {})", first_diff(&fwd, &rf)));
        }
        let ri = refenc::f4jumble_inv(&m).ok_or("reference refused a valid length")?;
        if inv != ri {
            return Err(format!("length {len}, pattern {p}: f4jumble_inv differs from the ZIP 316 definition (first difference at byte {})", first_diff(&inv, &ri)));
        }
        match f4jumble::f4jumble_inv(&fwd) {
            Ok(x) if x == m => {}
            _ => return Err(format!("length {len}, pattern {p}: inv(f(m)) != m")),
        }
        match f4jumble::f4jumble(&inv) {
            Ok(x) if x == m => {}
            _ => return Err(format!("length {len}, pattern {p}: f(inv(m)) != m")),
        }
        if len >= 64 && fwd == m {
            return Err(format!("length {len}: the transform is the identity on pattern {p}"));
        }
        Ok("bijection-ok")
    });
    match r {
        Ok(x) => x,
        Err(p) => Err(format!("panic: {p}")),
    }
}

fn first_diff(a: &[u8], b: &[u8]) -> usize {
    a.iter().zip(b).position(|(x, y)| x != y).unwrap_or(a.len().min(b.len()))
}

// ---------------------------------------------------------------------------------------------
// Self-test of the independent encoders (machinery, not a verdict)
// ---------------------------------------------------------------------------------------------

fn self_test(run: &Run) {
    // ZIP 316 / f4jumble crate documentation vector
    let j = refenc::f4jumble(b"The package from Alice arrives tomorrow morning.").map(hex::encode);
    run.require(
        j.as_deref() == Some("861c51ee746b0313476967a3483e7e1ff77a2952a17d3ed9e0ab0f502e1179430322da9967b613545b1c36353046ca27"),
        "reference F4Jumble does not reproduce the published vector",
    );
    // BIP 173 / BIP 350 vectors via the bech32 crate's plain checksums
    for (d, v) in [(&[0u8, 1, 2, 250, 255][..], Variant::Bech32), (&[7u8; 43][..], Variant::Bech32m), (&[][..], Variant::Bech32m)] {
        let mine = refenc::bech32_encode("zs", d, v);
        let theirs = match v {
            Variant::Bech32 => bech32::encode::<bech32::Bech32>(bech32::Hrp::parse_unchecked("zs"), d),
            Variant::Bech32m => bech32::encode::<bech32::Bech32m>(bech32::Hrp::parse_unchecked("zs"), d),
        };
        run.require(Ok(mine) == theirs.map_err(|_| ()), "reference Bech32 encoder disagrees with the bech32 crate");
    }
    let b = refenc::base58check(&[0x1c, 0xb8, 1, 2, 3, 4, 5, 6, 7, 8, 9, 10, 11, 12, 13, 14, 15, 16, 17, 18, 19, 20]);
    let t = bs58::encode([0x1c, 0xb8, 1, 2, 3, 4, 5, 6, 7, 8, 9, 10, 11, 12, 13, 14, 15, 16, 17, 18, 19, 20]).with_check().into_string();
    run.require(b == t, "reference Base58Check encoder disagrees with bs58");
}

// ---------------------------------------------------------------------------------------------
// Enumeration
// ---------------------------------------------------------------------------------------------

fn sequences(alpha: &[u64], maxlen: usize) -> Vec<Vec<u64>> {
    let mut all: Vec<Vec<u64>> = vec![vec![]];
    let mut level: Vec<Vec<u64>> = vec![vec![]];
    for _ in 0..maxlen {
        let mut next = Vec::with_capacity(level.len() * alpha.len());
        for s in &level {
            for &x in alpha {
                let mut t = s.clone();
                t.push(x);
                next.push(t);
            }
        }
        all.extend(next.iter().cloned());
        level = next;
    }
    all
}

fn len_variants(kind: usize, tc: u64) -> Vec<usize> {
    match known_len(kind, tc) {
        Some(l) => {
            let n = l.unwrap_or(20);
            vec![n, n - 1, n + 1, 0]
        }
        None => vec![unknown_default_len(tc)],
    }
}

struct Local {
    n: u64,
    outcomes: BTreeMap<String, u64>,
}
impl Local {
    fn new() -> Local {
        Local { n: 0, outcomes: BTreeMap::new() }
    }
    fn flush(self, run: &Run) {
        run.eval_distinct(self.n);
        for (k, v) in self.outcomes {
            run.outcome_n(&k, v);
        }
    }
    fn container(&mut self, run: &Run, spec: &Spec) {
        self.n += 1;
        match check_container(spec) {
            Ok(o) => *self.outcomes.entry(format!("container:{o}")).or_insert(0) += 1,
            Err(m) => run.fail("container", spec.key(), m, spec.to_json()),
        }
    }
}

/// `lens`: sequence lengths swept; `full_pad_upto`: sequences up to this length get all 4 padding variants
/// unconditionally, longer ones get the 3 wrong paddings only where the container is otherwise well-formed.
fn sweep_containers(run: &Run, label: &str, alpha: &[u64], lens: std::ops::RangeInclusive<usize>, full_pad_upto: usize) {
    let maxlen = *lens.end();
    let seqs: Vec<Vec<u64>> = sequences(alpha, maxlen).into_iter().filter(|s| lens.contains(&s.len())).collect();
    run.section(&format!("typecode_alphabet_{label}"), json!(alpha.iter().map(|t| format!("{t:#x}")).collect::<Vec<_>>()));
    run.section(&format!("typecode_sequences_{label}"), json!({"lengths": format!("{lens:?}"), "count": seqs.len(), "all_paddings_up_to_length": full_pad_upto}));
    // one pass per sequence length, shortest first, so that the recorded counterexamples are the shortest ones
    for len in lens.clone() {
      let level: Vec<&Vec<u64>> = seqs.iter().filter(|s| s.len() == len).collect();
      level.par_iter().for_each(|seq| {
        let seq: &Vec<u64> = seq;
        let mut loc = Local::new();
        for kind in 0..3 {
            let opts: Vec<Vec<usize>> = seq.iter().map(|&tc| len_variants(kind, tc)).collect();
            let total: usize = opts.iter().map(|o| o.len()).product();
            for mut code in 0..total {
                let mut items = Vec::with_capacity(seq.len());
                for (i, &tc) in seq.iter().enumerate() {
                    let o = &opts[i];
                    items.push(ItemSpec::plain(tc, o[code % o.len()]));
                    code /= o.len();
                }
                for net in 0..3 {
                    let right = Spec { kind, net, pad: 0, items: items.clone(), trailing: vec![] };
                    // Quick tier, length-4 sequences only: the three wrong paddings are applied where the
                    // container is otherwise well-formed (elsewhere it is refused for another reason too).
                    let all_pads = seq.len() <= full_pad_upto || !matches!(expect(&right), Expect::Reject(_));
                    loc.container(run, &right);
                    if all_pads {
                        for pad in 1..4 {
                            loc.container(run, &Spec { pad, ..right.clone() });
                        }
                    }
                }
            }
            // constructor on the same sequence (correct lengths only; P2SH is not a viewing-key item and
            // typecodes above the range are not values of the item types)
            if seq.iter().all(|&tc| tc <= MAX_TYPECODE && !(kind > 0 && tc == 1)) {
                for net in 0..3 {
                    loc.n += 1;
                    match check_ctor(kind, seq, net) {
                        Ok(o) => *loc.outcomes.entry(format!("ctor:{o}")).or_insert(0) += 1,
                        Err(m) => run.fail(
                            "ctor",
                            format!("ctor:{}:{}:{:?}", KINDS[kind], NETS[net], seq),
                            m,
                            json!({"kind": KINDS[kind], "net": NETS[net], "tcs": seq}),
                        ),
                    }
                }
            }
        }
        loc.flush(run);
      });
    }
}

/// Encoding deviations on otherwise well-formed containers: every item position x {non-canonical
/// CompactSize widths for typecode and length, declared length off by one / huge on the last item},
/// and trailing partial items.
fn sweep_deviations(run: &Run, alpha: &[u64]) {
    let bases: Vec<Vec<u64>> = sequences(alpha, 3).into_iter().filter(|s| !s.is_empty()).collect();
    bases.par_iter().for_each(|seq| {
        let mut loc = Local::new();
        for kind in 0..3 {
            let base: Vec<ItemSpec> = seq.iter().map(|&tc| ItemSpec::plain(tc, len_variants(kind, tc)[0])).collect();
            let base_spec = Spec { kind, net: 0, pad: 0, items: base.clone(), trailing: vec![] };
            if !matches!(expect(&base_spec), Expect::Accept | Expect::Either(_)) {
                continue;
            }
            for net in 0..3 {
                for pos in 0..base.len() {
                    for w in [1usize, 3, 5, 9] {
                        for field in 0..2 {
                            let mut items = base.clone();
                            if field == 0 {
                                items[pos].tc_w = w;
                            } else {
                                items[pos].len_w = w;
                            }
                            let spec = Spec { kind, net, pad: 0, items, trailing: vec![] };
                            if spec.items[pos].deviates() && spec.raw().is_some() {
                                loc.container(run, &spec);
                            }
                        }
                    }
                }
                let last = base.len() - 1;
                let l = base[last].len as u64;
                let mut decls = vec![l + 1, l.wrapping_sub(1), MAX_TYPECODE, MAX_TYPECODE + 1, u32::MAX as u64, u64::MAX - 15, u64::MAX];
                decls.sort();
                decls.dedup();
                for declared in decls {
                    let mut items = base.clone();
                    items[last].declared = declared;
                    loc.container(run, &Spec { kind, net, pad: 0, items, trailing: vec![] });
                }
                for trailing in [vec![0x02u8], vec![0x04], vec![0x04, 0x05, 0xaa], vec![0xfd], vec![0xfd, 0x00], vec![0xff; 9], vec![0xfe, 0x01, 0x00, 0x00, 0x02]] {
                    loc.container(run, &Spec { kind, net, pad: 0, items: base.clone(), trailing });
                }
            }
        }
        loc.flush(run);
    });
}

/// Unknown-item length lattice (CompactSize width boundaries of the length field, F4Jumble lower
/// bound) and the upper size limits (F4Jumble maximum, Bech32 code length).
fn sweep_sizes(run: &Run, tier: Tier) {
    let mut specs = Vec::new();
    let lens: Vec<usize> = vec![0, 1, 27, 28, 29, 30, 31, 32, 251, 252, 253, 254, 65535, 65536, 65537];
    for kind in 0..3 {
        for net in 0..3 {
            for &l in &lens {
                for tc in [4u64, 0xffff, MAX_TYPECODE] {
                    if l == unknown_default_len(tc) {
                        continue; // already a case of the main sweep
                    }
                    // alone (raw length 18 + l crosses the F4Jumble minimum of 48 at l = 30) and after a Sapling item
                    specs.push(Spec { kind, net, pad: 0, items: vec![ItemSpec::plain(tc, l)], trailing: vec![] });
                    specs.push(Spec { kind, net, pad: 0, items: vec![ItemSpec::plain(2, len_variants(kind, 2)[0]), ItemSpec::plain(tc, l)], trailing: vec![] });
                }
            }
        }
    }
    // Upper limits, unified address on mainnet: Sapling (45 bytes) + unknown(4) with a 5-byte length field + padding.
    let over = |raw_total: usize| raw_total - 16 - 45 - 1 - 5;
    let mut big = vec![over(refenc::F4_MAX - 1), over(refenc::F4_MAX), over(refenc::F4_MAX + 1)];
    // the Bech32 string of n raw bytes has 1 + 1 + ceil(8n/5) + 6 characters for HRP "u"; 4194368 characters is
    // the other constant in the code (Bech32mZip316::CODE_LENGTH)
    let n_at_code_len = (4_194_368usize - 8) * 5 / 8;
    big.extend([over(n_at_code_len - 1), over(n_at_code_len), over(n_at_code_len + 1), over(n_at_code_len + 2)]);
    if tier == Tier::Thorough {
        big.extend([over(1 << 20), over(3 << 20)]);
    }
    for l in big {
        specs.push(Spec { kind: 0, net: 0, pad: 0, items: vec![ItemSpec::plain(2, 43), ItemSpec::plain(4, l)], trailing: vec![] });
    }
    run.section("size_cases", json!(specs.len()));
    specs.par_iter().for_each(|spec| {
        let mut loc = Local::new();
        loc.container(run, spec);
        // the value-side of the same case: construct, encode, decode
        if spec.items.iter().all(|i| known_len(spec.kind, i.tc).map(|l| l == Some(i.len)).unwrap_or(i.tc <= MAX_TYPECODE)) {
            loc.n += 1;
            match check_ctor_items(spec.kind, &spec.items, spec.net) {
                Ok(o) => *loc.outcomes.entry(format!("ctor:{o}")).or_insert(0) += 1,
                Err(m) => run.fail("ctor-items", format!("ctor-{}", spec.key()), m, spec.to_json()),
            }
        }
        loc.flush(run);
    });
}

fn sweep_f4(run: &Run, tier: Tier) {
    let dense_to = tier.pick(2048usize, 32_768usize);
    let mut lens: Vec<usize> = (0..=dense_to).collect();
    // j's second personalisation byte becomes non-zero at l_R > 256*64; the domain edges
    lens.extend([16_447, 16_448, 16_449, 16_511, 16_512, 16_513, 65_535, 65_536, 65_537, 65_599, 65_600, 65_601]);
    lens.extend([refenc::F4_MAX - 64, refenc::F4_MAX - 1, refenc::F4_MAX, refenc::F4_MAX + 1, refenc::F4_MAX + 64]);
    if tier == Tier::Thorough {
        let mut p = 32_768usize;
        while p < refenc::F4_MAX {
            lens.extend([p - 1, p, p + 1, p + 63, p + 64, p + 65]);
            p *= 2;
        }
    }
    lens.sort();
    lens.dedup();
    run.section("f4jumble_lengths", json!({"dense": format!("0..={dense_to}"), "total": lens.len(), "patterns": PATTERNS}));
    let cases: Vec<(usize, usize)> = lens.iter().flat_map(|&l| (0..PATTERNS).map(move |p| (l, p))).collect();
    // longest first, one case per task: the multi-megabyte lengths dominate the cost
    let mut cases = cases;
    cases.sort_by(|a, b| b.0.cmp(&a.0));
    cases.par_iter().with_max_len(1).for_each(|&(len, p)| {
        let mut loc = Local::new();
        loc.n += 1;
        match check_f4(len, p) {
            Ok(o) => *loc.outcomes.entry(format!("f4:{o}")).or_insert(0) += 1,
            Err(m) => run.fail("f4", format!("f4:len{len}:pattern{p}"), m, json!({"len": len, "pattern": p})),
        }
        loc.flush(run);
    });
}

pub fn replay(kind: &str, case: &Value) -> Result<(), String> {
    match kind {
        "container" => check_container(&Spec::from_json(case)?).map(|_| ()),
        "ctor-items" => {
            let spec = Spec::from_json(case)?;
            check_ctor_items(spec.kind, &spec.items, spec.net).map(|_| ())
        }
        "ctor" => {
            let k = KINDS.iter().position(|x| Some(*x) == case["kind"].as_str()).ok_or("kind")?;
            let n = NETS.iter().position(|x| Some(*x) == case["net"].as_str()).ok_or("net")?;
            let tcs: Vec<u64> = case["tcs"].as_array().ok_or("tcs")?.iter().filter_map(|v| v.as_u64()).collect();
            check_ctor(k, &tcs, n).map(|_| ())
        }
        "f4" => check_f4(case["len"].as_u64().ok_or("len")? as usize, case["pattern"].as_u64().ok_or("pattern")? as usize).map(|_| ()),
        "string" => strings::check_string(case["s"].as_str().ok_or("s")?).map(|_| ()),
        "seed" => strings::check_seed(case["seed"].as_u64().ok_or("seed")? as usize).map(|_| ()),
        "typed-seed" => strings::check_typed_seed(case["seed"].as_u64().ok_or("seed")? as usize, case["net"].as_u64().ok_or("net")? as usize).map(|_| ()),
        "network" => strings::check_network(case["seed"].as_u64().ok_or("seed")? as usize, case["target"].as_u64().ok_or("target")? as usize).map(|_| ()),
        _ => Err(format!("unknown kind {kind}")),
    }
}

pub fn run(args: &Args) -> i32 {
    let run = Run::new(args, "exploration");
    run.set_rule(
        "containers: every typecode sequence of length 0..=4 over the typecode alphabet (8 symbols quick, 11 thorough) x every \
         combination of item-length variants {correct,-1,+1,0} of the known items x {Address,Ufvk,Uivk} x 3 networks x 4 padding \
         variants (quick tier: for length-4 sequences the 3 wrong paddings only where the container is otherwise well-formed; thorough \
         tier: additionally every length-5 sequence over the 8-symbol alphabet with that same padding reduction), plus every constructor call on \
         the same sequences, every single encoding deviation (CompactSize width, declared length, trailing bytes) of every well-formed \
         sequence of length <=3, an unknown-item length lattice and the size limits; F4Jumble: every listed length x 5 patterns; \
         strings: every listed mutation of every seed string. A case is distinct by its generating tuple (all tuples differ in the \
         string fed to the parser) and non-trivial because every one is a full decode of a checksummed string",
    );
    run.assume("ZIP 316 asks for at least one shielded item; the crate documents that unknown typecodes count as non-transparent. Containers whose only non-transparent items are unknown may be accepted or refused; if accepted the preservation and re-encoding clauses are checked");
    run.assume("item payloads are not validated by the container codec (only lengths), so payloads are arbitrary non-zero filler");
    run.assume("a container whose raw encoding is shorter than 48 or longer than 4194368 bytes has no ZIP 316 string; whatever is presented with such content must be refused");
    run.assume("canonical form of an accepted string = Unicode-trimmed, and for an all-upper-case Bech32 string its lower-case form (BIP 173); testnet/regtest share Base58 prefixes and such strings decode as testnet (documented)");
    run.assume("BLAKE2b (blake2b_simd), SHA-256 (sha2) are trusted; the independent Bech32/Base58Check encoders are cross-checked against the bech32 and bs58 crates at start-up");
    self_test(&run);

    let alpha: Vec<u64> = match args.tier {
        Tier::Quick => vec![0, 1, 2, 3, 4, 0xffff, MAX_TYPECODE, MAX_TYPECODE + 1],
        Tier::Thorough => vec![0, 1, 2, 3, 4, 0xfc, 0xfd, 0xffff, 0x10000, MAX_TYPECODE, MAX_TYPECODE + 1],
    };
    sweep_containers(&run, "main", &alpha, 0..=4, args.tier.pick(3, 4));
    if args.tier == Tier::Thorough {
        // one level deeper over the base alphabet
        sweep_containers(&run, "depth5", &[0, 1, 2, 3, 4, 0xffff, MAX_TYPECODE, MAX_TYPECODE + 1], 5..=5, 0);
    }
    run.section("t_containers_s", json!(run.elapsed()));
    sweep_deviations(&run, &[0, 1, 2, 3, 4, 0xffff, MAX_TYPECODE]);
    sweep_sizes(&run, args.tier);
    run.section("t_deviations_sizes_s", json!(run.elapsed()));
    sweep_f4(&run, args.tier);
    run.section("t_f4_s", json!(run.elapsed()));
    strings::sweep(&run, args.tier);

    // Observation only (no verdict): item values that are not well-formed ZIP 316 items can be built through the public
    // enum fields; the constructor documents three invariants and does not look at typecode range or payload length.
    let obs = catch(|| {
        let c = unified::Address::try_from_items(vec![unified::Receiver::Sapling([1; 43]), unified::Receiver::Unknown { typecode: 0x0200_0001, data: vec![7; 4] }]).ok()?;
        let s = c.encode(&NetworkType::Main);
        Some(unified::Address::decode(&s).is_ok())
    });
    run.section(
        "observation_unknown_item_with_out_of_range_typecode",
        json!({"input": "try_from_items([Sapling, Unknown{typecode: 0x02000001}]).encode()", "constructed_and_decodes_back": format!("{obs:?}"),
               "note": "Some(false): the constructor accepts it and encode() yields a string its own decoder refuses; such a typecode is not a ZIP 316 value, so the round-trip clause is not applied"}),
    );
    run.sample(json!({"container": "address/main [0x2/43, 0x0/20]", "expected": "reject (typecode order)"}));
    run.sample(json!({"container": "ufvk/test [0x1/20, 0x2/128]", "expected": "reject (P2SH in a viewing key)"}));
    run.sample(json!({"container": "address/main pad=other network [0x3/43]", "expected": "reject (padding)"}));
    run.sample(json!({"f4": "len 47", "expected": "all four entry points refuse; in-place buffers untouched"}));
    run.require(run.outcomes_distinct() >= 30 || run.failure_count() > 0, "fewer than 30 distinct outcome classes observed");
    run.finish(&replay)
}
