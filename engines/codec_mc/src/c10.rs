//! C10 — check not built yet.
use mc_core::Args;
use serde_json::Value;

pub fn replay(_kind: &str, _case: &Value) -> Result<(), String> {
    Err("C10: check not built".into())
}

pub fn run(_args: &Args) -> i32 {
    mc_core::machinery_error("C10: check not built")
}
