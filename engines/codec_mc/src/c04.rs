//! C04 — transaction ids and signature hashes commit to exactly the data they must.
//!
//! Oracle 1: `txid()`, `auth_commitment()` and every `signature_hash` (shielded; every transparent
//! input × the 6 valid hash types) equal an independent reference implementation
//! (`c04/reference.rs`: ZIP 244, its v6 variant, ZIP 143/243, SHA-256d for v1–v4), which is first
//! validated against the repository's published ZIP 143/243/244 vectors.
//! Oracle 2: a commitment matrix written from the ZIPs: for every field position of every lattice
//! transaction (and every spent coin), a single-field mutation must change exactly the digests
//! that are defined to cover that field, and no others.

pub mod real;
pub mod reference;

use crate::c03::gen::*;
use crate::c03::pool::{fill, fill32, pool};
use crate::c03::spec::*;
use mc_core::{Args, Run, Tier};
use rayon::prelude::*;
use reference::{Coin, Signing, VALID_HASH_TYPES};
use serde_json::{json, Value};
use std::collections::BTreeMap;

#[derive(Clone, Copy, Debug, PartialEq, Eq, Hash, PartialOrd, Ord)]
pub enum Class {
    /// lock_time, expiry_height
    Header,
    Branch,
    Prevout(usize),
    Sequence(usize),
    ScriptSig(usize),
    Output(usize),
    /// Sapling spend cv / nullifier / rk
    SapSpendEffect,
    SapAnchor,
    SapSpendProof,
    SapSpendSig,
    /// Sapling output cv / cmu / epk / enc_ciphertext / out_ciphertext
    SapOutEffect,
    SapOutProof,
    SapVb,
    SapBsig,
    /// Orchard / Ironwood action cv, nf, rk, cmx, epk, ciphertexts; flags; value balance
    OrchEffect,
    OrchAnchor,
    /// Orchard / Ironwood proof, spend-auth signatures, binding signature
    OrchAuth,
    CoinValue(usize),
    /// scriptPubKey of the coin spent by input j
    CoinScriptPubKey(usize),
    /// scriptCode supplied when signing input j
    CoinScriptCode(usize),
}

#[derive(Clone, Copy, Debug, PartialEq, Eq, Hash, PartialOrd, Ord)]
pub enum Dg {
    Txid,
    Auth,
    Sig(Signing),
}

/// The commitment matrix: must a single-field mutation of class `c` change digest `d`?
/// `vin`/`vout` are the transaction's transparent input/output counts.
pub fn must_change(ver: Ver, c: Class, d: Dg, vin: usize, vout: usize) -> bool {
    use Class::*;
    let v5 = ver.is_v5plus();
    let v6 = ver == Ver::V6;
    match d {
        Dg::Txid => {
            if !v5 {
                // SHA-256d of the whole encoding: everything that is encoded
                return !matches!(c, Branch | CoinValue(_) | CoinScriptPubKey(_) | CoinScriptCode(_));
            }
            match c {
                Header | Branch | Prevout(_) | Sequence(_) | Output(_) | SapSpendEffect | SapOutEffect | SapVb | OrchEffect => true,
                SapAnchor | OrchAnchor => !v6,
                ScriptSig(_) | SapSpendProof | SapSpendSig | SapOutProof | SapBsig | OrchAuth | CoinValue(_) | CoinScriptPubKey(_) | CoinScriptCode(_) => false,
            }
        }
        Dg::Auth => match c {
            Branch | ScriptSig(_) | SapSpendProof | SapSpendSig | SapOutProof | SapBsig | OrchAuth => true,
            SapAnchor | OrchAnchor => v6,
            _ => false,
        },
        Dg::Sig(signing) => {
            let (index, ht) = match signing {
                Signing::Shielded => (None, reference::SIGHASH_ALL),
                Signing::Transparent { index, hash_type } => (Some(index), hash_type),
            };
            let acp = ht & 0x80 != 0;
            let base = ht & 0x1f;
            let own = |i: usize| index == Some(i);
            match c {
                Header | Branch | SapSpendEffect | SapOutEffect | SapVb => true,
                OrchEffect => true,
                SapAnchor | OrchAnchor => !v6,
                // authorising data is never signed; except that ZIP 243 hashes the Sapling proofs
                ScriptSig(_) | SapSpendSig | SapBsig | OrchAuth => false,
                SapSpendProof | SapOutProof => !v5,
                Prevout(i) => !acp || own(i),
                Sequence(i) => {
                    if v5 {
                        // ZIP 244 S.2d: all sequences unless ANYONECANPAY; S.2g: the input's own
                        !acp || own(i)
                    } else {
                        // ZIP 143/243: hashSequence only for ALL without ANYONECANPAY
                        (!acp && base == reference::SIGHASH_ALL) || own(i)
                    }
                }
                Output(k) => {
                    if v5 && vin == 0 {
                        return true; // no transparent inputs: the txid transparent digest is used
                    }
                    match base {
                        reference::SIGHASH_NONE => index.is_none(),
                        reference::SIGHASH_SINGLE => index.map_or(true, |i| i == k && i < vout),
                        _ => true,
                    }
                }
                CoinValue(j) => {
                    if v5 {
                        // S.2b all amounts unless ANYONECANPAY; S.2g.ii the signed input's
                        vin > 0 && (!acp || own(j))
                    } else {
                        own(j) // ZIP 143/243 field 13c
                    }
                }
                // ZIP 244 S.2c all scriptPubKeys unless ANYONECANPAY, S.2g.iii the signed input's;
                // ZIP 143/243 never hash the scriptPubKey
                CoinScriptPubKey(j) => v5 && vin > 0 && (!acp || own(j)),
                // ZIP 143/243 field 13b: the scriptCode of the input being signed; ZIP 244 never
                // hashes the scriptCode
                CoinScriptCode(j) => !v5 && own(j),
            }
        }
    }
}

#[derive(Clone, Debug)]
pub struct Digests {
    pub map: BTreeMap<Dg, [u8; 32]>,
}

/// The spent-coin alphabet: a P2PKH coin (scriptCode == scriptPubKey) and a P2SH coin
/// (scriptPubKey = OP_HASH160 <20> OP_EQUAL, scriptCode = a 1-of-2 multisig redeem script).
/// `variant` 0: even inputs spend P2SH coins, odd inputs P2PKH; `variant` 1: the reverse.
fn coins_for(n: usize, variant: usize) -> Vec<Coin> {
    (0..n)
        .map(|j| {
            let h = fill("coin-hash160", j, 20);
            if (j + variant) % 2 == 0 {
                let mut spk = vec![0xa9, 0x14];
                spk.extend(&h);
                spk.push(0x87);
                let mut code = vec![0x51, 0x21];
                code.extend(fill("coin-pk-a", j, 33));
                code.push(0x21);
                code.extend(fill("coin-pk-b", j, 33));
                code.extend([0x52, 0xae]);
                Coin { value: 10_000 + j as i64, script: spk, code }
            } else {
                let mut spk = vec![0x76, 0xa9, 0x14];
                spk.extend(&h);
                spk.extend([0x88, 0xac]);
                Coin { value: 10_000 + j as i64, script: spk.clone(), code: spk }
            }
        })
        .collect()
}

/// All digests of the real code for one transaction, plus the first disagreement with the
/// reference implementation (oracle 1), if any. `Err` only for harness problems and panics.
pub fn digests_both(bytes: &[u8], ext_branch: u32, coins: &[Coin]) -> Result<(Digests, Option<String>), String> {
    let p = ref_parse(bytes, ext_branch).map_err(|e| format!("HARNESS: reference parser: {e}"))?;
    if p.consumed != bytes.len() {
        return Err("HARNESS: trailing bytes".into());
    }
    let spec = p.spec;
    // coinbase transactions (published vectors only) have inputs but spend no coins
    let coinbase = coins.is_empty() && spec.vin.len() == 1 && spec.vin[0].prev_hash == [0; 32] && spec.vin[0].prev_n == u32::MAX;
    if coins.len() != spec.vin.len() && !coinbase {
        return Err("HARNESS: one coin per input required".into());
    }
    let tx = real::load(bytes, ext_branch, coins).map_err(|e| format!("HARNESS: {e}"))?;
    let mut map = BTreeMap::new();
    let mut bad: Option<String> = None;
    let mut note = |m: String| {
        if bad.is_none() {
            bad = Some(m);
        }
    };
    let want = reference::txid(&spec);
    if tx.txid != want {
        note(format!("txid {} != reference {}", hex::encode(tx.txid), hex::encode(want)));
    }
    if tx.chunked_txid != Ok(tx.txid) {
        note(format!("txid {} from a slice, {:?} when the same bytes arrive in reads of at most 7 bytes", hex::encode(tx.txid), tx.chunked_txid.as_ref().map(hex::encode)));
    }
    map.insert(Dg::Txid, tx.txid);
    if spec.ver.is_v5plus() {
        let got = tx.auth.clone()?;
        let want = reference::auth_digest(&spec);
        if got != want {
            note(format!("auth_commitment {} != reference {}", hex::encode(got), hex::encode(want)));
        }
        map.insert(Dg::Auth, got);
    }
    if spec.ver.overwintered() {
        let mut signings = vec![Signing::Shielded];
        for index in 0..coins.len() {
            for hash_type in VALID_HASH_TYPES {
                signings.push(Signing::Transparent { index, hash_type });
            }
        }
        for sg in signings {
            let got = tx.sighash(sg, coins).map_err(|e| format!("{sg:?}: {e}"))?;
            let want = reference::sighash(&spec, sg, coins).ok_or("HARNESS: reference sighash undefined")?;
            if got != want {
                note(format!("signature hash {sg:?}: {} != reference {}", hex::encode(got), hex::encode(want)));
            }
            map.insert(Dg::Sig(sg), got);
        }
        // the hash type and the input index are committed: all signature hashes are distinct
        let mut seen = BTreeMap::new();
        for (k, v) in &map {
            if let Dg::Sig(_) = k {
                if let Some(prev) = seen.insert(*v, *k) {
                    note(format!("signature hashes for {prev:?} and {k:?} coincide"));
                }
            }
        }
    }
    Ok((Digests { map }, bad))
}

/// Oracle 1 on one transaction: every digest of the real code equals the reference.
pub fn digests(bytes: &[u8], ext_branch: u32, coins: &[Coin]) -> Result<Digests, String> {
    match digests_both(bytes, ext_branch, coins)? {
        (d, None) => Ok(d),
        (_, Some(m)) => Err(m),
    }
}

/// Oracle 2 on one (base, single-field mutant) pair.
pub fn compare(ver: Ver, class: Class, vin: usize, vout: usize, d0: &Digests, d1: &Digests) -> Result<String, String> {
    let mut changed = Vec::new();
    for (k, v0) in &d0.map {
        let v1 = d1.map.get(k).ok_or_else(|| format!("HARNESS: digest {k:?} missing after mutation"))?;
        let ch = v0 != v1;
        let want = must_change(ver, class, *k, vin, vout);
        if ch != want {
            return Err(format!("{class:?} mutation: digest {k:?} {} but must {}", if ch { "changed" } else { "did not change" }, if want { "change" } else { "stay the same" }));
        }
        if ch {
            changed.push(match k {
                Dg::Txid => "txid",
                Dg::Auth => "auth",
                Dg::Sig(Signing::Shielded) => "sigS",
                Dg::Sig(_) => "sigT",
            });
        }
    }
    changed.dedup();
    Ok(format!("changes:{}", if changed.is_empty() { "none".into() } else { changed.join("+") }))
}

struct Mutation {
    name: String,
    class: Class,
    bytes: Vec<u8>,
    ext_branch: u32,
    coins: Vec<Coin>,
}

fn flip(cur: &[u8], at: usize) -> Vec<u8> {
    let mut v = cur.to_vec();
    v[at] ^= 1;
    v
}

fn other32(v: &[[u8; 32]], cur: &[u8]) -> Vec<u8> {
    v.iter().find(|x| x.as_slice() != cur).expect("pool").to_vec()
}

/// Every single-field mutation of `spec` (all must still parse).
fn mutations(spec: &TxSpec, coins: &[Coin]) -> Vec<Mutation> {
    let w = ref_write(spec);
    let enc = &w.buf;
    let p = pool();
    let mut out: Vec<Mutation> = Vec::new();
    let mut add = |name: String, class: Class, bytes: Vec<u8>, ext_branch: u32, coins: Vec<Coin>| out.push(Mutation { name, class, bytes, ext_branch, coins });
    let splice = |sp: &Span, new: &[u8]| -> Vec<u8> {
        let mut v = enc[..sp.off].to_vec();
        v.extend_from_slice(new);
        v.extend_from_slice(&enc[sp.off + sp.len..]);
        v
    };
    for sp in &w.spans {
        let cur = &enc[sp.off..sp.off + sp.len];
        let u32p = |d: u32| (u32::from_le_bytes(cur.try_into().unwrap()) ^ d).to_le_bytes().to_vec();
        let i64p = || {
            let v = i64::from_le_bytes(cur.try_into().unwrap());
            (if v >= MAX_MONEY { v - 1 } else { v + 1 }).to_le_bytes().to_vec()
        };
        let ends = |n: usize| if n > 1 { vec![0, n - 1] } else if n == 1 { vec![0] } else { vec![] };
        let variants: Vec<(String, Class, Vec<u8>)> = match sp.f {
            F::LockTime | F::Expiry => vec![("^1".into(), Class::Header, u32p(1)), ("^80000000".into(), Class::Header, u32p(1 << 31))],
            F::Branch => BRANCHES[6..].iter().filter(|(_, b)| *b != spec.branch).map(|(n, b)| (format!("={n}"), Class::Branch, b.to_le_bytes().to_vec())).collect(),
            F::InHash(i) => vec![("alt".into(), Class::Prevout(i), fill32("alt-prevout", i).to_vec()), ("flip31".into(), Class::Prevout(i), flip(cur, 31))],
            F::InIndex(i) => vec![("^1".into(), Class::Prevout(i), u32p(1))],
            F::InSeq(i) => vec![("^1".into(), Class::Sequence(i), u32p(1))],
            F::InScript(i) => ends(sp.len).into_iter().map(|a| (format!("flip{a}"), Class::ScriptSig(i), flip(cur, a))).collect(),
            F::OutValue(k) => vec![("+1".into(), Class::Output(k), i64p())],
            F::OutScript(k) => ends(sp.len).into_iter().map(|a| (format!("flip{a}"), Class::Output(k), flip(cur, a))).collect(),
            // v4 encodes valueBalance even without Sapling spends/outputs, where it must be zero
            F::SapVb if spec.has_sapling_bundle() => vec![("+1".into(), Class::SapVb, i64p())],
            F::SpCv(_) => vec![("pool".into(), Class::SapSpendEffect, other32(&p.sap_cv, cur))],
            F::SpRk(_) => vec![("pool".into(), Class::SapSpendEffect, other32(&p.sap_rk, cur))],
            F::SpNf(_) => ends(32).into_iter().map(|a| (format!("flip{a}"), Class::SapSpendEffect, flip(cur, a))).collect(),
            F::SpAnchor(_) => vec![("pool".into(), Class::SapAnchor, other32(&p.sap_anchor, cur))],
            F::SpProof(_) => ends(192).into_iter().map(|a| (format!("flip{a}"), Class::SapSpendProof, flip(cur, a))).collect(),
            F::SpSig(_) => ends(64).into_iter().map(|a| (format!("flip{a}"), Class::SapSpendSig, flip(cur, a))).collect(),
            F::SoCv(_) => vec![("pool".into(), Class::SapOutEffect, other32(&p.sap_cv, cur))],
            F::SoCmu(_) => vec![("pool".into(), Class::SapOutEffect, other32(&p.sap_cmu, cur))],
            F::SoEpk(_) => vec![("pool".into(), Class::SapOutEffect, other32(&p.sap_epk, cur))],
            F::SoEnc(_) => [0usize, 51, 52, 563, 564, 579].into_iter().map(|a| (format!("flip{a}"), Class::SapOutEffect, flip(cur, a))).collect(),
            F::SoOut(_) => ends(80).into_iter().map(|a| (format!("flip{a}"), Class::SapOutEffect, flip(cur, a))).collect(),
            F::SoProof(_) => ends(192).into_iter().map(|a| (format!("flip{a}"), Class::SapOutProof, flip(cur, a))).collect(),
            F::SapBsig => ends(64).into_iter().map(|a| (format!("flip{a}"), Class::SapBsig, flip(cur, a))).collect(),
            F::OCv(..) => vec![("pool".into(), Class::OrchEffect, other32(&p.orch_cv, cur))],
            F::ONf(..) => vec![("pool".into(), Class::OrchEffect, other32(&p.orch_nf, cur))],
            F::ORk(..) => vec![("pool".into(), Class::OrchEffect, other32(&p.orch_rk, cur))],
            F::OCmx(..) => vec![("pool".into(), Class::OrchEffect, other32(&p.orch_cmx, cur))],
            F::OEpk(..) => vec![("pool".into(), Class::OrchEffect, other32(&p.orch_epk, cur))],
            F::OEnc(..) => [0usize, 51, 52, 563, 564, 579].into_iter().map(|a| (format!("flip{a}"), Class::OrchEffect, flip(cur, a))).collect(),
            F::OOut(..) => ends(80).into_iter().map(|a| (format!("flip{a}"), Class::OrchEffect, flip(cur, a))).collect(),
            F::OFlags(pl) => {
                let mut v = vec![("^1".to_string(), Class::OrchEffect, vec![cur[0] ^ 1]), ("^2".to_string(), Class::OrchEffect, vec![cur[0] ^ 2])];
                if pl == 1 {
                    v.push(("^4".into(), Class::OrchEffect, vec![cur[0] ^ 4]));
                }
                v
            }
            F::OVb(_) => vec![("+1".into(), Class::OrchEffect, i64p())],
            F::OAnchor(_) => vec![("pool".into(), Class::OrchAnchor, other32(&p.orch_anchor, cur))],
            F::OProof(_) => ends(sp.len).into_iter().map(|a| (format!("flip{a}"), Class::OrchAuth, flip(cur, a))).collect(),
            F::OSig(..) => ends(64).into_iter().map(|a| (format!("flip{a}"), Class::OrchAuth, flip(cur, a))).collect(),
            F::OBsig(_) => ends(64).into_iter().map(|a| (format!("flip{a}"), Class::OrchAuth, flip(cur, a))).collect(),
            // structure-defining fields (version words, counts, lengths) are not single-field mutable
            _ => vec![],
        };
        for (suffix, class, new) in variants {
            add(format!("{:?}{suffix}", sp.f), class, splice(sp, &new), spec.branch, coins.to_vec());
        }
    }
    // length-changing script mutations (through the plain-data description)
    for i in 0..spec.vin.len() {
        let mut s = spec.clone();
        s.vin[i].script_sig.push(0x51);
        add(format!("InScript({i})+len"), Class::ScriptSig(i), ref_write(&s).buf, spec.branch, coins.to_vec());
    }
    for k in 0..spec.vout.len() {
        let mut s = spec.clone();
        s.vout[k].script.push(0x51);
        add(format!("OutScript({k})+len"), Class::Output(k), ref_write(&s).buf, spec.branch, coins.to_vec());
    }
    // the branch of pre-v5 transactions is not encoded: it is the caller's parameter
    if !spec.ver.is_v5plus() {
        let alt = if spec.ver == Ver::V3 { 0x76b8_09bb } else if spec.branch == 0xe9ff_75a6 { 0xf5b9_230b } else { 0xe9ff_75a6 };
        add("Branch(ext)".into(), Class::Branch, enc.clone(), alt, coins.to_vec());
    }
    // spent coins
    for j in 0..coins.len() {
        let mut c = coins.to_vec();
        c[j].value += 1;
        add(format!("CoinValue({j})+1"), Class::CoinValue(j), enc.clone(), spec.branch, c);
        let mut c = coins.to_vec();
        c[j].script[0] ^= 1;
        add(format!("CoinScriptPubKey({j})flip0"), Class::CoinScriptPubKey(j), enc.clone(), spec.branch, c);
        let mut c = coins.to_vec();
        c[j].script.push(0x51);
        add(format!("CoinScriptPubKey({j})+len"), Class::CoinScriptPubKey(j), enc.clone(), spec.branch, c);
        let mut c = coins.to_vec();
        c[j].code[0] ^= 1;
        add(format!("CoinScriptCode({j})flip0"), Class::CoinScriptCode(j), enc.clone(), spec.branch, c);
        let mut c = coins.to_vec();
        c[j].code.push(0x51);
        add(format!("CoinScriptCode({j})+len"), Class::CoinScriptCode(j), enc.clone(), spec.branch, c);
    }
    out
}

fn coins_json(c: &[Coin]) -> Value {
    json!(c.iter().map(|c| json!([c.value, hex::encode(&c.script), hex::encode(&c.code)])).collect::<Vec<_>>())
}

fn coins_from(v: &Value) -> Vec<Coin> {
    v.as_array().map(|a| a.iter().map(|c| Coin { value: c[0].as_i64().unwrap_or(0), script: hex::decode(c[1].as_str().unwrap_or("")).unwrap_or_default(), code: hex::decode(c[2].as_str().unwrap_or("")).unwrap_or_default() }).collect()).unwrap_or_default()
}

fn class_from(s: &str) -> Option<Class> {
    use Class::*;
    let mut all = vec![Header, Branch, SapSpendEffect, SapAnchor, SapSpendProof, SapSpendSig, SapOutEffect, SapOutProof, SapVb, SapBsig, OrchEffect, OrchAnchor, OrchAuth];
    for i in 0..8 {
        all.extend([Prevout(i), Sequence(i), ScriptSig(i), Output(i), CoinValue(i), CoinScriptPubKey(i), CoinScriptCode(i)]);
    }
    all.into_iter().find(|c| format!("{c:?}") == s)
}

/// Decide one mutation case from scratch (the commitment matrix on base and mutant; oracle 1 on
/// either transaction is a separate `eq` case).
fn check_pair(base: &[u8], branch: u32, coins: &[Coin], mbytes: &[u8], mbranch: u32, mcoins: &[Coin], class: Class) -> Result<String, String> {
    let d0 = digests_both(base, branch, coins)?.0;
    let d1 = digests_both(mbytes, mbranch, mcoins)?.0;
    let s = ref_parse(base, branch).map_err(|e| format!("HARNESS: {e}"))?.spec;
    compare(s.ver, class, s.vin.len(), s.vout.len(), &d0, &d1)
}

fn check_vector(kind: &str, i: usize) -> Result<String, String> {
    use zcash_primitives::transaction::tests::data;
    match kind {
        "zip143" | "zip243" => {
            let (tx, script_code, input, hash_type, amount, branch, want) = if kind == "zip143" {
                let v = data::zip_0143::make_test_vectors().into_iter().nth(i).ok_or("no such vector")?;
                (v.tx, v.script_code.0 .0, v.transparent_input, v.hash_type, v.amount, u32::from(v.consensus_branch_id), v.sighash)
            } else {
                let v = data::zip_0243::make_test_vectors().into_iter().nth(i).ok_or("no such vector")?;
                (v.tx, v.script_code.0 .0, v.transparent_input, v.hash_type, v.amount, u32::from(v.consensus_branch_id), v.sighash)
            };
            let spec = ref_parse(&tx, branch).map_err(|e| format!("HARNESS: {e}"))?.spec;
            let mut coins: Vec<Coin> = (0..spec.vin.len()).map(|_| Coin { value: 0, script: vec![], code: vec![] }).collect();
            let sg = match input {
                Some(n) => {
                    coins[n as usize] = Coin { value: amount, script: script_code.clone(), code: script_code };
                    Signing::Transparent { index: n as usize, hash_type: hash_type as u8 }
                }
                None => Signing::Shielded,
            };
            let got = reference::sighash(&spec, sg, &coins).ok_or("undefined")?;
            if got != want {
                return Err(format!("REFERENCE: {kind}[{i}] sighash {} != published {}", hex::encode(got), hex::encode(want)));
            }
            if reference::txid(&spec) != crate::c03::real::sha256d(&tx) {
                return Err("REFERENCE: txid".into());
            }
            // and the real code against the reference on the same inputs
            let tx_real = real::load(&tx, branch, &coins)?;
            if tx_real.txid != reference::txid(&spec) {
                return Err(format!("{kind}[{i}]: txid != sha256d(serialisation)"));
            }
            if tx_real.sighash(sg, &coins)? != got {
                return Err(format!("{kind}[{i}]: signature hash differs from the reference"));
            }
            Ok("vector".into())
        }
        "zip244" => {
            let v = data::zip_0244::make_test_vectors().into_iter().nth(i).ok_or("no such vector")?;
            let spec = ref_parse(&v.tx, 0xc2d6_d0b4).map_err(|e| format!("HARNESS: {e}"))?.spec;
            let coins: Vec<Coin> = v.amounts.iter().zip(&v.script_pubkeys).map(|(a, s)| Coin { value: *a, script: s.clone(), code: s.clone() }).collect();
            if reference::txid(&spec) != v.txid {
                return Err(format!("REFERENCE: zip244[{i}] txid"));
            }
            if reference::auth_digest(&spec) != v.auth_digest {
                return Err(format!("REFERENCE: zip244[{i}] auth digest"));
            }
            if reference::sighash(&spec, Signing::Shielded, &coins) != Some(v.sighash_shielded) {
                return Err(format!("REFERENCE: zip244[{i}] shielded sighash"));
            }
            if let Some(n) = v.transparent_input {
                for (ht, want) in [(1u8, v.sighash_all), (2, v.sighash_none), (3, v.sighash_single), (0x81, v.sighash_all_anyone), (0x82, v.sighash_none_anyone), (0x83, v.sighash_single_anyone)] {
                    if let Some(want) = want {
                        if reference::sighash(&spec, Signing::Transparent { index: n as usize, hash_type: ht }, &coins) != Some(want) {
                            return Err(format!("REFERENCE: zip244[{i}] sighash type {ht:#x}"));
                        }
                    }
                }
            }
            digests(&v.tx, 0xc2d6_d0b4, &coins).map(|_| "vector".into())
        }
        _ => Err("unknown vector kind".into()),
    }
}

fn check_hash_type(t: u8) -> Result<String, String> {
    match (real::sighash_type_parse(t), reference::hash_type_valid(t)) {
        (Some(e), true) if e == t => Ok("hashtype:valid".into()),
        (None, false) => Ok("hashtype:refused".into()),
        (g, w) => Err(format!("SighashType::parse({t:#04x}) -> {g:?}, ZIP 244 S.2a says valid={w}")),
    }
}

pub fn replay(kind: &str, case: &Value) -> Result<(), String> {
    let hexb = |k: &str| hex::decode(case[k].as_str().unwrap_or("")).map_err(|e| e.to_string());
    let br = |k: &str| case[k].as_u64().unwrap_or(0) as u32;
    match kind {
        "eq" => digests(&hexb("hex")?, br("branch"), &coins_from(&case["coins"])).map(|_| ()),
        "matrix" => check_pair(
            &hexb("base")?,
            br("branch"),
            &coins_from(&case["coins"]),
            &hexb("mut")?,
            br("mut_branch"),
            &coins_from(&case["mut_coins"]),
            class_from(case["class"].as_str().unwrap_or("")).ok_or("bad class")?,
        )
        .map(|_| ()),
        "vector" => check_vector(case["set"].as_str().unwrap_or(""), case["i"].as_u64().unwrap_or(0) as usize).map(|_| ()),
        "hashtype" => check_hash_type(case["t"].as_u64().unwrap_or(0) as u8).map(|_| ()),
        _ => Err(format!("unknown kind {kind}")),
    }
}

pub fn run(args: &Args) -> i32 {
    let run = Run::new(args, "exploration");
    let thorough = args.tier == Tier::Thorough;
    let demo_matrix_only = std::env::var("VERIF_C04_ORACLE").map_or(false, |v| v == "matrix");
    run.set_rule(
        "for v3, v4, v5 and v6 transactions of the C03 count lattice {0,1,2}^k (quick: v3, v4@Canopy/Sapling, v5@NU5/NU6.3, v6 on the sub-lattices {0,1}^k, {0,2}^k \
         and all transparent shapes with the shielded part <= 1; thorough: every overwintered (version, branch) pair on the full lattice plus 3 inputs/outputs): oracle 1 on the base (txid, auth commitment, shielded \
         signature hash, every transparent input x the 6 valid hash types, against the reference implementation); then every single-field mutation \
         (each scalar header field, the branch id, per input prevout hash/index/scriptSig/sequence, per output value/script, every Sapling spend and \
         output field incl. enc_ciphertext at offsets {0,51,52,563,564,579}, every Orchard/Ironwood action field, flags, value balances, anchors, \
         proofs, signatures, and the value, the scriptPubKey and (separately) the scriptCode of every spent coin; coins are P2SH-shaped (scriptCode != \
         scriptPubKey) and P2PKH-shaped (equal), in both assignments to the inputs), oracle 1 again on the mutant and the commitment matrix on every digest. A \
         case is distinct by (transaction, field position, variant); non-trivial because the mutant differs from the base in exactly one field",
    );
    run.assume("the reference implementation is trusted after reproducing every published ZIP 143 / 243 / 244 vector (checked at the start of each run)");
    run.assume("v6 digests have no external vectors: the reference follows the documented structure in txid.rs / sighash_v6.rs / the orchard crate's commitment docs");
    run.assume("SIGHASH_SINGLE with input index >= vout.len(): ZIP 244 S.2e defines outputs_sig_digest as the hash of the empty string (ZIP 143/243: 32 zero bytes); the digest is compared, the consensus rule that such signatures are invalid is out of scope");
    run.assume("every transaction is additionally parsed through a reader that serves at most 7 bytes per call; its txid must equal the slice parse's (C03 owns the full reader-answer exploration)");
    run.assume("BLAKE2b/SHA-256 are treated as injective: 'must change' is checked on one replacement value per field position");
    run.assume("v1/v2 (pre-Overwinter) transactions have no signature hash in this code base (documented panic); only txid == sha256d(serialisation) is checked for them");

    // ---- reference validation + vectors ------------------------------------------------------
    use zcash_primitives::transaction::tests::data;
    let sets = [("zip143", data::zip_0143::make_test_vectors().len()), ("zip243", data::zip_0243::make_test_vectors().len()), ("zip244", data::zip_0244::make_test_vectors().len())];
    let mut n_vec = 0;
    for (set, n) in sets {
        for i in 0..n {
            n_vec += 1;
            run.eval(format!("vector:{set}:{i}").as_bytes());
            match check_vector(set, i) {
                Ok(o) => run.outcome(&o),
                Err(m) if m.starts_with("REFERENCE") || m.starts_with("HARNESS") => mc_core::machinery_error(&format!("C04: reference implementation fails a published vector: {m}")),
                Err(_) if demo_matrix_only => {}
                Err(m) => run.fail("vector", format!("vector:{set}[{i}]"), m, json!({"set": set, "i": i})),
            }
        }
    }
    run.section("vectors_reproduced_by_reference", json!(n_vec));

    // ---- hash types -----------------------------------------------------------------------------
    for t in 0..=255u8 {
        run.eval(format!("hashtype:{t}").as_bytes());
        match check_hash_type(t) {
            Ok(o) => run.outcome(&o),
            Err(m) => run.fail("hashtype", format!("hashtype:{t:#04x}"), m, json!({"t": t})),
        }
    }

    // ---- lattice x field positions ------------------------------------------------------------
    let pairs: Vec<(Ver, u32)> = if thorough {
        crate::c03::gen::pairs().into_iter().filter(|(v, _)| v.overwintered()).collect()
    } else {
        vec![(Ver::V3, 0x5ba8_1b19), (Ver::V4, 0xe9ff_75a6), (Ver::V4, 0x76b8_09bb), (Ver::V5, 0xc2d6_d0b4), (Ver::V5, 0x37a5_165b), (Ver::V6, 0x37a5_165b)]
    };
    let mut bases: Vec<(Ver, u32, Shape)> = Vec::new();
    for (ver, branch) in &pairs {
        for sh in count_lattice(*ver, 2) {
            let counts = [sh.vin, sh.vout, sh.spends, sh.outputs, sh.orchard, sh.ironwood];
            let twos = counts.iter().filter(|c| **c == 2).count();
            // quick: shapes over {0,1}, shapes over {0,2}, and every transparent shape with the
            // shielded part all-ones (input index / SINGLE boundaries)
            let shielded_ones = [sh.spends, sh.outputs, sh.orchard, sh.ironwood].iter().all(|c| *c <= 1);
            if thorough || twos == 0 || counts.iter().all(|c| *c == 2 || *c == 0) || shielded_ones {
                bases.push((*ver, *branch, sh));
            }
        }
        // thorough: three transparent inputs / outputs (index and SINGLE boundaries one further out)
        if thorough && matches!((*ver, *branch), (Ver::V4, 0xe9ff_75a6) | (Ver::V5, 0xc2d6_d0b4) | (Ver::V6, 0x37a5_165b)) {
            for sh in count_lattice(*ver, 3) {
                if (sh.vin == 3 || sh.vout == 3) && [sh.spends, sh.outputs, sh.orchard, sh.ironwood].iter().all(|c| *c <= 1) {
                    bases.push((*ver, *branch, sh));
                }
            }
        }
        // distinct per-spend anchors (v4), other flag bytes
        if *ver == Ver::V4 {
            bases.push((*ver, *branch, Shape { distinct_anchors: true, ..Shape::base(1, 1, 2, 1, 0, 0) }));
        }
        if ver.has_orchard() {
            bases.push((*ver, *branch, Shape { orchard_flags: 0, ironwood_flags: 0, ..Shape::base(1, 1, 1, 1, 1, 1) }));
        }
    }
    // txid == sha256d for v1/v2 and every v4 branch (oracle 1 only)
    let mut eq_only: Vec<(Ver, u32, Shape)> = Vec::new();
    for (ver, branch) in crate::c03::gen::pairs() {
        if matches!(ver, Ver::Sprout(_)) || (ver == Ver::V4 && !pairs.contains(&(ver, branch))) || (ver == Ver::V5 && !pairs.contains(&(ver, branch))) {
            for sh in count_lattice(ver, if thorough { 2 } else { 1 }) {
                eq_only.push((ver, branch, sh));
            }
        }
    }
    // oracle 1 on the scalar / boundary shapes of C03 (lock_time x expiry, value lattices, script
    // lengths and counts at 252/253, flag bytes, free proof lengths) for every pair
    for (ver, branch) in crate::c03::gen::pairs() {
        for sh in scalar_shapes(ver, branch, false) {
            eq_only.push((ver, branch, sh));
        }
    }
    run.section("bases", json!({"matrix": bases.len(), "equality_only": eq_only.len()}));
    // development aid for detection demos: VERIF_C04_ORACLE=matrix keeps only commitment-matrix
    // failures (oracle 1 failures otherwise fill the failure list first)
    let matrix_only = demo_matrix_only;
    let cap = args.tier.pick(45.0, 480.0);
    let skipped = std::sync::atomic::AtomicUsize::new(0);
    let max_fields = std::sync::atomic::AtomicUsize::new(0);

    // every base is explored under both assignments of the spent-coin alphabet (P2SH / P2PKH)
    let with_coins = |v: &Vec<(Ver, u32, Shape)>| -> Vec<(Ver, u32, Shape, usize)> {
        v.iter().flat_map(|(ver, b, sh)| (0..if sh.vin > 0 { 2 } else { 1 }).map(move |cv| (*ver, *b, sh.clone(), cv))).collect()
    };
    let (eq_only, bases) = (with_coins(&eq_only), with_coins(&bases));
    run.section("bases_with_coin_assignments", json!({"matrix": bases.len(), "equality_only": eq_only.len()}));
    let coin_name = |cv: usize, vin: usize| if vin == 0 { "" } else if cv == 0 { ";coins=p2sh,p2pkh.." } else { ";coins=p2pkh,p2sh.." };
    eq_only.par_iter().for_each(|(ver, branch, sh, cv)| {
        let spec = make_spec(*ver, *branch, sh);
        let enc = ref_write(&spec).buf;
        let coins = coins_for(spec.vin.len(), *cv);
        let id = format!("{}@{}/{}{}", ver.name(), branch_name(*branch), sh.id(), coin_name(*cv, sh.vin));
        run.eval(format!("eq:{id}").as_bytes());
        match digests(&enc, *branch, &coins) {
            Ok(d) => run.outcome(&format!("equal:{}digests", if d.map.len() > 1 { "n-" } else { "1-" })),
            Err(_) if demo_matrix_only => {}
            Err(m) => run.fail("eq", format!("eq:{id}"), m, json!({"hex": hex::encode(&enc), "branch": branch, "coins": coins_json(&coins)})),
        }
    });

    bases.par_iter().for_each(|(ver, branch, sh, cv)| {
        if run.elapsed() > cap {
            skipped.fetch_add(1, std::sync::atomic::Ordering::Relaxed);
            return;
        }
        let spec = make_spec(*ver, *branch, sh);
        let enc = ref_write(&spec).buf;
        let coins = coins_for(spec.vin.len(), *cv);
        let id = format!("{}@{}/{}{}", ver.name(), branch_name(*branch), sh.id(), coin_name(*cv, sh.vin));
        run.eval(format!("eq:{id}").as_bytes());
        let d0 = match digests_both(&enc, *branch, &coins) {
            Ok((d, bad)) => {
                if let (Some(m), false) = (bad, matrix_only) {
                    run.fail("eq", format!("eq:{id}"), m, json!({"hex": hex::encode(&enc), "branch": branch, "coins": coins_json(&coins)}));
                }
                d
            }
            Err(m) => {
                run.fail("eq", format!("eq:{id}"), m, json!({"hex": hex::encode(&enc), "branch": branch, "coins": coins_json(&coins)}));
                return;
            }
        };
        let muts = mutations(&spec, &coins);
        max_fields.fetch_max(muts.len(), std::sync::atomic::Ordering::Relaxed);
        let mut outcomes: BTreeMap<String, u64> = BTreeMap::new();
        let mut n = 0u64;
        for m in &muts {
            // a mutation that no longer parses (branch ids that forbid the bundles present) is not a case
            if m.class == Class::Branch && real::load(&m.bytes, m.ext_branch, &m.coins).is_err() {
                *outcomes.entry("branch-variant-not-parseable".into()).or_insert(0) += 1;
                continue;
            }
            n += 1;
            let eq_case = || json!({"hex": hex::encode(&m.bytes), "branch": m.ext_branch, "coins": coins_json(&m.coins)});
            let d1 = match digests_both(&m.bytes, m.ext_branch, &m.coins) {
                Ok((d, bad)) => {
                    if let (Some(msg), false) = (bad, matrix_only) {
                        run.fail("eq", format!("eq:{id}:{}", m.name), msg, eq_case());
                    }
                    d
                }
                Err(msg) => {
                    run.fail("eq", format!("eq:{id}:{}", m.name), msg, eq_case());
                    continue;
                }
            };
            match compare(*ver, m.class, spec.vin.len(), spec.vout.len(), &d0, &d1) {
                Ok(o) => *outcomes.entry(format!("{}:{o}", ver.name())).or_insert(0) += 1,
                Err(msg) => run.fail(
                    "matrix",
                    format!("{id}:{}", m.name),
                    msg,
                    json!({"base": hex::encode(&enc), "branch": branch, "coins": coins_json(&coins), "mut": hex::encode(&m.bytes), "mut_branch": m.ext_branch, "mut_coins": coins_json(&m.coins), "class": format!("{:?}", m.class)}),
                ),
            }
        }
        run.eval_distinct(n);
        for (o, k) in outcomes {
            run.outcome_n(&o, k);
        }
    });
    let sk = skipped.load(std::sync::atomic::Ordering::Relaxed);
    if sk > 0 {
        run.cap_hit(&format!("wall cap {cap}s: {sk}/{} bases skipped", bases.len()));
    }
    run.section("max_field_positions_per_transaction", json!(max_fields.load(std::sync::atomic::Ordering::Relaxed)));
    run.sample(json!({"base": "v5@Nu5/in1,out1,sp1,so1,or1,ir0", "mutation": "OAnchor(0)pool", "expected": "txid and every signature hash change, auth commitment does not"}));
    run.sample(json!({"base": "v6@Nu6_3/in1,out1,sp1,so1,or1,ir1", "mutation": "OAnchor(1)pool", "expected": "only the auth commitment changes"}));
    run.sample(json!({"base": "v5@Nu5/in1,..;coins=p2sh", "mutation": "CoinScriptCode(0)flip0", "expected": "no digest changes (ZIP 244 never hashes the scriptCode); CoinScriptPubKey(0) changes every signature hash"}));
    run.sample(json!({"base": "v4@Canopy/in1,..;coins=p2sh", "mutation": "CoinScriptCode(0)flip0", "expected": "every signature hash of input 0 changes (ZIP 243 field 13b); CoinScriptPubKey(0) changes nothing"}));
    run.sample(json!({"base": "v5@Nu5/in2,out1,..", "mutation": "CoinValue(1)+1", "expected": "signature hashes change except ANYONECANPAY ones of input 0; txid, auth unchanged"}));
    run.sample(json!({"base": "v4@Canopy/in2,out2,..", "mutation": "InSeq(1)^1", "expected": "txid; sighash ALL of every input; every sighash of input 1; not NONE/SINGLE/ANYONECANPAY of input 0"}));
    run.require(run.outcomes_distinct() >= 10 || run.failure_count() > 0, "fewer than 10 distinct outcome classes");
    run.finish(&replay)
}
