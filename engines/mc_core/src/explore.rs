//! Explicit-state breadth-first search with state matching.
//!
//! The subject supplies: an initial set of states, the list of enabled operations of a state, a
//! transition function that executes the operation **on the real implementation** and returns the
//! successor, a canonical key, and an invariant evaluated on every state and every transition.
//! Each state remembers the operation history that first reached it, so every counterexample is a
//! replayable operation list, shortest first (BFS).

use std::collections::{HashMap, VecDeque};
use std::time::Instant;

pub trait Subject {
    type State: Clone;
    type Op: Clone + std::fmt::Debug;
    /// Operations enabled in `s` (small finite menu).
    fn ops(&self, s: &Self::State, depth: usize) -> Vec<Self::Op>;
    /// Execute `op` on the real implementation. `Err` = violation observed on the transition.
    fn step(&self, s: &Self::State, op: &Self::Op) -> Result<Option<Self::State>, String>;
    /// Canonical form of everything the futures of `s` can depend on.
    fn key(&self, s: &Self::State) -> Vec<u8>;
    /// Invariant on a state.
    fn check(&self, s: &Self::State) -> Result<(), String>;
}

#[derive(Default, Debug, Clone)]
pub struct Stats {
    pub states: u64,
    pub transitions: u64,
    pub max_depth: usize,
    pub capped: Option<String>,
    pub per_depth: Vec<u64>,
}

pub struct Counterexample<Op> {
    pub history: Vec<Op>,
    pub msg: String,
}

pub struct Limits {
    pub max_depth: usize,
    pub max_states: u64,
    pub max_wall_s: f64,
}

/// Sequential BFS. Returns statistics and the counterexamples found (search continues past a
/// counterexample state but does not expand it), at most `max_cex`.
pub fn bfs<S: Subject>(
    subj: &S,
    init: Vec<S::State>,
    lim: &Limits,
    max_cex: usize,
) -> (Stats, Vec<Counterexample<S::Op>>) {
    let t0 = Instant::now();
    let mut stats = Stats::default();
    let mut cex = Vec::new();
    // key -> (parent index, op) for history reconstruction
    let mut seen: HashMap<u128, usize> = HashMap::new();
    let mut nodes: Vec<(Option<usize>, Option<S::Op>, usize)> = Vec::new();
    let mut frontier: VecDeque<(usize, S::State)> = VecDeque::new();
    let hist = |nodes: &Vec<(Option<usize>, Option<S::Op>, usize)>, mut i: usize| {
        let mut h = Vec::new();
        loop {
            let (p, op, _) = &nodes[i];
            if let Some(op) = op {
                h.push(op.clone());
            }
            match p {
                Some(p) => i = *p,
                None => break,
            }
        }
        h.reverse();
        h
    };
    for s in init {
        let k = crate::key128(&subj.key(&s));
        if seen.contains_key(&k) {
            continue;
        }
        let idx = nodes.len();
        nodes.push((None, None, 0));
        seen.insert(k, idx);
        stats.states += 1;
        if let Err(m) = subj.check(&s) {
            cex.push(Counterexample { history: vec![], msg: m });
            continue;
        }
        frontier.push_back((idx, s));
    }
    while let Some((idx, s)) = frontier.pop_front() {
        let depth = nodes[idx].2;
        if stats.per_depth.len() <= depth {
            stats.per_depth.resize(depth + 1, 0);
        }
        stats.per_depth[depth] += 1;
        stats.max_depth = stats.max_depth.max(depth);
        if depth >= lim.max_depth {
            continue;
        }
        if stats.states >= lim.max_states {
            stats.capped = Some(format!("state cap {} reached at depth {}", lim.max_states, depth));
            break;
        }
        if t0.elapsed().as_secs_f64() > lim.max_wall_s {
            stats.capped = Some(format!("wall cap {}s reached at depth {}", lim.max_wall_s, depth));
            break;
        }
        for op in subj.ops(&s, depth) {
            stats.transitions += 1;
            match subj.step(&s, &op) {
                Err(m) => {
                    if cex.len() < max_cex {
                        let mut h = hist(&nodes, idx);
                        h.push(op.clone());
                        cex.push(Counterexample { history: h, msg: m });
                    }
                }
                Ok(None) => {}
                Ok(Some(n)) => {
                    let k = crate::key128(&subj.key(&n));
                    if seen.contains_key(&k) {
                        continue;
                    }
                    let nidx = nodes.len();
                    nodes.push((Some(idx), Some(op.clone()), depth + 1));
                    seen.insert(k, nidx);
                    stats.states += 1;
                    if let Err(m) = subj.check(&n) {
                        if cex.len() < max_cex {
                            cex.push(Counterexample { history: hist(&nodes, nidx), msg: m });
                        }
                        continue;
                    }
                    frontier.push_back((nidx, n));
                }
            }
        }
    }
    (stats, cex)
}
