//! Shared machinery for the bounded-exhaustive checks under /verif/engines.
//!
//! * `Args`      – the command contract (`<ID> --tier quick|thorough | --replay <file>`)
//! * `Run`       – per-property run context: counts cases, collects violations, re-executes each
//!                 failing case twice before reporting it, classifies against
//!                 /verif/known_findings.json, writes /verif/evidence/<id>.json and replay files.
//! * `explore`   – explicit-state breadth-first search with state matching over any subject.
//! * `catch`     – `catch_unwind` with a silenced panic hook; a panic inside the subject is an
//!                 observation (usually a violation), never a crash of the engine.

pub mod explore;

use serde_json::{json, Value};
use sha2::{Digest, Sha256};
use std::collections::{BTreeMap, BTreeSet};
use std::panic::{catch_unwind, AssertUnwindSafe};
use std::path::PathBuf;
use std::sync::Mutex;
use std::time::Instant;

pub const VERIF_ROOT: &str = "/verif";

#[derive(Clone, Copy, PartialEq, Eq, Debug)]
pub enum Tier {
    Quick,
    Thorough,
}

impl Tier {
    pub fn name(self) -> &'static str {
        match self {
            Tier::Quick => "quick",
            Tier::Thorough => "thorough",
        }
    }
    pub fn pick<T>(self, quick: T, thorough: T) -> T {
        match self {
            Tier::Quick => quick,
            Tier::Thorough => thorough,
        }
    }
}

#[derive(Clone, Debug)]
pub struct Args {
    pub prop: String,
    pub tier: Tier,
    pub seed: u64,
    pub replay: Option<PathBuf>,
}

impl Args {
    pub fn parse() -> Args {
        let mut it = std::env::args().skip(1);
        let mut prop = None;
        let mut tier = match std::env::var("VERIF_TIER").ok().as_deref() {
            Some("thorough") => Tier::Thorough,
            _ => Tier::Quick,
        };
        let mut replay = None;
        while let Some(a) = it.next() {
            match a.as_str() {
                "--tier" => {
                    tier = match it.next().as_deref() {
                        Some("quick") => Tier::Quick,
                        Some("thorough") => Tier::Thorough,
                        other => machinery_error(&format!("bad --tier {:?}", other)),
                    }
                }
                "--replay" => replay = Some(PathBuf::from(it.next().unwrap_or_else(|| machinery_error("--replay needs a path")))),
                s if prop.is_none() => prop = Some(s.to_string()),
                s => machinery_error(&format!("unexpected argument {s}")),
            }
        }
        let seed = std::env::var("VERIF_SEED").ok().and_then(|s| s.parse().ok()).unwrap_or(0);
        Args { prop: prop.unwrap_or_else(|| machinery_error("missing property id")), tier, seed, replay }
    }
}

/// Exit 2: the machinery failed (not a verdict about the repository).
pub fn machinery_error(msg: &str) -> ! {
    eprintln!("MACHINERY-ERROR: {msg}");
    std::process::exit(2)
}

static HOOK: std::sync::Once = std::sync::Once::new();

thread_local! {
    static CATCH_DEPTH: std::cell::Cell<u32> = const { std::cell::Cell::new(0) };
}

/// Panics raised inside `catch` (i.e. inside the subject) are observations and stay silent;
/// panics anywhere else are harness bugs and are printed with their location.
pub fn quiet_panics() {
    HOOK.call_once(|| {
        let default = std::panic::take_hook();
        std::panic::set_hook(Box::new(move |info| {
            let inside = CATCH_DEPTH.with(|d| d.get()) > 0;
            if !inside || std::env::var("VERIF_PANIC_TRACE").is_ok() {
                if !inside {
                    eprintln!("MACHINERY-ERROR: panic outside the subject (harness bug):");
                }
                default(info);
            }
        }));
    });
}

/// Run `f`, turning a panic into `Err(message)`.
pub fn catch<T>(f: impl FnOnce() -> T) -> Result<T, String> {
    quiet_panics();
    CATCH_DEPTH.with(|d| d.set(d.get() + 1));
    let r = catch_unwind(AssertUnwindSafe(f));
    CATCH_DEPTH.with(|d| d.set(d.get() - 1));
    r.map_err(|e| {
        if let Some(s) = e.downcast_ref::<&str>() {
            s.to_string()
        } else if let Some(s) = e.downcast_ref::<String>() {
            s.clone()
        } else {
            "non-string panic payload".to_string()
        }
    })
}

pub fn sha256_hex(b: &[u8]) -> String {
    hex::encode(Sha256::digest(b))
}

pub fn key64(b: &[u8]) -> u64 {
    let d = Sha256::digest(b);
    u64::from_le_bytes(d[..8].try_into().unwrap())
}

pub fn key128(b: &[u8]) -> u128 {
    let d = Sha256::digest(b);
    u128::from_le_bytes(d[..16].try_into().unwrap())
}

#[derive(Clone, Debug)]
pub struct Failure {
    /// Stable identifier of the failing input / history (matched against known_findings.json).
    pub key: String,
    /// What went wrong.
    pub msg: String,
    /// Sub-check name; `--replay` dispatches on it.
    pub kind: String,
    /// The case, as understood by the sub-check's replay function.
    pub case: Value,
}

#[derive(Default)]
struct Inner {
    evaluations: u64,
    nontrivial: BTreeSet<u128>,
    nontrivial_extra: u64,
    outcomes: BTreeMap<String, u64>,
    samples: Vec<Value>,
    failures: Vec<Failure>,
    failure_keys: BTreeSet<String>,
    caps: Vec<String>,
    sections: BTreeMap<String, Value>,
    states: u64,
    transitions: u64,
    traces: u64,
    assumptions: Vec<String>,
    exhaustive: bool,
}

/// Per-property run context. Thread-safe; hot loops should batch their counters with
/// `add_evaluations`.
pub struct Run {
    pub prop: String,
    pub tier: Tier,
    pub seed: u64,
    pub level: &'static str,
    started: Instant,
    inner: Mutex<Inner>,
    rule: Mutex<String>,
}

pub const MAX_SAMPLES: usize = 12;
pub const MAX_FAILURES: usize = 40;

impl Run {
    pub fn new(args: &Args, level: &'static str) -> Run {
        quiet_panics();
        Run {
            prop: args.prop.clone(),
            tier: args.tier,
            seed: args.seed,
            level,
            started: Instant::now(),
            inner: Mutex::new(Inner { exhaustive: true, ..Default::default() }),
            rule: Mutex::new(String::new()),
        }
    }
    pub fn elapsed(&self) -> f64 {
        self.started.elapsed().as_secs_f64()
    }
    pub fn set_rule(&self, r: &str) {
        *self.rule.lock().unwrap() = r.to_string();
    }
    pub fn assume(&self, a: &str) {
        self.inner.lock().unwrap().assumptions.push(a.to_string());
    }
    pub fn add_evaluations(&self, n: u64) {
        self.inner.lock().unwrap().evaluations += n;
    }
    /// Count one evaluated case whose *class* (by the stated rule) is `class`.
    pub fn eval(&self, class: &[u8]) {
        let mut g = self.inner.lock().unwrap();
        g.evaluations += 1;
        g.nontrivial.insert(key128(class));
    }
    /// Count `n` evaluated cases, all distinct and non-trivial by construction
    /// (used by hot loops that enumerate a product without repetition).
    pub fn eval_distinct(&self, n: u64) {
        let mut g = self.inner.lock().unwrap();
        g.evaluations += n;
        g.nontrivial_extra += n;
    }
    /// Add `n` to the distinct/non-trivial count without adding evaluations.
    pub fn eval_distinct_only(&self, n: u64) {
        self.inner.lock().unwrap().nontrivial_extra += n;
    }
    pub fn nontrivial(&self, class: &[u8]) {
        self.inner.lock().unwrap().nontrivial.insert(key128(class));
    }
    pub fn outcome(&self, name: &str) {
        *self.inner.lock().unwrap().outcomes.entry(name.to_string()).or_insert(0) += 1;
    }
    pub fn outcome_n(&self, name: &str, n: u64) {
        *self.inner.lock().unwrap().outcomes.entry(name.to_string()).or_insert(0) += n;
    }
    pub fn sample(&self, v: Value) {
        let mut g = self.inner.lock().unwrap();
        if g.samples.len() < MAX_SAMPLES {
            g.samples.push(v);
        }
    }
    pub fn force_sample(&self, v: Value) {
        self.inner.lock().unwrap().samples.push(v);
    }
    pub fn cap_hit(&self, what: &str) {
        let mut g = self.inner.lock().unwrap();
        g.caps.push(what.to_string());
        g.exhaustive = false;
    }
    pub fn not_exhaustive(&self) {
        self.inner.lock().unwrap().exhaustive = false;
    }
    pub fn section(&self, name: &str, v: Value) {
        self.inner.lock().unwrap().sections.insert(name.to_string(), v);
    }
    pub fn add_graph(&self, states: u64, transitions: u64, traces: u64) {
        let mut g = self.inner.lock().unwrap();
        g.states += states;
        g.transitions += transitions;
        g.traces += traces;
    }
    pub fn failure_count(&self) -> usize {
        self.inner.lock().unwrap().failures.len()
    }
    pub fn outcomes_distinct(&self) -> usize {
        self.inner.lock().unwrap().outcomes.len()
    }

    /// Record a failing case. De-duplicated by key; at most MAX_FAILURES are kept.
    pub fn fail(&self, kind: &str, key: String, msg: String, case: Value) {
        let mut g = self.inner.lock().unwrap();
        if g.failure_keys.contains(&key) {
            return;
        }
        if g.failures.len() >= MAX_FAILURES {
            return;
        }
        g.failure_keys.insert(key.clone());
        g.failures.push(Failure { key, msg, kind: kind.to_string(), case });
    }

    /// Assert a machinery-level sanity condition about the exploration itself (e.g. minimum
    /// outcome diversity). Failing it is exit 2, not a verdict.
    pub fn require(&self, cond: bool, what: &str) {
        if !cond {
            machinery_error(&format!("{}: exploration sanity check failed: {}", self.prop, what));
        }
    }

    /// Finish: re-execute every failing case twice through `replay` (the same function `--replay`
    /// uses); classify; write evidence and replay files; return the exit code.
    pub fn finish(self, replay: &dyn Fn(&str, &Value) -> Result<(), String>) -> i32 {
        let wall = self.started.elapsed().as_secs_f64();
        let g = self.inner.into_inner().unwrap();
        let known = KnownFindings::load();
        let mut violations = 0;
        let mut known_hits = Vec::new();
        let mut lines = Vec::new();
        let mut irreproducible: Vec<String> = Vec::new();
        for f in &g.failures {
            let r1 = catch(|| replay(&f.kind, &f.case));
            let r2 = catch(|| replay(&f.kind, &f.case));
            let norm = |r: &Result<Result<(), String>, String>| match r {
                Ok(Ok(())) => None,
                Ok(Err(m)) => Some(m.clone()),
                Err(p) => Some(format!("panic: {p}")),
            };
            let (m1, m2) = (norm(&r1), norm(&r2));
            if m1 != m2 || m1.is_none() {
                // Not trusted, so never a verdict. If other failures of this run do reproduce the run
                // still reports those (exit 1); a run whose only failures are irreproducible is a
                // machinery error (exit 2, below).
                eprintln!(
                    "MACHINERY-WARNING: {}: failing case does not reproduce deterministically and is not reported as a violation (key {}): first={:?} replay1={:?} replay2={:?}",
                    self.prop, f.key, f.msg, m1, m2
                );
                irreproducible.push(f.key.clone());
                continue;
            }
            if let Some(what) = known.matches(&self.prop, &f.key) {
                lines.push(format!("KNOWN-FINDING: property={} {} [{}]", self.prop, what, f.key));
                known_hits.push(f.key.clone());
                continue;
            }
            violations += 1;
            let dir = PathBuf::from(VERIF_ROOT).join("replays");
            let _ = std::fs::create_dir_all(&dir);
            let name = format!("{}-{}.json", self.prop, &sha256_hex(f.key.as_bytes())[..12]);
            let path = dir.join(name);
            let body = json!({"property": self.prop, "kind": f.kind, "key": f.key, "message": m1, "case": f.case});
            std::fs::write(&path, serde_json::to_vec_pretty(&body).unwrap()).unwrap_or_else(|e| machinery_error(&format!("cannot write replay: {e}")));
            lines.push(format!("VIOLATION property={} replay={}", self.prop, path.display()));
            eprintln!("  {} :: {}", f.key, m1.unwrap_or_default());
        }
        if !irreproducible.is_empty() && violations == 0 {
            machinery_error(&format!("{}: {} failing case(s) did not reproduce deterministically and none did (first key {})", self.prop, irreproducible.len(), irreproducible[0]));
        }
        let distinct = g.nontrivial.len() as u64 + g.nontrivial_extra;
        let mut cov = serde_json::Map::new();
        if !irreproducible.is_empty() {
            cov.insert("irreproducible_failures_not_reported".into(), json!(irreproducible));
        }
        cov.insert("evaluations".into(), json!(g.evaluations));
        cov.insert("distinct_nontrivial".into(), json!(distinct));
        cov.insert("rule".into(), json!(self.rule.into_inner().unwrap()));
        cov.insert("samples".into(), Value::Array(g.samples));
        cov.insert("exhaustive".into(), json!(g.exhaustive));
        cov.insert("caps_hit".into(), json!(g.caps));
        cov.insert("distinct_outcomes".into(), json!(g.outcomes.len()));
        cov.insert("outcomes".into(), json!(g.outcomes));
        if g.states > 0 || self.level == "model_checking" {
            cov.insert("states".into(), json!(g.states));
            cov.insert("transitions".into(), json!(g.transitions));
            cov.insert("traces_validated_against_impl".into(), json!(g.traces));
        }
        cov.insert("known_findings_hit".into(), json!(known_hits));
        for (k, v) in g.sections {
            cov.insert(k, v);
        }
        let ev = json!({
            "property_id": self.prop,
            "tier": self.tier.name(),
            "seed": self.seed,
            "level": self.level,
            "coverage": Value::Object(cov),
            "assumptions": g.assumptions,
            "wall_s": wall,
            "violations": violations,
        });
        let evdir = PathBuf::from(VERIF_ROOT).join("evidence");
        let _ = std::fs::create_dir_all(&evdir);
        std::fs::write(evdir.join(format!("{}.json", self.prop)), serde_json::to_vec_pretty(&ev).unwrap())
            .unwrap_or_else(|e| machinery_error(&format!("cannot write evidence: {e}")));
        for l in &lines {
            println!("{l}");
        }
        println!(
            "{} tier={} evaluations={} distinct={} states={} transitions={} violations={} known={} exhaustive={} wall={:.1}s",
            self.prop, self.tier.name(), g.evaluations, distinct, g.states, g.transitions, violations, lines.len() - violations, g.exhaustive, wall
        );
        if violations > 0 {
            1
        } else {
            0
        }
    }
}

/// Replay entry used by every engine's `--replay`: prints the verdict of one stored case.
pub fn replay_file(path: &std::path::Path, replay: &dyn Fn(&str, &Value) -> Result<(), String>) -> i32 {
    let body: Value = serde_json::from_slice(&std::fs::read(path).unwrap_or_else(|e| machinery_error(&format!("cannot read {}: {e}", path.display()))))
        .unwrap_or_else(|e| machinery_error(&format!("bad replay json: {e}")));
    let kind = body["kind"].as_str().unwrap_or_else(|| machinery_error("replay file has no kind"));
    let prop = body["property"].as_str().unwrap_or("?");
    let r = catch(|| replay(kind, &body["case"]));
    match r {
        Ok(Ok(())) => {
            println!("REPLAY property={prop} kind={kind}: case passes on this tree");
            0
        }
        Ok(Err(m)) => {
            println!("REPLAY property={prop} kind={kind}: {m}");
            println!("VIOLATION property={prop} replay={}", path.display());
            1
        }
        Err(p) => {
            println!("REPLAY property={prop} kind={kind}: panic: {p}");
            println!("VIOLATION property={prop} replay={}", path.display());
            1
        }
    }
}

pub struct KnownFindings {
    entries: Vec<(String, String, String)>, // (property, key, what)
}

impl KnownFindings {
    pub fn load() -> KnownFindings {
        let path = PathBuf::from(VERIF_ROOT).join("known_findings.json");
        let mut entries = Vec::new();
        if let Ok(b) = std::fs::read(&path) {
            let v: Value = serde_json::from_slice(&b).unwrap_or_else(|e| machinery_error(&format!("known_findings.json: {e}")));
            for e in v["known"].as_array().cloned().unwrap_or_default() {
                entries.push((
                    e["property"].as_str().unwrap_or("").to_string(),
                    e["key"].as_str().unwrap_or("").to_string(),
                    e["what"].as_str().unwrap_or("").to_string(),
                ));
            }
            // "fixed" entries are documentation only and suppress nothing.
        }
        KnownFindings { entries }
    }
    pub fn matches(&self, prop: &str, key: &str) -> Option<&str> {
        self.entries.iter().find(|(p, k, _)| p == prop && k == key).map(|(_, _, w)| w.as_str())
    }
}

/// Deterministic splitmix64, for the few places a reproducible pseudo-random *value source* is
/// wanted (never to decide which cases are explored).
#[derive(Clone)]
pub struct SplitMix(pub u64);
impl SplitMix {
    pub fn next(&mut self) -> u64 {
        self.0 = self.0.wrapping_add(0x9E3779B97F4A7C15);
        let mut z = self.0;
        z = (z ^ (z >> 30)).wrapping_mul(0xBF58476D1CE4E5B9);
        z = (z ^ (z >> 27)).wrapping_mul(0x94D049BB133111EB);
        z ^ (z >> 31)
    }
    pub fn fill(&mut self, b: &mut [u8]) {
        for c in b.chunks_mut(8) {
            let w = self.next().to_le_bytes();
            c.copy_from_slice(&w[..c.len()]);
        }
    }
}
