//! C05 — compact-block scanning finds exactly the wallet's notes and spends.
//!
//! (a) block-shape lattice through the public `scanning::scan_block` against generation-time
//!     ground truth;
//! (b) continuity / malformation lattice: `Err(ScanError)`, never a panic, wallet unchanged;
//! (c) every run-to-completion schedule of the batch trial-decryption tasks of
//!     `scan_cached_blocks` (executor seam `zcash_client_backend::scan::verif_exec`), against the
//!     same ground truth and the inline (runner-less) path.

use std::cell::RefCell;
use std::collections::{BTreeMap, BTreeSet};
use std::rc::Rc;
use std::sync::Mutex;
use std::time::Instant;

use mc_core::{Args, Run, Tier};
use serde_json::{json, Value};
use zcash_client_backend::data_api::chain::{error::Error as ChainError, scan_cached_blocks, BlockSource};
use zcash_client_backend::data_api::{BlockMetadata, WalletRead, WalletWrite};
use zcash_client_backend::proto::compact_formats::CompactBlock;
use zcash_client_backend::scan::verif_exec;
use zcash_client_backend::scanning::{scan_block, Nullifiers, ScanningKeys};
use zcash_primitives::block::BlockHash;
use zcash_protocol::consensus::BlockHeight;

use crate::db::{self, Wallet};
use crate::graph::{self, par_map, Model, Op};
use crate::universe::Owner::*;
use crate::universe::Pool::*;
use crate::universe::Scope::*;
use crate::universe::*;
use crate::universes::FIRST;

// ------------------------------------------------------------------------------------------------
// (a) shape lattice
// ------------------------------------------------------------------------------------------------

const KINDS: [(Owner, Scope); 5] = [(A, External), (A, Diversified), (A, Internal), (B, External), (Foreign, External)];
const SPENDABLE: [&str; 7] = ["a1", "a2", "a3", "b1", "b2", "f1", "f2"];

fn base(genesis: (u64, u64)) -> Universe {
    // NU6.3 active from the first block so that Ironwood outputs are valid everywhere.
    let mut u = Universe::new(Some(FIRST), FIRST, genesis, 21);
    u.extend(
        0,
        None,
        &[block(vec![
            tx(vec![out("a1", A, Sapling, External, 60_000), out("a2", A, Orchard, External, 70_000), out("a3", A, Ironwood, External, 80_000)]),
            tx(vec![out("b1", B, Sapling, External, 30_000), out("b2", B, Orchard, Internal, 20_000), out("f1", Foreign, Sapling, External, 11_000), out("f2", Foreign, Orchard, External, 12_000)]),
        ])],
        300,
    );
    u
}

fn okind(i: usize, pool: Pool, v: u64) -> (Option<&'static str>, Item) {
    (None, Item::Out { owner: KINDS[i].0, pool, scope: KINDS[i].1, value: v })
}

/// The block specs of the lattice, each with a stable name.
fn shapes() -> Vec<(String, BlockSpec)> {
    let mut v = vec![];
    // 1. single transaction, single pool, every kind list of length <= 3
    for p in POOLS {
        let mut lists: Vec<Vec<usize>> = vec![vec![]];
        let mut level: Vec<Vec<usize>> = vec![vec![]];
        for _ in 0..3 {
            let mut next = vec![];
            for l in &level {
                for k in 0..KINDS.len() {
                    let mut t = l.clone();
                    t.push(k);
                    next.push(t);
                }
            }
            lists.extend(next.iter().cloned());
            level = next;
        }
        for l in lists {
            if l.is_empty() {
                continue;
            }
            let items = l.iter().enumerate().map(|(i, k)| okind(*k, p, 10_000 + i as u64)).collect();
            v.push((format!("1tx:{p:?}:{l:?}"), block(vec![tx(items)])));
        }
    }
    // 2. single transaction, one optional output per pool
    for s in 0..6usize {
        for o in 0..6usize {
            for i in 0..6usize {
                let mut items = vec![];
                if s < 5 {
                    items.push(okind(s, Sapling, 21_000));
                }
                if o < 5 {
                    items.push(okind(o, Orchard, 22_000));
                }
                if i < 5 {
                    items.push(okind(i, Ironwood, 23_000));
                }
                if items.len() >= 2 {
                    v.push((format!("xpool:{s}{o}{i}"), block(vec![tx(items)])));
                }
            }
        }
    }
    // 3. two and three transactions of one output each
    for p in POOLS {
        for a in 0..5 {
            for b in 0..5 {
                v.push((format!("2tx:{p:?}:{a}{b}"), block(vec![tx(vec![okind(a, p, 31_000)]), tx(vec![okind(b, p, 32_000)])])));
                for c in 0..5 {
                    v.push((format!("3tx:{p:?}:{a}{b}{c}"), block(vec![tx(vec![okind(a, p, 31_000)]), tx(vec![okind(b, p, 32_000)]), tx(vec![okind(c, p, 33_000)])])));
                }
            }
        }
    }
    // 4. spends of tracked (A, B) and untracked (foreign) notes: every subset of size <= 2,
    //    alone or with a change output in the pool of the first spend
    for i in 0..SPENDABLE.len() {
        for j in i..=SPENDABLE.len() {
            let mut labels = vec![SPENDABLE[i]];
            if j < SPENDABLE.len() {
                if j == i {
                    continue;
                }
                labels.push(SPENDABLE[j]);
            }
            for change in [false, true] {
                let mut items: Vec<(Option<&'static str>, Item)> = labels.iter().map(|l| spend(l)).collect();
                if change {
                    let pool = match labels[0] {
                        "a1" | "b1" | "f1" => Sapling,
                        "a2" | "b2" | "f2" => Orchard,
                        _ => Ironwood,
                    };
                    items.push(okind(2, pool, 5_500));
                }
                v.push((format!("spend:{labels:?}:{change}"), block(vec![tx(items)])));
            }
        }
        // a spend in the second transaction, after a receipt in the first
        v.push((format!("recv-then-spend:{}", SPENDABLE[i]), block(vec![tx(vec![okind(0, Orchard, 41_000), okind(3, Sapling, 42_000)]), tx(vec![spend(SPENDABLE[i]), okind(2, Orchard, 1_000)])])));
    }
    // 5. empty block
    v.push(("empty".into(), BlockSpec::default()));
    v
}

struct ScanEnv {
    w: Wallet,
    keys: ScanningKeys<zcash_client_sqlite::AccountUuid, (zcash_client_sqlite::AccountUuid, zip32::Scope)>,
    nullifiers: Nullifiers<zcash_client_sqlite::AccountUuid>,
}

fn scan_env(u: &Universe) -> ScanEnv {
    let mut w = db::new_wallet(u, 4, false);
    let src = u.source(0);
    scan_cached_blocks(&u.network, &src, &mut w.db, BlockHeight::from_u32(FIRST), &u.genesis, 1).expect("setup scan");
    let keys = ScanningKeys::from_account_ufvks(w.db.get_unified_full_viewing_keys().expect("ufvks"));
    let nullifiers = Nullifiers::unspent(&w.db).expect("nullifiers");
    ScanEnv { w, keys, nullifiers }
}

fn prior_meta(u: &Universe, h: u32) -> BlockMetadata {
    let st = u.state_before(0, h);
    BlockMetadata::from_parts(
        st.block_height(),
        st.block_hash(),
        Some(st.final_sapling_tree().tree_size() as u32),
        Some(st.final_orchard_tree().tree_size() as u32),
        Some(st.final_ironwood_tree().tree_size() as u32),
    )
}

/// Compare one ScannedBlock with the ground truth of block `h` of chain 0.
fn compare(env: &ScanEnv, u: &Universe, h: u32, sb: &zcash_client_backend::data_api::ScannedBlock<zcash_client_sqlite::AccountUuid>) -> Result<Vec<String>, String> {
    let rec = &u.chains[0].blocks[&h];
    let acct = |o: Owner| if o == A { env.w.acct_a } else { env.w.acct_b };
    let mut outcomes = vec![];
    // expected receipts / spends per txid
    let mut want_recv: BTreeSet<String> = BTreeSet::new();
    let mut want_spend: BTreeSet<String> = BTreeSet::new();
    let tracked: BTreeSet<Vec<u8>> = env.nullifiers.sapling().iter().map(|(_, n)| n.0.to_vec()).chain(env.nullifiers.orchard().iter().map(|(_, n)| n.to_bytes().to_vec())).chain(env.nullifiers.ironwood().iter().map(|(_, n)| n.to_bytes().to_vec())).collect();
    for t in &rec.txs {
        for id in &t.created {
            let n = &u.notes[*id];
            if n.owner != Foreign {
                let scope = if n.scope == Internal { "Internal" } else { "External" };
                want_recv.insert(format!("{}|{:?}|{}|{:?}|{}|{}|{}|{}", hex::encode(n.txid), n.pool, n.output_index, acct(n.owner), n.value, scope, n.position, hex::encode(n.nf.bytes())));
            }
        }
        for id in &t.spent {
            let n = &u.notes[*id];
            if n.owner != Foreign && tracked.contains(&n.nf.bytes()) {
                want_spend.insert(format!("{}|{:?}|{:?}|{}", hex::encode(t.txid), n.pool, acct(n.owner), hex::encode(n.nf.bytes())));
            }
        }
    }
    let mut got_recv = BTreeSet::new();
    let mut got_spend = BTreeSet::new();
    for wtx in sb.transactions() {
        let txid = hex::encode(<[u8; 32]>::from(wtx.txid()));
        for o in wtx.sapling_outputs() {
            got_recv.insert(format!(
                "{txid}|Sapling|{}|{:?}|{}|{:?}|{}|{}",
                o.index(),
                o.account_id(),
                o.note().value().inner(),
                o.recipient_key_scope().expect("scope"),
                u64::from(o.note_commitment_tree_position()),
                o.nf().map(|n| hex::encode(n.0)).unwrap_or_default()
            ));
        }
        for (pool, outs) in [("Orchard", wtx.orchard_outputs()), ("Ironwood", wtx.ironwood_outputs())] {
            for o in outs {
                if format!("{:?}", o.note().1) != pool {
                    return Err(format!("output in the {pool} bundle reported with value pool {:?}", o.note().1));
                }
                got_recv.insert(format!(
                    "{txid}|{pool}|{}|{:?}|{}|{:?}|{}|{}",
                    o.index(),
                    o.account_id(),
                    o.note().0.value().inner(),
                    o.recipient_key_scope().expect("scope"),
                    u64::from(o.note_commitment_tree_position()),
                    o.nf().map(|n| hex::encode(n.to_bytes())).unwrap_or_default()
                ));
            }
        }
        for s in wtx.sapling_spends() {
            got_spend.insert(format!("{txid}|Sapling|{:?}|{}", s.account_id(), hex::encode(s.nf().0)));
        }
        for s in wtx.orchard_spends() {
            got_spend.insert(format!("{txid}|Orchard|{:?}|{}", s.account_id(), hex::encode(s.nf().to_bytes())));
        }
        for s in wtx.ironwood_spends() {
            got_spend.insert(format!("{txid}|Ironwood|{:?}|{}", s.account_id(), hex::encode(s.nf().to_bytes())));
        }
    }
    if got_recv != want_recv {
        return Err(format!(
            "received outputs differ from ground truth: missing {:?} unexpected {:?}",
            want_recv.difference(&got_recv).take(2).collect::<Vec<_>>(),
            got_recv.difference(&want_recv).take(2).collect::<Vec<_>>()
        ));
    }
    if got_spend != want_spend {
        return Err(format!(
            "reported spends differ from ground truth: missing {:?} unexpected {:?}",
            want_spend.difference(&got_spend).take(2).collect::<Vec<_>>(),
            got_spend.difference(&want_spend).take(2).collect::<Vec<_>>()
        ));
    }
    // commitments in block order + final tree sizes
    let cms_s: Vec<[u8; 32]> = rec.cb.vtx.iter().flat_map(|t| t.outputs.iter().map(|o| <[u8; 32]>::try_from(o.cmu.clone()).unwrap())).collect();
    let cms_o: Vec<[u8; 32]> = rec.cb.vtx.iter().flat_map(|t| t.actions.iter().map(|o| <[u8; 32]>::try_from(o.cmx.clone()).unwrap())).collect();
    let cms_i: Vec<[u8; 32]> = rec.cb.vtx.iter().flat_map(|t| t.ironwood_actions.iter().map(|o| <[u8; 32]>::try_from(o.cmx.clone()).unwrap())).collect();
    let got_s: Vec<[u8; 32]> = sb.sapling().commitments().iter().map(|(n, _)| n.to_bytes()).collect();
    let got_o: Vec<[u8; 32]> = sb.orchard().commitments().iter().map(|(n, _)| n.to_bytes()).collect();
    let got_i: Vec<[u8; 32]> = sb.ironwood().commitments().iter().map(|(n, _)| n.to_bytes()).collect();
    if got_s != cms_s || got_o != cms_o || got_i != cms_i {
        return Err("note commitments are not returned in block order".into());
    }
    let st = &rec.state_after;
    let want_sizes = (st.final_sapling_tree().tree_size() as u32, st.final_orchard_tree().tree_size() as u32, st.final_ironwood_tree().tree_size() as u32);
    let got_sizes = (sb.sapling().final_tree_size(), sb.orchard().final_tree_size(), sb.ironwood().final_tree_size());
    if want_sizes != got_sizes {
        return Err(format!("final tree sizes {got_sizes:?} != {want_sizes:?}"));
    }
    if u32::from(sb.height()) != h || sb.block_hash() != st.block_hash() {
        return Err("scanned block height/hash differ from the block".into());
    }
    outcomes.push(format!("recv:{}", want_recv.len().min(3)));
    outcomes.push(format!("spend:{}", want_spend.len().min(2)));
    if rec.txs.iter().any(|t| t.spent.iter().any(|i| u.notes[*i].owner == Foreign)) {
        outcomes.push("untracked-spend-ignored".into());
    }
    Ok(outcomes)
}

fn case_a(base_u: &Universe, env: &ScanEnv, spec: &BlockSpec, seed: u64, with_prior: bool, with_meta: bool) -> Result<Vec<String>, String> {
    let mut u = base_u.clone();
    u.extend(0, None, &[spec.clone()], seed);
    let h = FIRST + 1;
    let mut cb = u.chains[0].blocks[&h].cb.clone();
    if !with_meta {
        cb.chain_metadata = None;
    }
    let pm = prior_meta(&u, h);
    let r = mc_core::catch(|| scan_block(&u.network, cb, &env.keys, &env.nullifiers, if with_prior { Some(&pm) } else { None }));
    match r {
        Err(p) => Err(format!("panic in scan_block: {p}")),
        Ok(Err(e)) => {
            if !with_prior && !with_meta {
                // documented: tree sizes unknown without either source
                Ok(vec![format!("refused-without-tree-size-source:{}", matches!(e, zcash_client_backend::scanning::ScanError::TreeSizeUnknown { .. }))])
            } else {
                Err(format!("scan_block refused a well-formed connected block: {e:?}"))
            }
        }
        Ok(Ok(sb)) => {
            if !with_prior && !with_meta {
                return Err("scan_block accepted a block with neither prior metadata nor chain metadata after activation".into());
            }
            compare(env, &u, h, &sb)
        }
    }
}

// ------------------------------------------------------------------------------------------------
// (b) malformation lattice
// ------------------------------------------------------------------------------------------------

fn representative() -> BlockSpec {
    block(vec![
        tx(vec![spend("a1"), okind(2, Sapling, 40_000), okind(4, Sapling, 9_000), okind(0, Orchard, 8_000)]),
        tx(vec![okind(3, Ironwood, 7_000), okind(1, Sapling, 6_000)]),
    ])
}

fn corruptions() -> Vec<(String, Box<dyn Fn(&mut CompactBlock) + Send + Sync>)> {
    let mut v: Vec<(String, Box<dyn Fn(&mut CompactBlock) + Send + Sync>)> = vec![];
    v.push(("height-1".into(), Box::new(|b| b.height -= 1)));
    v.push(("height+1".into(), Box::new(|b| b.height += 1)));
    v.push(("prev_hash-bit".into(), Box::new(|b| b.prev_hash[0] ^= 1)));
    v.push(("prev_hash-last-bit".into(), Box::new(|b| b.prev_hash[31] ^= 0x80)));
    v.push(("prev_hash:empty".into(), Box::new(|b| b.prev_hash.clear())));
    v.push(("prev_hash:-1".into(), Box::new(|b| {
        b.prev_hash.pop();
    })));
    v.push(("prev_hash:+1".into(), Box::new(|b| b.prev_hash.push(0))));
    v.push(("height:2^32".into(), Box::new(|b| b.height = 1 << 32)));
    for pool in 0..3usize {
        for (name, f) in [("-1", -1i64), ("+1", 1), ("=0", i64::MIN)] {
            v.push((
                format!("tree-size:{pool}:{name}"),
                Box::new(move |b| {
                    let m = b.chain_metadata.as_mut().unwrap();
                    let field = match pool {
                        0 => &mut m.sapling_commitment_tree_size,
                        1 => &mut m.orchard_commitment_tree_size,
                        _ => &mut m.ironwood_commitment_tree_size,
                    };
                    *field = if f == i64::MIN { 0 } else { (*field as i64 + f) as u32 };
                }),
            ));
        }
    }
    // fixed-length fields with wrong lengths
    for (lname, delta) in [("empty", None), ("-1", Some(-1i64)), ("+1", Some(1))] {
        let adj = move |x: &mut Vec<u8>| match delta {
            None => x.clear(),
            Some(-1) => {
                x.pop();
            }
            _ => x.push(0),
        };
        v.push((format!("sapling-cmu:{lname}"), Box::new(move |b| adj(&mut b.vtx[0].outputs[0].cmu))));
        v.push((format!("sapling-epk:{lname}"), Box::new(move |b| adj(&mut b.vtx[0].outputs[1].ephemeral_key))));
        v.push((format!("sapling-ciphertext:{lname}"), Box::new(move |b| adj(&mut b.vtx[1].outputs[0].ciphertext))));
        v.push((format!("sapling-nf:{lname}"), Box::new(move |b| adj(&mut b.vtx[0].spends[0].nf))));
        v.push((format!("orchard-cmx:{lname}"), Box::new(move |b| adj(&mut b.vtx[0].actions[0].cmx))));
        v.push((format!("orchard-nf:{lname}"), Box::new(move |b| adj(&mut b.vtx[0].actions[0].nullifier))));
        v.push((format!("orchard-epk:{lname}"), Box::new(move |b| adj(&mut b.vtx[0].actions[0].ephemeral_key))));
        v.push((format!("orchard-ciphertext:{lname}"), Box::new(move |b| adj(&mut b.vtx[0].actions[0].ciphertext))));
        v.push((format!("ironwood-cmx:{lname}"), Box::new(move |b| adj(&mut b.vtx[1].ironwood_actions[0].cmx))));
        v.push((format!("ironwood-nf:{lname}"), Box::new(move |b| adj(&mut b.vtx[1].ironwood_actions[0].nullifier))));
        v.push((format!("ironwood-ciphertext:{lname}"), Box::new(move |b| adj(&mut b.vtx[1].ironwood_actions[0].ciphertext))));
        v.push((format!("txid:{lname}"), Box::new(move |b| adj(&mut b.vtx[1].txid))));
        v.push((format!("block-hash:{lname}"), Box::new(move |b| adj(&mut b.hash))));
    }
    // non-canonical field elements
    v.push(("sapling-cmu:noncanonical".into(), Box::new(|b| b.vtx[0].outputs[0].cmu = vec![0xff; 32])));
    v.push(("orchard-cmx:noncanonical".into(), Box::new(|b| b.vtx[0].actions[0].cmx = vec![0xff; 32])));
    v.push(("orchard-nf:noncanonical".into(), Box::new(|b| b.vtx[0].actions[0].nullifier = vec![0xff; 32])));
    v
}

struct OneBlockSource {
    blocks: Vec<CompactBlock>,
}
impl BlockSource for OneBlockSource {
    type Error = std::convert::Infallible;
    fn with_blocks<F, WalletErrT>(&self, from_height: Option<BlockHeight>, limit: Option<usize>, mut with_block: F) -> Result<(), ChainError<WalletErrT, Self::Error>>
    where
        F: FnMut(CompactBlock) -> Result<(), ChainError<WalletErrT, Self::Error>>,
    {
        let _ = from_height;
        for b in self.blocks.iter().take(limit.unwrap_or(usize::MAX)) {
            with_block(b.clone())?;
        }
        Ok(())
    }
}

fn case_b(base_u: &Universe, env: &mut ScanEnv, name: &str, f: &(dyn Fn(&mut CompactBlock) + Send + Sync), snap: &db::Snapshot) -> Result<Vec<String>, String> {
    let mut u = base_u.clone();
    u.extend(0, None, &[representative()], 77);
    let h = FIRST + 1;
    let good = u.chains[0].blocks[&h].cb.clone();
    let mut cb = good.clone();
    f(&mut cb);
    let pm = prior_meta(&u, h);
    // 1. directly
    let bad = cb.clone();
    let r = mc_core::catch(|| scan_block(&u.network, bad, &env.keys, &env.nullifiers, Some(&pm)));
    let kind = match r {
        Err(p) => return Err(format!("{name}: panic in scan_block on a malformed block: {p}")),
        Ok(Ok(_)) => return Err(format!("{name}: scan_block accepted the corrupted block")),
        Ok(Err(e)) => format!("{e:?}").split([' ', '{', '(']).next().unwrap_or("").to_string(),
    };
    // 2. through scan_cached_blocks on the wallet: error, nothing applied, also when the bad block
    //    is the second of a batch
    for lead_good in [false, true] {
        db::restore(env.w.db.conn_mut(), snap);
        env.w.refresh_accounts();
        let pre = db::dump_digest(env.w.db.conn(), &[]);
        let (src, from, st) = if lead_good {
            // batch = [setup block (already scanned: a re-scan), corrupted block]
            (OneBlockSource { blocks: vec![u.chains[0].blocks[&FIRST].cb.clone(), cb.clone()] }, FIRST, u.genesis.clone())
        } else {
            (OneBlockSource { blocks: vec![cb.clone()] }, h, u.state_before(0, h).clone())
        };
        let r = mc_core::catch(|| scan_cached_blocks(&u.network, &src, &mut env.w.db, BlockHeight::from_u32(from), &st, 2));
        match r {
            Err(p) => return Err(format!("{name}: panic in scan_cached_blocks on a malformed block: {p}")),
            Ok(Ok(_)) => return Err(format!("{name}: scan_cached_blocks accepted the corrupted block")),
            Ok(Err(_)) => {}
        }
        if db::dump_digest(env.w.db.conn(), &[]) != pre {
            return Err(format!("{name}: scan_cached_blocks failed on the corrupted block but the wallet database changed (partially applied)"));
        }
    }
    Ok(vec![format!("rejected:{kind}")])
}

// ------------------------------------------------------------------------------------------------
// (c) schedules of the batched decryptor
// ------------------------------------------------------------------------------------------------

fn many(pool: Pool, n: usize, wallet_at: &[(usize, Owner, Scope, u64)]) -> TxSpec {
    let mut items = vec![];
    for i in 0..n {
        if let Some((_, o, s, v)) = wallet_at.iter().find(|w| w.0 == i) {
            items.push((None, Item::Out { owner: *o, pool, scope: *s, value: *v }));
        } else {
            items.push(foreign(pool, 1_000 + i as u64));
        }
    }
    tx(items)
}

/// Blocks with enough outputs for several batches per pool (threshold 100, hard-coded in
/// scan_cached_blocks): the threshold is hit exactly, exceeded inside one transaction, missed by
/// one, and a trailing partial batch is flushed at the end.
pub fn batchy(level: usize) -> Universe {
    let mut u = base((5, 7));
    let mut blocks = vec![
        // sapling 60 + 60 -> first batch (120); orchard 100 exactly -> one batch
        block(vec![
            many(Sapling, 60, &[(0, A, External, 51_000), (59, B, External, 52_000)]),
            many(Sapling, 60, &[(30, A, Internal, 53_000)]),
            many(Orchard, 100, &[(99, A, External, 54_000), (0, B, External, 55_000)]),
        ]),
        // sapling 99 (no flush) then 1 -> exactly 100 -> second batch; spend of a1 and a2
        block(vec![
            many(Sapling, 99, &[(98, A, Diversified, 56_000)]),
            tx(vec![spend("a1"), okind(2, Sapling, 57_000)]),
            tx(vec![spend("a2"), okind(2, Orchard, 58_000)]),
            // notes received here and spent in the NEXT block of the same scan batch, one per pool
            tx(vec![out("rs", A, Sapling, External, 71_000), out("ro", A, Orchard, External, 72_000), out("ri", A, Ironwood, External, 73_000)]),
        ]),
        block(vec![tx(vec![spend("rs"), okind(2, Sapling, 66_000)]), tx(vec![spend("ro"), okind(2, Orchard, 67_000)]), tx(vec![spend("ri"), okind(2, Ironwood, 68_000)])]),
    ];
    if level >= 1 {
        // ironwood 50 + 51 -> one batch; orchard 3 (+1 from the spend above) -> trailing batch
        blocks.push(block(vec![many(Ironwood, 50, &[(49, A, External, 59_000)]), many(Ironwood, 51, &[(0, B, External, 60_000), (50, A, Internal, 61_000)]), many(Orchard, 3, &[(1, A, Internal, 62_000)])]));
    }
    if level >= 2 {
        // sapling 101 in one transaction -> third batch; 5 more -> trailing batch
        blocks.push(block(vec![many(Sapling, 101, &[(100, A, External, 63_000)]), many(Sapling, 5, &[(4, B, External, 64_000), (0, A, External, 65_000)])]));
    }
    u.extend(0, None, &blocks, 500 + level as u64);
    u
}

#[derive(Default)]
struct Sched {
    queue: Vec<(usize, verif_exec::Job)>,
    submitted: usize,
    prefix: Vec<usize>,
    /// (queue length, choice) at every decision point
    points: Vec<(usize, usize)>,
    ran: Vec<usize>,
    stuck: bool,
}

struct Exec(Rc<RefCell<Sched>>);
impl verif_exec::Executor for Exec {
    fn spawn(&mut self, job: verif_exec::Job) {
        let mut s = self.0.borrow_mut();
        let id = s.submitted;
        s.submitted += 1;
        s.queue.push((id, job));
    }
    fn next(&mut self) -> Option<verif_exec::Job> {
        let mut s = self.0.borrow_mut();
        if s.queue.is_empty() {
            return None;
        }
        let i = s.points.len();
        let c = s.prefix.get(i).copied().unwrap_or(0);
        let q = s.queue.len();
        if c >= q {
            panic!("MACHINERY: schedule prefix diverged (choice {c} of {q})");
        }
        s.points.push((q, c));
        let (id, job) = s.queue.remove(c);
        s.ran.push(id);
        Some(job)
    }
    fn stuck(&mut self) {
        self.0.borrow_mut().stuck = true;
        panic!("DEADLOCK: scan is waiting for decryption results of a transaction but no submitted batch task is left to produce them");
    }
}

struct SchedResult {
    points: Vec<(usize, usize)>,
    ran: Vec<usize>,
    jobs: usize,
    canon: u128,
    summary: String,
}

fn run_schedule(u: &Universe, cx: &graph::Ctx, w: &mut Wallet, snap: &db::Snapshot, prefix: &[usize]) -> Result<SchedResult, String> {
    db::restore(w.db.conn_mut(), snap);
    w.refresh_accounts();
    let shared = Rc::new(RefCell::new(Sched { prefix: prefix.to_vec(), ..Default::default() }));
    verif_exec::install(Box::new(Exec(shared.clone())));
    let ctip = u.chains[0].tip();
    let mut m = Model::default();
    m.scanned.insert(FIRST);
    m.tip = Some(FIRST);
    for t in &u.chains[0].blocks[&FIRST].txs {
        m.seen.insert(t.txid, FIRST);
    }
    let r = graph::apply(w, u, &m, &Op::Scan { from: FIRST + 1, to: ctip });
    verif_exec::uninstall();
    // leftover tasks (none expected after a successful scan) must run without panicking
    let leftovers: Vec<(usize, verif_exec::Job)> = std::mem::take(&mut shared.borrow_mut().queue);
    let n_left = leftovers.len();
    for (_, job) in leftovers {
        if let Err(p) = mc_core::catch(job) {
            return Err(format!("a batch task that was never awaited panicked when run after the scan: {p}"));
        }
    }
    let s = shared.borrow();
    let model = match r {
        Err(e) => return Err(format!("schedule {:?}: {e}", s.ran)),
        Ok(graph::StepResult::Refused(why)) => return Err(format!("schedule {:?}: refused {why}", s.ran)),
        Ok(graph::StepResult::Done(n)) => n,
    };
    if n_left > 0 {
        return Err(format!("schedule {:?}: {n_left} submitted batch tasks were never needed by any transaction", s.ran));
    }
    graph::check_balance(w, cx, &model).map_err(|e| format!("schedule {:?} (task run order): {e}", s.ran))?;
    let summary = format!("{:?}", db::query_rows(w.db.conn(), "SELECT count(*) FROM sapling_received_notes UNION ALL SELECT count(*) FROM orchard_received_notes UNION ALL SELECT count(*) FROM ironwood_received_notes"));
    Ok(SchedResult { points: s.points.clone(), ran: s.ran.clone(), jobs: s.submitted, canon: mc_core::key128(&graph::canon(w.db.conn())), summary })
}

/// Inline (runner-less) path: scan_block + put_blocks per block.
fn inline_path(u: &Universe, cx: &graph::Ctx, w: &mut Wallet, snap: &db::Snapshot) -> Result<Vec<String>, String> {
    db::restore(w.db.conn_mut(), snap);
    w.refresh_accounts();
    let ctip = u.chains[0].tip();
    let keys = ScanningKeys::from_account_ufvks(w.db.get_unified_full_viewing_keys().map_err(|e| format!("{e:?}"))?);
    let mut m = Model::default();
    m.scanned.insert(FIRST);
    m.tip = Some(FIRST);
    for t in &u.chains[0].blocks[&FIRST].txs {
        m.seen.insert(t.txid, FIRST);
    }
    for h in FIRST + 1..=ctip {
        let nfs = Nullifiers::unspent(&w.db).map_err(|e| format!("{e:?}"))?;
        let pm = prior_meta(u, h);
        let sb = scan_block(&u.network, u.chains[0].blocks[&h].cb.clone(), &keys, &nfs, Some(&pm)).map_err(|e| format!("inline scan_block: {e:?}"))?;
        w.db.put_blocks(u.state_before(0, h), vec![sb]).map_err(|e| format!("inline put_blocks: {e:?}"))?;
        m.scanned.insert(h);
        m.tip = Some(h);
        for t in &u.chains[0].blocks[&h].txs {
            if t.created.iter().chain(&t.spent).any(|i| u.notes[*i].owner != Foreign) {
                m.seen.entry(t.txid).or_insert(h);
            }
        }
    }
    graph::check_balance(w, cx, &m).map_err(|e| format!("inline path: {e}"))?;
    let mut rows = vec![];
    for p in POOLS {
        rows.extend(db::query_rows(w.db.conn(), &graph::notes_sql(p, false)));
        rows.extend(db::query_rows(w.db.conn(), &graph::spends_sql(p, false)));
    }
    Ok(rows)
}

fn schedules(run: &Run, level: usize, bound: usize, wall_cap: f64, t0: Instant) {
    let u = batchy(level);
    let cfg = graph::Cfg {
        retention: 4,
        max_rewinds: 0,
        max_depth: 0,
        check_balance: true,
        check_trees: false,
        check_queue: false,
        wall_cap_s: 0.0,
        state_cap: 0,
        tips: vec![],
        rewind_heights: vec![],
        splits: vec![],
        with_roots: false,
        with_client: false,
        with_rewind_state: false, with_witness: false,
        free_scans: false,
        segment_scans: false,
        max_run: usize::MAX,
        witness_subset: 0,
    };
    let cx = graph::Ctx { u: &u, cfg: &cfg, fresh: vec![graph::FreshRef::default()] };
    // pre-state: setup block scanned, tip known
    let mut w0 = db::new_wallet(&u, 4, false);
    scan_cached_blocks(&u.network, &u.source(0), &mut w0.db, BlockHeight::from_u32(FIRST), &u.genesis, 1).expect("setup scan");
    let snap = db::snapshot(w0.db.conn());
    // inline reference
    let inline_rows = match inline_path(&u, &cx, &mut w0, &snap) {
        Ok(r) => r,
        Err(e) => {
            run.fail("inline", format!("inline:level{level}"), e, json!({"level": level}));
            return;
        }
    };
    // iterative deviation-bounded DFS over schedule prefixes, one level of the prefix tree at a time
    let mut frontier: Vec<Vec<usize>> = vec![vec![]];
    let mut canon0: Option<u128> = None;
    let mut total = 0u64;
    let mut jobs_seen = 0usize;
    let fails: Mutex<Vec<(Vec<usize>, String)>> = Mutex::new(vec![]);
    let mut distinct_orders: BTreeSet<Vec<usize>> = BTreeSet::new();
    let mut first = true;
    while !frontier.is_empty() {
        // the FIFO schedule always runs; the cap applies to the deviations
        if !std::mem::replace(&mut first, false) && t0.elapsed().as_secs_f64() > wall_cap {
            run.cap_hit(&format!("schedules level {level}: wall cap {wall_cap}s with {} schedule prefixes unexplored", frontier.len()));
            break;
        }
        let results: Vec<Option<(Vec<usize>, SchedResult, Vec<String>)>> = par_map(
            &frontier,
            || db::new_wallet(&u, 4, false),
            |w, prefix| {
                if !prefix.is_empty() && t0.elapsed().as_secs_f64() > wall_cap + 5.0 {
                    return None;
                }
                match run_schedule(&u, &cx, w, &snap, prefix) {
                    Err(e) => {
                        fails.lock().unwrap().push((prefix.clone(), e));
                        None
                    }
                    Ok(r) => {
                        let mut rows = vec![];
                        for p in POOLS {
                            rows.extend(db::query_rows(w.db.conn(), &graph::notes_sql(p, false)));
                            rows.extend(db::query_rows(w.db.conn(), &graph::spends_sql(p, false)));
                        }
                        Some((prefix.clone(), r, rows))
                    }
                }
            },
        );
        let mut next = vec![];
        for (prefix, r, rows) in results.into_iter().flatten() {
            total += 1;
            jobs_seen = jobs_seen.max(r.jobs);
            distinct_orders.insert(r.ran.clone());
            if rows != inline_rows {
                fails.lock().unwrap().push((prefix.clone(), format!("batched scan with task order {:?} stores different notes/spends than the inline path", r.ran)));
            }
            match canon0 {
                None => canon0 = Some(r.canon),
                Some(c) if c != r.canon => fails.lock().unwrap().push((prefix.clone(), format!("wallet state after task order {:?} differs from the state after FIFO order ({})", r.ran, r.summary))),
                _ => {}
            }
            // children: deviate at one later decision point
            let devs = prefix.iter().filter(|c| **c != 0).count();
            if devs < bound {
                for i in prefix.len()..r.points.len() {
                    for alt in 1..r.points[i].0 {
                        let mut p: Vec<usize> = r.points[..i].iter().map(|x| x.1).collect();
                        p.push(alt);
                        next.push(p);
                    }
                }
            }
        }
        frontier = next;
    }
    run.add_graph(distinct_orders.len() as u64, total, total);
    run.eval_distinct(total);
    run.outcome_n(&format!("schedules:level{level}:jobs{jobs_seen}"), total);
    run.section(&format!("schedules_level{level}"), json!({"batch_tasks": jobs_seen, "schedules_run": total, "distinct_task_orders": distinct_orders.len(), "deviation_bound": bound, "outputs_scanned": u.notes.len()}));
    if let Some(o) = distinct_orders.iter().nth(1) {
        run.sample(json!({"level": level, "task_run_order": o}));
    }
    for (prefix, msg) in fails.into_inner().unwrap() {
        if msg.contains("MACHINERY") {
            mc_core::machinery_error(&msg);
        }
        run.fail("schedule", format!("schedule:level{level}:{prefix:?}"), msg, json!({"level": level, "prefix": prefix}));
    }
}

// ------------------------------------------------------------------------------------------------

pub fn replay(kind: &str, case: &Value) -> Result<(), String> {
    match kind {
        "shape" => {
            let g = case["genesis"].as_u64().unwrap_or(0);
            let base_u = base(if g == 0 { (0, 0) } else { (5, 7) });
            let env = scan_env(&base_u);
            let name = case["shape"].as_str().unwrap_or("");
            let (i, (_, spec)) = shapes().into_iter().enumerate().find(|(_, s)| s.0 == name).ok_or("unknown shape")?;
            case_a(&base_u, &env, &spec, 1000 + i as u64, case["with_prior"].as_bool().unwrap_or(true), case["with_meta"].as_bool().unwrap_or(true)).map(|_| ())
        }
        "corruption" => {
            let base_u = base((5, 7));
            let mut env = scan_env(&base_u);
            let snap = db::snapshot(env.w.db.conn());
            let name = case["name"].as_str().unwrap_or("");
            let (_, f) = corruptions().into_iter().find(|c| c.0 == name).ok_or("unknown corruption")?;
            case_b(&base_u, &mut env, name, f.as_ref(), &snap).map(|_| ())
        }
        "schedule" | "inline" => {
            let level = case["level"].as_u64().unwrap_or(0) as usize;
            let u = batchy(level);
            let cfg = graph::Cfg { retention: 4, max_rewinds: 0, max_depth: 0, check_balance: true, check_trees: false, check_queue: false, wall_cap_s: 0.0, state_cap: 0, tips: vec![], rewind_heights: vec![], splits: vec![], with_roots: false, with_client: false, with_rewind_state: false, with_witness: false, free_scans: false, segment_scans: false, max_run: usize::MAX, witness_subset: 0 };
            let cx = graph::Ctx { u: &u, cfg: &cfg, fresh: vec![graph::FreshRef::default()] };
            let mut w = db::new_wallet(&u, 4, false);
            scan_cached_blocks(&u.network, &u.source(0), &mut w.db, BlockHeight::from_u32(FIRST), &u.genesis, 1).expect("setup scan");
            let snap = db::snapshot(w.db.conn());
            let inline_rows = inline_path(&u, &cx, &mut w, &snap)?;
            if kind == "inline" {
                return Ok(());
            }
            let prefix: Vec<usize> = serde_json::from_value(case["prefix"].clone()).map_err(|e| e.to_string())?;
            let fifo = run_schedule(&u, &cx, &mut w, &snap, &[])?;
            let r = run_schedule(&u, &cx, &mut w, &snap, &prefix)?;
            let mut rows = vec![];
            for p in POOLS {
                rows.extend(db::query_rows(w.db.conn(), &graph::notes_sql(p, false)));
                rows.extend(db::query_rows(w.db.conn(), &graph::spends_sql(p, false)));
            }
            if rows != inline_rows {
                return Err(format!("batched scan with task order {:?} stores different notes/spends than the inline path", r.ran));
            }
            if r.canon != fifo.canon {
                return Err(format!("wallet state after task order {:?} differs from the state after FIFO order", r.ran));
            }
            Ok(())
        }
        _ => Err(format!("unknown kind {kind}")),
    }
}

pub fn run(args: &Args) -> i32 {
    let run = Run::new(args, "model_checking");
    let t0 = Instant::now();
    run.set_rule(
        "(a) every block of a shape lattice (kind lists per pool over {A-external, A-diversified, A-internal, B-external, foreign}, 1-3 transactions, \\
         spends of tracked/untracked nullifiers) x prior tree sizes x {prior metadata, chain metadata} through scanning::scan_block; (b) every single \\
         corruption of continuity metadata / field lengths through scan_block and scan_cached_blocks; (c) every run-to-completion order (within the \\
         deviation bound) of the batch trial-decryption tasks of scan_cached_blocks under a harness executor; cases are distinct by construction; \\
         oracle = generation-time ground truth, inline-path differential, identical wallet state across schedules",
    );
    run.assume("batch tasks share no memory and communicate only through per-transaction channels drained after disconnection, so exploring run-to-completion task orders covers every parallel execution that does not depend on arrival order (flume internals are not interleaved at instruction level)");
    run.assume("without prior block metadata and without chain metadata the tree sizes are unknowable after activation: refusal (TreeSizeUnknown) is the documented behaviour");
    // (a)
    let sh = shapes();
    run.section("shape_lattice_blocks", json!(sh.len()));
    for g in [0u64, 1] {
        let base_u = base(if g == 0 { (0, 0) } else { (5, 7) });
        let items: Vec<(usize, bool, bool)> = (0..sh.len()).flat_map(|i| [(i, true, true), (i, true, false), (i, false, true)].into_iter().chain(if i % 97 == 0 { vec![(i, false, false)] } else { vec![] })).collect();
        let fails: Mutex<Vec<(usize, bool, bool, String)>> = Mutex::new(vec![]);
        let outs: Mutex<BTreeMap<String, u64>> = Mutex::new(BTreeMap::new());
        par_map(
            &items,
            || scan_env(&base_u),
            |env, (i, wp, wm)| match case_a(&base_u, env, &sh[*i].1, 1000 + *i as u64, *wp, *wm) {
                Ok(o) => {
                    let mut gm = outs.lock().unwrap();
                    for x in o {
                        *gm.entry(format!("a:{x}")).or_insert(0) += 1;
                    }
                }
                Err(e) => fails.lock().unwrap().push((*i, *wp, *wm, e)),
            },
        );
        run.eval_distinct(items.len() as u64);
        for (k, v) in outs.into_inner().unwrap() {
            run.outcome_n(&k, v);
        }
        for (i, wp, wm, e) in fails.into_inner().unwrap() {
            run.fail("shape", format!("shape:g{g}:{}:prior={wp}:meta={wm}", sh[i].0), e, json!({"genesis": g, "shape": sh[i].0, "with_prior": wp, "with_meta": wm}));
        }
    }
    run.sample(json!({"shape": sh[40].0, "meaning": "one transaction, Sapling outputs to the listed recipient kinds (0=A external,1=A diversified,2=A internal,3=B external,4=foreign)"}));
    // (b)
    {
        let base_u = base((5, 7));
        let cs = corruptions();
        run.section("corruptions", json!(cs.len()));
        let mut env = scan_env(&base_u);
        let snap = db::snapshot(env.w.db.conn());
        for (name, f) in &cs {
            match case_b(&base_u, &mut env, name, f.as_ref(), &snap) {
                Ok(o) => {
                    for x in o {
                        run.outcome(&format!("b:{x}"));
                    }
                }
                Err(e) => run.fail("corruption", format!("corruption:{name}"), e, json!({"name": name})),
            }
        }
        run.eval_distinct(cs.len() as u64);
        run.sample(json!({"corruption": "tree-size:1:+1", "meaning": "orchard_commitment_tree_size in the block's chain metadata is one too large"}));
    }
    // (c)
    match args.tier {
        Tier::Quick => {
            schedules(&run, 0, 99, 32.0, t0);
            schedules(&run, 1, 1, 42.0, t0);
        }
        Tier::Thorough => {
            schedules(&run, 0, 99, 200.0, t0);
            schedules(&run, 1, 99, 500.0, t0);
            schedules(&run, 2, 99, 840.0, t0);
        }
    }
    run.require(run.outcomes_distinct() >= 8 || run.failure_count() > 0, "too few outcome classes");
    run.finish(&replay)
}
