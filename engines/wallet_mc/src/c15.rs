//! C15 — scan-queue dominance rule and sync termination.
//! (a) `spanning`: exhaustive insertion sequences on the real `SpanningTree` (explicit-state search).
//! (b) SQLite scan queue + light-client loop: explored on the wallet state graph (graph.rs) with
//!     client steps (scan a chunk of the first suggested range, from either end, three chunk sizes)
//!     interleaved with tip updates and rewinds; every client step must strictly reduce
//!     the number of unscanned blocks up to the tip (so the loop ends within #blocks steps) and a
//!     state with nothing suggested must have every block from the birthday to the tip scanned.
pub mod spanning;

use mc_core::{Args, Run, Tier};
use serde_json::{json, Value};

use crate::graph::{self, Ctx, Op};

fn setup(name: &str, depth: usize, rewinds: u32, wall: f64) -> (crate::universe::Universe, graph::Cfg) {
    let (u, mut cfg) = crate::c01::setup(name, depth, rewinds, wall);
    cfg.with_client = true;
    cfg.with_rewind_state = true;
    // subtree roots give the wallet shard metadata: without it update_chain_tip takes the linear
    // (Historic) path only and never creates ChainTip / Verify ranges
    cfg.with_roots = true;
    graph::TRACK_QUEUE_PRIORITIES.store(true, std::sync::atomic::Ordering::Relaxed);
    if name == "tiny" {
        // a tip exactly PRUNING_DEPTH (100) above the end of S3: with the maximum scanned height at
        // FIRST+4 / +3 / +5 this is the zero-length Verify range, one block of Verify, and the
        // steady-state ChainTip case of update_chain_tip (`max_scanned > stable_height`)
        cfg.tips.insert(0, crate::universes::FIRST + 104);
    }
    // The property quantifies over scans of *suggested* ranges, tip updates and rewinds: free scans
    // of ranges the wallet did not suggest (e.g. beyond the tip it knows) are outside its domain.
    cfg.free_scans = false;
    cfg.segment_scans = false;
    cfg.check_queue = true;
    (u, cfg)
}

pub fn replay(kind: &str, case: &Value) -> Result<(), String> {
    if kind.starts_with("spanning") {
        return spanning::replay(kind, case);
    }
    if kind != "history" {
        return Err(format!("C15: unknown replay kind {kind}"));
    }
    let name = case["universe"].as_str().unwrap_or("tiny");
    let ops: Vec<Op> = serde_json::from_value(case["ops"].clone()).map_err(|e| e.to_string())?;
    let (u, cfg) = setup(name, 99, 9, 1e9);
    let cx = Ctx { u: &u, cfg: &cfg, fresh: vec![] };
    graph::replay_history(&cx, &ops, &[&graph::check_queue])
}

pub fn run(args: &Args) -> i32 {
    let run = Run::new(args, "model_checking");
    run.set_rule(
        "(a) explicit-state search of every insertion sequence on the real SpanningTree (see section spanning); (b) explicit-state BFS over the real \
         SQLite wallet with operations ClientStep(first suggested range, from start|end, chunk 1|half|all), Tip(h), RewindToChainState(h), Rewind(h)+switch \
         branch; states matched on a canonical logical dump + reference model; a state is non-trivial when reached by at least one operation and distinct by that key",
    );
    run.assume("the priority of a height is Scanned exactly when its block is in the wallet on the current chain");
    run.assume("wallet-level priorities: after every operation the queue must equal, height by height, the documented insertions of that operation (scan_complete: Scanned over the scanned range; update_chain_tip: the tip-shard ChainTip range and the Historic / ChainTip / Verify connecting range as its comments define them; truncate_to_height: everything above the achieved height dropped; rewind_to_chain_state: dropped above the deepest checkpoint at or above max(target, pruning floor), then a forced Historic range above the target) applied through the documented dominance table to the queue before it; the FoundNote extension of scan_complete (which heights complete the shards of discovered notes) is not modelled: an unscanned height outside the scanned range may be FoundNote wherever the dominance rule yields FoundNote there");
    spanning::explore(&run);
    let plan: Vec<(&str, usize, u32, f64)> = match args.tier {
        Tier::Quick => vec![("tiny", 14, 1, 26.0)],
        Tier::Thorough => vec![("small", 14, 1, 300.0), ("mid", 12, 1, 400.0)],
    };
    for (name, depth, rewinds, wall) in plan {
        let (u, cfg) = setup(name, depth, rewinds, wall);
        let cx = Ctx { u: &u, cfg: &cfg, fresh: vec![] };
        let (stats, failures) = graph::search(&cx, &[&graph::check_queue]);
        crate::c01::record(&run, name, &u, &cfg, &stats, failures);
        run.require(stats.outcomes.contains_key("sync:complete") || run.failure_count() > 0, "no fully synced state reached");
    }
    run.sample(json!({"universe": "tiny", "ops": [Op::Tip{h: crate::universes::FIRST + 4}, Op::Client{from_end: true, size: 1}, Op::Client{from_end: false, size: 0}]}));
    run.finish(&replay)
}
