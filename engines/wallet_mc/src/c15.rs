//! C15 — scan-queue dominance rule and sync termination.
//! (a) `spanning`: exhaustive insertion sequences on the real `SpanningTree` (explicit-state search).
//! (b) SQLite scan queue + light-client loop: explored on the wallet state graph (graph.rs) with
//!     client steps (scan a chunk of the first suggested range, from either end, three chunk sizes)
//!     interleaved with tip updates and rewinds; every client step must strictly reduce
//!     the number of unscanned blocks up to the tip (so the loop ends within #blocks steps) and a
//!     state with nothing suggested must have every block from the birthday to the tip scanned.
pub mod spanning;

use mc_core::{Args, Run, Tier};
use serde_json::{json, Value};

use crate::graph::{self, Ctx, Op};

fn setup(name: &str, depth: usize, rewinds: u32, wall: f64) -> (crate::universe::Universe, graph::Cfg) {
    let (u, mut cfg) = crate::c01::setup(name, depth, rewinds, wall);
    cfg.with_client = true;
    cfg.with_rewind_state = true;
    // The property quantifies over scans of *suggested* ranges, tip updates and rewinds: free scans
    // of ranges the wallet did not suggest (e.g. beyond the tip it knows) are outside its domain.
    cfg.free_scans = false;
    cfg.segment_scans = false;
    cfg.check_queue = true;
    (u, cfg)
}

pub fn replay(kind: &str, case: &Value) -> Result<(), String> {
    if kind.starts_with("spanning") {
        return spanning::replay(kind, case);
    }
    if kind != "history" {
        return Err(format!("C15: unknown replay kind {kind}"));
    }
    let name = case["universe"].as_str().unwrap_or("tiny");
    let ops: Vec<Op> = serde_json::from_value(case["ops"].clone()).map_err(|e| e.to_string())?;
    let (u, cfg) = setup(name, 99, 9, 1e9);
    let cx = Ctx { u: &u, cfg: &cfg, fresh: vec![] };
    graph::replay_history(&cx, &ops, &[&graph::check_queue])
}

pub fn run(args: &Args) -> i32 {
    let run = Run::new(args, "model_checking");
    run.set_rule(
        "(a) explicit-state search of every insertion sequence on the real SpanningTree (see section spanning); (b) explicit-state BFS over the real \
         SQLite wallet with operations ClientStep(first suggested range, from start|end, chunk 1|half|all), Tip(h), RewindToChainState(h), Rewind(h)+switch \
         branch; states matched on a canonical logical dump + reference model; a state is non-trivial when reached by at least one operation and distinct by that key",
    );
    run.assume("the priority of a height is Scanned exactly when its block is in the wallet on the current chain; FoundNote / OpenAdjacent extensions are not constrained beyond the structural invariant");
    spanning::explore(&run);
    let plan: Vec<(&str, usize, u32, f64)> = match args.tier {
        Tier::Quick => vec![("tiny", 14, 1, 26.0)],
        Tier::Thorough => vec![("small", 14, 1, 300.0), ("mid", 12, 1, 400.0)],
    };
    for (name, depth, rewinds, wall) in plan {
        let (u, cfg) = setup(name, depth, rewinds, wall);
        let cx = Ctx { u: &u, cfg: &cfg, fresh: vec![] };
        let (stats, failures) = graph::search(&cx, &[&graph::check_queue]);
        crate::c01::record(&run, name, &u, &cfg, &stats, failures);
        run.require(stats.outcomes.contains_key("sync:complete") || run.failure_count() > 0, "no fully synced state reached");
    }
    run.sample(json!({"universe": "tiny", "ops": [Op::Tip{h: crate::universes::FIRST + 4}, Op::Client{from_end: true, size: 1}, Op::Client{from_end: false, size: 0}]}));
    run.finish(&replay)
}
