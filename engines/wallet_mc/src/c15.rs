//! C15 — scan-queue dominance rule and sync termination.
//! (a) `spanning`: exhaustive insertion sequences on the real `SpanningTree` (explicit-state search).
//! (b) SQLite scan queue + client-loop termination: evaluated on the wallet state graph (wallet.rs).
pub mod spanning;

use mc_core::{Args, Run};
use serde_json::Value;

pub fn replay(kind: &str, case: &Value) -> Result<(), String> {
    if kind.starts_with("spanning") {
        return spanning::replay(kind, case);
    }
    Err(format!("C15: unknown replay kind {kind}"))
}

pub fn run(args: &Args) -> i32 {
    let run = Run::new(args, "model_checking");
    spanning::explore(&run);
    run.finish(&replay)
}
