//! C01 — the wallet balance is exactly the ledger of unspent notes, in any scan order.
use mc_core::{Args, Run, Tier};
use serde_json::{json, Value};

use crate::graph::{self, Cfg, Ctx, Op};
use crate::universes;

pub fn setup(name: &str, tier_depth: usize, max_rewinds: u32, wall: f64) -> (crate::universe::Universe, Cfg) {
    let u = match name {
        "tiny" => universes::tiny(),
        "tiny-trees" => universes::tiny_trees(),
        "small" => universes::small(),
        "mid" => universes::mid(),
        _ => mc_core::machinery_error(&format!("unknown universe {name}")),
    };
    let f = universes::FIRST;
    let ends: Vec<u32> = u.seg_start.iter().skip(1).map(|s| s - 1).collect();
    let ctip = u.chains[0].tip();
    let cfg = Cfg {
        retention: 4,
        max_rewinds,
        max_depth: tier_depth,
        check_balance: true,
        check_trees: false,
        check_queue: false,
        wall_cap_s: wall,
        state_cap: 400_000,
        tips: match name {
            "tiny" | "tiny-trees" => vec![ctip, ctip + 3],
            "small" => vec![f + 3, ctip, ctip + 3],
            _ => vec![f + 3, f + 6, ctip, ctip + 50],
        },
        rewind_heights: match name {
            "tiny" | "tiny-trees" => vec![f, f + 1, f + 2],
            "small" => vec![f, f + 1, f + 2, f + 3, f + 4],
            _ => ends.iter().copied().filter(|h| *h < ctip).chain([f + 4, f + 60]).collect(),
        },
        with_roots: false,
        with_client: false,
        with_rewind_state: false, with_witness: false,
        free_scans: true,
        segment_scans: false,
        max_run: if name == "mid" { 2 } else { usize::MAX },
        witness_subset: 0,
        splits: match name {
            "tiny" | "tiny-trees" | "small" => vec![],
            _ => vec![f + 107],
        },
    };
    (u, cfg)
}

/// (universe, depth, rewinds, wall cap, segment-level alphabet?) — the segment-level alphabet (scans of
/// single segments only) runs first: it reaches every scanned-set with few operations, so it gets
/// deep (orders, repeats, rewind-then-backfill) even when the machine is slow; the free alphabet
/// (every contiguous run, i.e. every batching) follows.
fn params(tier: Tier) -> Vec<(&'static str, usize, u32, f64, bool)> {
    match tier {
        Tier::Quick => vec![("tiny", 8, 1, 24.0, true), ("tiny", 12, 1, 18.0, false)],
        Tier::Thorough => vec![("tiny", 14, 2, 120.0, true), ("tiny", 14, 2, 150.0, false), ("small", 12, 1, 280.0, false), ("mid", 8, 1, 300.0, false)],
    }
}

pub fn replay(kind: &str, case: &Value) -> Result<(), String> {
    if kind != "history" {
        return Err(format!("unknown kind {kind}"));
    }
    let name = case["universe"].as_str().unwrap_or("small");
    let ops: Vec<Op> = serde_json::from_value(case["ops"].clone()).map_err(|e| e.to_string())?;
    let (u, cfg) = setup(name, 99, 9, 1e9);
    let fresh = (0..u.chains.len()).map(|c| graph::fresh_reference(&u, &cfg, c)).collect();
    let cx = Ctx { u: &u, cfg: &cfg, fresh };
    graph::replay_history(&cx, &ops, &[&graph::check_balance])
}

pub fn run(args: &Args) -> i32 {
    let run = Run::new(args, "model_checking");
    run.set_rule(
        "explicit-state BFS over the real SQLite wallet: operations Scan(every contiguous run of segments/splits), Tip(h), Rewind(h)+switch to an \
         alternative branch; states matched on a canonical logical dump of the database + reference model; a state is non-trivial when it was \
         reached by at least one operation and is distinct by that key; oracle = generation-time ledger (balances, note rows, spent status) and \
         the differential against a fresh linear scan",
    );
    run.assume("expiry of an un-mined transaction with unknown expiry height is min_observed_height + 40 (documented in wallet/common.rs); while an orphaned transaction is unexpired only the bracket [ledger - spent_by_orphans, ledger + received_in_orphans] is required");
    run.assume("get_wallet_summary may return None while the wallet knows no chain tip");
    let (mut saw_complete, mut saw_spend) = (false, false);
    for (name, depth, rewinds, wall, seg_level) in params(args.tier) {
        let (u, mut cfg) = setup(name, depth, rewinds, wall);
        if seg_level {
            cfg.free_scans = false;
            cfg.segment_scans = true;
        }
        let name = if seg_level { format!("{name}-segments") } else { name.to_string() };
        let name = name.as_str();
        let fresh = (0..u.chains.len()).map(|c| graph::fresh_reference(&u, &cfg, c)).collect();
        let cx = Ctx { u: &u, cfg: &cfg, fresh };
        let (stats, failures) = graph::search(&cx, &[&graph::check_balance]);
        record(&run, name, &u, &cfg, &stats, failures);
        saw_complete |= stats.outcomes.contains_key("complete:matches-fresh");
        saw_spend |= stats.outcomes.contains_key("spends:some");
    }
    run.require(saw_complete || run.failure_count() > 0, "no fully scanned state reached in any search");
    run.require(saw_spend || run.failure_count() > 0, "no spend observed in any search");
    run.sample(json!({"universe": "tiny", "ops": [Op::Scan{from: universes::FIRST + 2, to: universes::FIRST + 2}, Op::Tip{h: universes::FIRST + 4}, Op::Scan{from: universes::FIRST, to: universes::FIRST + 1}, Op::Rewind{h: universes::FIRST + 1, switch: 1}]}));
    run.finish(&replay)
}

/// Record one search in the evidence.
pub fn record(run: &Run, name: &str, u: &crate::universe::Universe, cfg: &Cfg, stats: &graph::SearchStats, failures: Vec<graph::Failure>) {
    run.add_graph(stats.states, stats.transitions, stats.transitions);
    run.add_evaluations(stats.transitions);
    // every state after the initial one is distinct by the state key and reached by >= 1 operation
    run.eval_distinct_only(stats.states.saturating_sub(1));
    for (k, v) in &stats.outcomes {
        run.outcome_n(k, *v);
    }
    run.section(
        &format!("search_{name}"),
        json!({
            "universe": {"name": name, "blocks_main": u.chains[0].blocks.len(), "chains": u.chains.len(), "notes": u.notes.len(), "segments": u.seg_start.len() - 1},
            "states": stats.states, "transitions": stats.transitions, "refused_operations": stats.refused,
            "transitions_into_visited_states": stats.duplicates, "state_check_evaluations": stats.state_checks,
            "per_depth_frontier": stats.per_depth, "capped": stats.capped,
            "complete_within_bounds": stats.capped.is_none(),
            // every operation sequence up to this length was executed on the real wallet and checked
            "histories_complete_to_length": stats.max_depth,
            "frontier_at_depth_bound": if stats.per_depth.len() > cfg.max_depth { stats.per_depth.last().copied().unwrap_or(0) } else { 0 },
            "bounds": {"max_depth": cfg.max_depth, "max_rewinds": cfg.max_rewinds, "tips": cfg.tips, "rewind_heights": cfg.rewind_heights, "splits": cfg.splits,
                       "with_roots": cfg.with_roots, "with_client": cfg.with_client, "free_scans": cfg.free_scans, "segment_scans": cfg.segment_scans, "max_run": if cfg.max_run == usize::MAX { 0 } else { cfg.max_run }, "retention_interval": cfg.retention},
        }),
    );
    // The depth bound is a stated bound of the exploration (section "bounds"), not a cap: a search
    // that expanded every state up to it is complete within its bounds. Caps are the wall, state and
    // memory limits that cut a search short of its bounds.
    if let Some(c) = &stats.capped {
        run.cap_hit(&format!("{name}: {c}"));
    }
    for f in failures {
        let key = match f.signature() {
            Some(sig) => sig.to_string(),
            None => format!("{name}:{}", f.history.iter().map(|o| format!("{o:?}")).collect::<Vec<_>>().join(";")),
        };
        run.fail("history", key, f.msg, json!({"universe": name.trim_end_matches("-segments"), "ops": f.history}));
    }
}
