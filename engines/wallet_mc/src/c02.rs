//! C02 — wallet database writes are all-or-nothing and never observed half-applied.
//!
//! Fault enumeration on the real SQLite wallet through SQLite's own hooks:
//!   class 1  interrupt at every VM step of the operation        (progress_handler)
//!   class 2  failure of every statement compilation             (authorizer denying the k-th callback)
//!   class 3  crash at every commit boundary                     (commit_hook vetoing the k-th commit)
//!   class 4  a second connection snapshots the database at every p-th VM step of the writer
//!   class 5  the writer commits at every p-th VM step of a transactional multi-statement read
//! Oracle: canonical dump of every table. After a fault: the database equals the pre-state or the
//! post-state of an uninterrupted run, `Ok` only with the post-state; re-running a failed
//! operation succeeds and reaches the post-state (random identifiers masked).
pub mod migops;
pub mod ops;
pub mod twoconn;

use std::sync::atomic::{AtomicBool, AtomicI64, AtomicU64, Ordering};
use std::sync::{Arc, Mutex};
use std::time::Instant;

use mc_core::{Args, Run, Tier};
use rusqlite::hooks::{AuthAction, Authorization, TransactionOperation};
use rusqlite::Connection;
use serde_json::{json, Value};

use crate::db::{self, Wallet};
use crate::graph::par_map;
use ops::{Fixture, OpDef};

/// Columns whose content is freshly drawn randomness (masked when comparing a retry with an
/// uninterrupted run; never masked when comparing with the pre-state).
const MASK: &[(&str, &str)] = &[("accounts", "uuid"), ("addresses", "transparent_receiver_next_check_time"), ("orchard_ironwood_migrations", "uuid")];

/// Select list of one table. Unmasked: every column as stored. Masked: the MASK columns are left
/// out, and so is the surrogate key `addresses.id` - gap-limit addresses of several accounts are
/// generated in hash-map order, so the ids (not the rows) differ from run to run - with every
/// `address_id` reference replaced by the address's natural key.
fn select_list(conn: &Connection, t: &str, masked: bool) -> String {
    let cols: Vec<String> = {
        let mut st = conn.prepare(&format!("PRAGMA table_info(\"{t}\")")).unwrap();
        let r = st.query_map([], |r| r.get::<_, String>(1)).unwrap().map(|x| x.unwrap()).collect();
        r
    };
    let sel: Vec<String> = cols
        .iter()
        .filter(|c| !(masked && (MASK.iter().any(|(mt, mc)| *mt == t && mc == c) || (t == "addresses" && *c == "id"))))
        .map(|c| {
            if masked && c == "address_id" {
                format!("(SELECT a.account_id || ':' || a.key_scope || ':' || hex(a.diversifier_index_be) FROM addresses a WHERE a.id = \"{t}\".address_id)")
            } else {
                format!("\"{c}\"")
            }
        })
        .collect();
    sel.join(",")
}

/// Digest of every table. Unmasked (used against the pre-state): exact rows in storage order.
/// Masked (used to compare a retry with an uninterrupted run): see `select_list`; rows sorted.
pub fn digest(conn: &Connection, masked: bool) -> String {
    use sha2::{Digest, Sha256};
    let mut h = Sha256::new();
    for t in db::table_names(conn) {
        h.update(t.as_bytes());
        h.update([0]);
        let mut rows = db::query_rows(conn, &format!("SELECT {} FROM \"{t}\"", select_list(conn, &t, masked)));
        if masked {
            rows.sort();
        }
        for r in rows {
            h.update(r.as_bytes());
            h.update([1]);
        }
    }
    hex::encode(h.finalize())
}

/// The masked dump as lines "table|row" (for explaining a mismatch).
fn dump_lines(conn: &Connection) -> std::collections::BTreeSet<String> {
    let mut out = std::collections::BTreeSet::new();
    for t in db::table_names(conn) {
        for r in db::query_rows(conn, &format!("SELECT {} FROM \"{t}\"", select_list(conn, &t, true))) {
            out.insert(format!("{t}|{r}"));
        }
    }
    out
}

#[derive(Clone, Copy, Debug, PartialEq, Eq, PartialOrd, Ord, Hash, serde::Serialize, serde::Deserialize)]
pub enum Class {
    Step,
    Prepare,
    Commit,
}

/// Counters measured in a fault-free run.
#[derive(Clone, Debug, Default)]
pub struct Measure {
    pub steps: u64,
    pub prepares: u64,
    pub commits: u64,
    pub post_exact: String,
    pub post_masked: String,
    pub pre_exact: String,
    pub ok: bool,
    pub result: String,
}

thread_local! {
    /// Set by the statement-trace callback: the statement now running is BEGIN / COMMIT / ROLLBACK /
    /// SAVEPOINT / RELEASE. VM steps of those are not fault points: an interrupt delivered inside
    /// BEGIN leaves SQLite's autocommit flag off although BEGIN reports failure, which no real error
    /// does (measured: it would otherwise show up as "transaction left open"). Commit failures
    /// are covered by classes 2 and 3.
    static IN_TX_CONTROL: std::cell::Cell<bool> = const { std::cell::Cell::new(false) };
}

fn trace_cb(sql: &str) {
    let s = sql.trim_start().to_ascii_uppercase();
    let ctl = ["BEGIN", "COMMIT", "END", "ROLLBACK", "SAVEPOINT", "RELEASE"].iter().any(|k| s.starts_with(k));
    IN_TX_CONTROL.with(|c| c.set(ctl));
    if std::env::var("VERIF_TRACE").is_ok() {
        eprintln!("SQL: {}", sql.split_whitespace().collect::<Vec<_>>().join(" ").chars().take(200).collect::<String>());
    }
}

fn install(w: &mut Wallet, class: Class, k: u64, counter: &Arc<AtomicU64>, fired: &Arc<AtomicBool>) {
    let c = counter.clone();
    let f = fired.clone();
    IN_TX_CONTROL.with(|c| c.set(false));
    w.db.conn_mut().trace(Some(trace_cb));
    let conn = w.db.conn();
    match class {
        Class::Step => conn.progress_handler(
            1,
            Some(move || {
                if IN_TX_CONTROL.with(|c| c.get()) {
                    return false;
                }
                let n = c.fetch_add(1, Ordering::Relaxed) + 1;
                if n == k {
                    f.store(true, Ordering::Relaxed);
                    true
                } else {
                    false
                }
            }),
        ),
        Class::Prepare => {
            conn.set_prepared_statement_cache_capacity(0);
            conn.flush_prepared_statement_cache();
            conn.authorizer(Some(move |ctx: rusqlite::hooks::AuthContext<'_>| {
                // A failing ROLLBACK is not a fault the wallet can be asked to survive.
                if matches!(ctx.action, AuthAction::Transaction { operation: TransactionOperation::Rollback }) {
                    return Authorization::Allow;
                }
                let n = c.fetch_add(1, Ordering::Relaxed) + 1;
                if n == k {
                    f.store(true, Ordering::Relaxed);
                    Authorization::Deny
                } else {
                    Authorization::Allow
                }
            }));
        }
        Class::Commit => conn.commit_hook(Some(move || {
            let n = c.fetch_add(1, Ordering::Relaxed) + 1;
            if n == k {
                f.store(true, Ordering::Relaxed);
                true
            } else {
                false
            }
        })),
    }
}

fn uninstall(w: &mut Wallet, class: Class) {
    w.db.conn_mut().trace(None);
    let conn = w.db.conn();
    match class {
        Class::Step => conn.progress_handler(0, None::<fn() -> bool>),
        Class::Prepare => {
            conn.authorizer(None::<fn(rusqlite::hooks::AuthContext<'_>) -> Authorization>);
            conn.set_prepared_statement_cache_capacity(16);
        }
        Class::Commit => conn.commit_hook(None::<fn() -> bool>),
    }
}

pub(crate) fn run_op(op: &OpDef, w: &mut Wallet, fx: &Fixture) -> Result<String, String> {
    match mc_core::catch(|| (op.f)(w, fx)) {
        Ok(r) => r,
        Err(p) => Err(format!("PANIC: {p}")),
    }
}

pub fn measure(op: &OpDef, w: &mut Wallet, fx: &Fixture, pre: &db::Snapshot) -> Measure {
    let mut m = Measure::default();
    for class in [Class::Step, Class::Prepare, Class::Commit] {
        db::restore(w.db.conn_mut(), pre);
        w.refresh_accounts();
        let counter = Arc::new(AtomicU64::new(0));
        let fired = Arc::new(AtomicBool::new(false));
        install(w, class, u64::MAX, &counter, &fired);
        let r = run_op(op, w, fx);
        uninstall(w, class);
        let n = counter.load(Ordering::Relaxed);
        match class {
            Class::Step => {
                m.steps = n;
                m.ok = r.is_ok();
                m.result = match &r {
                    Ok(s) => format!("Ok({s})"),
                    Err(e) => format!("Err({e})"),
                };
                m.post_exact = digest(w.db.conn(), false);
                m.post_masked = digest(w.db.conn(), true);
            }
            Class::Prepare => m.prepares = n,
            Class::Commit => m.commits = n,
        }
    }
    db::restore(w.db.conn_mut(), pre);
    m.pre_exact = digest(w.db.conn(), false);
    m
}

/// One fault injection. Returns the outcome class or a violation.
pub fn inject(op: &OpDef, w: &mut Wallet, fx: &Fixture, pre: &db::Snapshot, m: &Measure, class: Class, k: u64) -> Result<String, String> {
    db::restore(w.db.conn_mut(), pre);
    w.refresh_accounts();
    let counter = Arc::new(AtomicU64::new(0));
    let fired = Arc::new(AtomicBool::new(false));
    let trace = std::env::var("VERIF_TRACE").is_ok();
    install(w, class, k, &counter, &fired);
    let r = run_op(op, w, fx);
    uninstall(w, class);
    if trace {
        eprintln!("RESULT: {:?} autocommit={}", r, w.db.conn().is_autocommit());
    }
    if let Err(e) = &r {
        if e.starts_with("PANIC") {
            return Err(format!("{} with a {:?} fault at {k}: {e}", op.name, class));
        }
    }
    if !w.db.conn().is_autocommit() {
        let _ = w.db.conn().execute_batch("ROLLBACK");
        return Err(format!("{} with a {:?} fault at {k}: returned {:?} leaving a transaction open on the connection", op.name, class, r.as_ref().map(|_| ()).map_err(|e| e.clone())));
    }
    if !fired.load(Ordering::Relaxed) {
        // the fault point was never reached in this run (counts differ from the measurement)
        return Err(format!("MACHINERY: fault point {k} of class {class:?} not reached for {} (measured {:?})", op.name, (m.steps, m.prepares, m.commits)));
    }
    let after = digest(w.db.conn(), false);
    let is_pre = after == m.pre_exact;
    let is_post = after == m.post_exact || digest(w.db.conn(), true) == m.post_masked;
    match (&r, is_pre, is_post) {
        (Err(_), true, _) => {
            // retry must succeed and reach the uninterrupted post-state
            let r2 = run_op(op, w, fx);
            if r2.is_ok() != m.ok {
                return Err(format!("{}: after a {:?} fault at {k} was rolled back, repeating the operation gave {:?} (uninterrupted run: {})", op.name, class, r2, m.result));
            }
            if digest(w.db.conn(), true) != m.post_masked {
                // show what differs: the retry's rows against a fresh uninterrupted run
                let retry = dump_lines(w.db.conn());
                db::restore(w.db.conn_mut(), pre);
                w.refresh_accounts();
                let _ = run_op(op, w, fx);
                let reference = dump_lines(w.db.conn());
                let only_retry: Vec<&String> = retry.iter().filter(|l| !reference.contains(*l)).take(3).collect();
                let only_ref: Vec<&String> = reference.iter().filter(|l| !retry.contains(*l)).take(3).collect();
                let order_only = only_retry.is_empty() && only_ref.is_empty();
                return Err(format!(
                    "{}: after a {:?} fault at {k}, repeating the operation reaches a state different from an uninterrupted run{}; rows only after the retry: {:?}; rows only in the uninterrupted run: {:?}",
                    op.name,
                    class,
                    if order_only { " (same rows, different row order)" } else { "" },
                    only_retry.iter().map(|l| l.chars().take(300).collect::<String>()).collect::<Vec<_>>(),
                    only_ref.iter().map(|l| l.chars().take(300).collect::<String>()).collect::<Vec<_>>()
                ));
            }
            Ok("err:rolled-back,retry-ok".into())
        }
        (Ok(_), _, true) => Ok(if m.ok { "ok:fault-absorbed-post".into() } else { "ok:??".into() }),
        (Ok(_), true, false) => {
            if !m.ok {
                // the uninterrupted operation itself is a refusal; nothing to apply
                Ok("refusal:unchanged".into())
            } else {
                Err(format!("{}: with a {:?} fault at {k} the operation reported success but the database is unchanged (pre-state), not the post-state", op.name, class))
            }
        }
        (Err(e), false, true) => {
            // Committed but reported failure: the state is whole; the retry clause decides.
            let r2 = run_op(op, w, fx);
            if r2.is_err() || digest(w.db.conn(), true) != m.post_masked {
                return Err(format!(
                    "{}: a {:?} fault at {k} made the operation fail ({e}) although its effects were committed, and repeating it gives {:?} / a state different from an uninterrupted run",
                    op.name, class, r2
                ));
            }
            Ok("err:committed,retry-idempotent".into())
        }
        (_, false, false) => Err(format!(
            "{}: after a {:?} fault at {k} (result {:?}) the database is neither the pre-state nor the post-state of the operation: a partially applied write is visible",
            op.name,
            class,
            r.as_ref().map(|_| "Ok").map_err(|e| e.clone())
        )),
    }
}

fn tier_ops(tier: Tier) -> Vec<&'static str> {
    match tier {
        Tier::Quick => vec!["scan1@mid", "tip@fresh", "truncate@mid", "lock@mid", "create_account@fresh", "sapling_roots@fresh", "orchard_roots@fresh", "next_address@mid", "tip_beyond@mid", "mig_replace@none", "mig_supersede@live_locked", "mig_update_tx_mined@live", "lock_conflict@locked", "rewind_chain_state@full", "rewind_refused@sapling-checkpoints-above-only", "put_utxo_mined@mid", "wallet_and_extension_write@mid-ext", "store_sent_batch_p0_p1@c08-full", "store_decrypted_p1_unmined@c08-pending0", "tx_status_not_recognized@c08-pending0"],
        Tier::Thorough => vec![],
    }
}

pub fn replay(kind: &str, case: &Value) -> Result<(), String> {
    if kind == "twoconn" {
        let fx = Fixture::build();
        let name = case["op"].as_str().unwrap_or("");
        let op = fx.ops.iter().find(|o| o.name == name).ok_or_else(|| format!("unknown op {name}"))?;
        let wal = case["wal"].as_bool().unwrap_or(false);
        let x = case["x"].as_u64().unwrap_or(1);
        return if case["class"].as_u64() == Some(4) { twoconn::writer_observed(&fx, &mut twoconn::new_pair(&fx, wal), op, x).map(|_| ()) } else { twoconn::reader_interrupted(&fx, &mut twoconn::new_pair(&fx, wal), op, x).map(|_| ()) };
    }
    if kind == "migread" {
        let fx = Fixture::build();
        let reads = migops::migration_reads();
        let name = case["read"].as_str().unwrap_or("");
        let rd = reads.iter().find(|r| r.name == name).ok_or_else(|| format!("unknown read {name}"))?;
        let wr = twoconn::MIG_WRITERS.iter().copied().find(|w| Some(*w) == case["writer"].as_str()).ok_or("unknown writer")?;
        return twoconn::mig_reader_interrupted(&fx, &mut twoconn::new_pair(&fx, case["wal"].as_bool().unwrap_or(false)), rd, wr, case["k"].as_u64().unwrap_or(1)).map(|_| ());
    }
    if kind != "fault" {
        return Err(format!("unknown kind {kind}"));
    }
    let fx = Fixture::build();
    let name = case["op"].as_str().unwrap_or("");
    let op = fx.ops.iter().find(|o| o.name == name).ok_or_else(|| format!("unknown op {name}"))?;
    let class: Class = serde_json::from_value(case["class"].clone()).map_err(|e| e.to_string())?;
    let k = case["k"].as_u64().unwrap_or(0);
    let mut w = if op.env == 1 { db::new_wallet(&fx.env8.u, crate::c08::uni::RETENTION, false) } else { db::new_wallet(&fx.u, 4, false) };
    let pre = &fx.pres[op.pre];
    let m = measure(op, &mut w, &fx, pre);
    if k == 0 {
        return if !m.ok && m.pre_exact != m.post_exact { Err(format!("{} returned {} without any injected fault, but the database changed", op.name, m.result)) } else { Ok(()) };
    }
    inject(op, &mut w, &fx, pre, &m, class, k).map(|_| ())
}

pub fn run(args: &Args) -> i32 {
    let run = Run::new(args, "fault_enumeration");
    run.set_rule(
        "for every (write operation, pre-state) the numbers N of SQLite VM steps, P of statement-compilation authorizer callbacks and C of commits \\
         are measured in a fault-free run; then every k in 1..=N (interrupt), 1..=P (compilation failure) and 1..=C (commit vetoed = crash before it) \\
         is injected on a restored copy of the pre-state; a case is (operation, pre-state, class, k), distinct by construction, non-trivial when the \\
         fault point was reached",
    );
    run.assume("trusted base: SQLite's atomic commit / rollback and snapshot isolation; torn pages and fsync loss inside a commit are not modelled");
    run.assume("a failing ROLLBACK statement is not injected; random identifiers (account UUIDs, address check times) are masked when comparing a retry with an uninterrupted run");
    let t0 = Instant::now();
    let wall_cap = args.tier.pick(50.0, 840.0);
    let fx = Fixture::build();
    run.section("fixture_build_s", json!(t0.elapsed().as_secs_f64()));
    let prog = std::env::var("VERIF_PROGRESS").is_ok();
    if prog {
        eprintln!("fixture built at {:.1}s", t0.elapsed().as_secs_f64());
    }
    // Quick tier: every operation is measured and gets its commit-boundary faults (class 3: a handful
    // per operation, and the class that shows a write that escaped its transaction); the operations of
    // the quick list additionally get classes 1 and 2. Thorough: every class for every operation.
    let wanted = tier_ops(args.tier);
    let ops: Vec<&OpDef> = fx.ops.iter().collect();
    let all_classes = |o: &OpDef| wanted.is_empty() || wanted.contains(&o.name.as_str());
    // measure
    // worker state: one wallet handle per universe, created on first use
    let two_wallets = || -> [Option<Wallet>; 2] { [None, None] };
    let pick = |w: &mut [Option<Wallet>; 2], env: u8| -> *mut Wallet {
        let slot = &mut w[env as usize];
        if slot.is_none() {
            *slot = Some(if env == 1 { db::new_wallet(&fx.env8.u, crate::c08::uni::RETENTION, false) } else { db::new_wallet(&fx.u, 4, false) });
        }
        slot.as_mut().unwrap() as *mut Wallet
    };
    let measures: Vec<Measure> = par_map(&ops, two_wallets, |w, op| measure(op, unsafe { &mut *pick(w, op.env) }, &fx, &fx.pres[op.pre]));
    if prog {
        eprintln!("measured at {:.1}s", t0.elapsed().as_secs_f64());
    }
    let mut items: Vec<(usize, Class, u64)> = vec![];
    let mut table = vec![];
    for (i, (op, m)) in ops.iter().zip(&measures).enumerate() {
        table.push(json!({"op": op.name, "pre": fx.pre_names[op.pre], "vm_steps": m.steps, "prepare_callbacks": m.prepares, "commits": m.commits, "uninterrupted": m.result.chars().take(80).collect::<String>(), "changes_db": m.pre_exact != m.post_exact}));
        if m.commits > 1 {
            run.outcome("multi-commit-operation");
        }
        // An operation that reports failure without any injected fault (a refusal, e.g. a lock
        // conflict in the middle of a batch) must leave the database exactly as it was.
        if !m.ok {
            if m.pre_exact != m.post_exact {
                run.fail("fault", format!("{}:refusal-changed-db", op.name), format!("{} returned {} without any injected fault, but the database changed", op.name, m.result), json!({"op": op.name, "class": "Commit", "k": 0}));
            } else {
                run.outcome("refusal:database-unchanged");
            }
        }
        for k in 1..=m.commits {
            items.push((i, Class::Commit, k));
        }
        if all_classes(op) {
            for k in 1..=m.prepares {
                items.push((i, Class::Prepare, k));
            }
            for k in 1..=m.steps {
                items.push((i, Class::Step, k));
            }
        }
    }
    run.section("operations", json!(table));
    run.section("operations_with_all_fault_classes", json!(ops.iter().filter(|o| all_classes(o)).map(|o| o.name.clone()).collect::<Vec<_>>()));
    {
        // a capped run should spread over operations and classes: deterministic permutation by seed
        let mut rng = mc_core::SplitMix(args.seed ^ 0xC02);
        for i in (1..items.len()).rev() {
            let j = (rng.next() % (i as u64 + 1)) as usize;
            items.swap(i, j);
        }
        // commit boundaries first (few, and the most informative)
        items.sort_by_key(|it| if it.1 == Class::Commit { 0 } else { 1 });
    }
    // ---- classes 4 and 5: two connections on a file-backed database (run first: few, cheap, and the
    //      only place where snapshot reads are interleaved with commits)
    let skipped2 = AtomicI64::new(0);
    let mut main_pairs = twoconn::Pairs::default();
    let two_cap = t0.elapsed().as_secs_f64() + args.tier.pick(7.0, 200.0);
    {
        let two_ops: Vec<&OpDef> = ops.iter().copied().filter(|o| o.env == 0).filter(|o| args.tier == Tier::Thorough || ["scan1@mid", "truncate@mid", "lock@mid", "tip_beyond@mid"].contains(&o.name.as_str())).collect();
        let mut jobs: Vec<(usize, bool, u64, u64)> = vec![]; // (op, wal, class 4: period | class 5: step, class)
        for (i, op) in two_ops.iter().enumerate() {
            let m = &measures[ops.iter().position(|o| o.name == op.name).unwrap()];
            let max_obs = args.tier.pick(150u64, 3000u64);
            let period = (m.steps / max_obs).max(1);
            for wal in [false, true] {
                jobs.push((i, wal, period, 4));
            }
            let (rs, bounds) = twoconn::reader_steps(&fx, main_pairs.get(&fx, false), op);
            let stride = (rs / args.tier.pick(60u64, 1500u64)).max(1);
            let points = twoconn::interruption_points(rs, &bounds, stride);
            for k in &points {
                for wal in [false, true] {
                    jobs.push((i, wal, *k, 5));
                }
            }
            run.section(&format!("two_connections:{}", op.name), json!({"writer_vm_steps": m.steps, "snapshot_period": period, "reader_vm_steps": rs, "reader_statements": bounds.len(), "reader_step_stride": stride, "reader_interruption_points": points.len()}));
            if period > 1 || stride > 1 {
                run.not_exhaustive();
            }
        }
        // class 4 first, then the class-5 points in an order that covers the reader's run evenly
        // (every 8th point, then the points in between) should the budget end the phase early
        jobs.sort_by_key(|(i, wal, x, class)| (*class, if *class == 5 { x % 8 } else { 0 }, *x, *i, *wal));
        let out4: Mutex<Vec<String>> = Mutex::new(vec![]);
        par_map(
            &jobs,
            twoconn::Pairs::default,
            |pairs, (i, wal, x, class)| {
                if t0.elapsed().as_secs_f64() > two_cap {
                    skipped2.fetch_add(1, Ordering::Relaxed);
                    return;
                }
                let op = two_ops[*i];
                if *class == 4 {
                    match twoconn::writer_observed(&fx, pairs.get(&fx, *wal), op, *x) {
                        Ok(r) => {
                            run.eval_distinct(r.observations);
                            run.outcome_n(&format!("snapshot:{}:consistent", if *wal { "wal" } else { "journal" }), r.observations);
                            run.outcome_n(&format!("snapshot:{}:busy", if *wal { "wal" } else { "journal" }), r.busy);
                            if r.saw_pre && r.saw_post {
                                run.outcome("snapshot:saw-both-pre-and-post");
                            }
                        }
                        Err(e) => out4.lock().unwrap().push(format!("{}|{}|{}|4|{}", op.name, wal, x, e)),
                    }
                } else {
                    match twoconn::reader_interrupted(&fx, pairs.get(&fx, *wal), op, *x) {
                        Ok(o) => {
                            run.eval_distinct(1);
                            run.outcome(&format!("reader:{}:{o}", if *wal { "wal" } else { "journal" }));
                        }
                        Err(e) => out4.lock().unwrap().push(format!("{}|{}|{}|5|{}", op.name, wal, x, e)),
                    }
                }
            },
        );
        for l in out4.into_inner().unwrap() {
            let parts: Vec<&str> = l.splitn(5, '|').collect();
            run.fail("twoconn", format!("twoconn:{}:{}:{}:{}", parts[0], parts[1], parts[2], parts[3]), parts[4].to_string(), json!({"op": parts[0], "wal": parts[1] == "true", "x": parts[2].parse::<u64>().unwrap(), "class": parts[3].parse::<u64>().unwrap()}));
        }
        // class 5 for the pool-migration snapshot reads (own budget)
        let two_cap = t0.elapsed().as_secs_f64() + args.tier.pick(9.0, 200.0);
        {
            let reads = migops::migration_reads();
            let mut mjobs: Vec<(usize, &'static str, bool, u64)> = vec![];
            for (i, rd) in reads.iter().enumerate() {
                let (rs, bounds) = twoconn::mig_reader_steps(&fx, main_pairs.get(&fx, false), rd);
                let stride = (rs / args.tier.pick(150u64, 4000u64)).max(1);
                let points = twoconn::interruption_points(rs, &bounds, stride);
                run.section(&format!("two_connections:{}", rd.name), json!({"reader_vm_steps": rs, "reader_statements": bounds.len(), "reader_step_stride": stride, "reader_interruption_points": points.len(), "writers": rd.writers}));
                if stride > 1 {
                    run.not_exhaustive();
                }
                for k in &points {
                    for wr in rd.writers.iter().copied() {
                        for wal in [false, true] {
                            mjobs.push((i, wr, wal, *k));
                        }
                    }
                }
            }
            mjobs.sort_by_key(|(i, wr, wal, k)| (k % 8, *k, *i, *wr, *wal));
            let mfails: Mutex<Vec<(usize, &'static str, bool, u64, String)>> = Mutex::new(vec![]);
            par_map(
                &mjobs,
                twoconn::Pairs::default,
                |pairs, (i, wr, wal, k)| {
                    if t0.elapsed().as_secs_f64() > two_cap {
                        skipped2.fetch_add(1, Ordering::Relaxed);
                        return;
                    }
                    let tp = std::time::Instant::now();
                    let pr = pairs.get(&fx, *wal);
                    let t_pair = tp.elapsed();
                    let tp = std::time::Instant::now();
                    let res = twoconn::mig_reader_interrupted(&fx, pr, &reads[*i], wr, *k);
                    if std::env::var("VERIF_PROGRESS").is_ok() && *k % 40 == 1 {
                        eprintln!("mig experiment {} {wr} wal={wal} k={k}: pair {:?} experiment {:?}", reads[*i].name, t_pair, tp.elapsed());
                    }
                    match res {
                        Ok(o) => {
                            run.eval_distinct(1);
                            run.outcome(&format!("mig-reader:{}:{o}", if *wal { "wal" } else { "journal" }));
                        }
                        Err(e) if e.starts_with("MACHINERY") => mc_core::machinery_error(&e),
                        Err(e) => mfails.lock().unwrap().push((*i, wr, *wal, *k, e)),
                    }
                },
            );
            for (i, wr, wal, k, e) in mfails.into_inner().unwrap() {
                run.fail("migread", format!("migread:{}:{wr}:{wal}:{k}", reads[i].name), e, json!({"read": reads[i].name, "writer": wr, "wal": wal, "k": k}));
            }
        }
        let sk2 = skipped2.load(Ordering::Relaxed);
        if sk2 > 0 {
            run.cap_hit(&format!("wall cap: {sk2} two-connection experiments not run"));
        }
    }
    if prog {
        eprintln!("two-connection phase done at {:.1}s", t0.elapsed().as_secs_f64());
    }
    let skipped = AtomicI64::new(0);
    let done = AtomicU64::new(0);
    let fails: Mutex<Vec<(usize, Class, u64, String)>> = Mutex::new(vec![]);
    let outcomes: Mutex<std::collections::BTreeMap<String, u64>> = Mutex::new(Default::default());
    par_map(
        &items,
        two_wallets,
        |w, (i, class, k)| {
            if t0.elapsed().as_secs_f64() > wall_cap || fails.lock().unwrap().len() >= 30 {
                skipped.fetch_add(1, Ordering::Relaxed);
                return;
            }
            let op = ops[*i];
            match inject(op, unsafe { &mut *pick(w, op.env) }, &fx, &fx.pres[op.pre], &measures[*i], *class, *k) {
                Ok(o) => {
                    done.fetch_add(1, Ordering::Relaxed);
                    *outcomes.lock().unwrap().entry(format!("{class:?}:{o}")).or_insert(0) += 1;
                }
                Err(e) if e.starts_with("MACHINERY") => mc_core::machinery_error(&e),
                Err(e) => fails.lock().unwrap().push((*i, *class, *k, e)),
            }
        },
    );
    let done = done.load(Ordering::Relaxed);
    if prog {
        eprintln!("fault phase done at {:.1}s: done {done} skipped {} fails {}", t0.elapsed().as_secs_f64(), skipped.load(Ordering::Relaxed), fails.lock().unwrap().len());
        for f in fails.lock().unwrap().iter().take(3) {
            eprintln!("  {:?}", f);
        }
    }
    run.eval_distinct(done);
    for (k, v) in outcomes.into_inner().unwrap() {
        run.outcome_n(&k, v);
    }
    let sk = skipped.load(Ordering::Relaxed);
    if sk > 0 {
        run.cap_hit(&format!("wall cap {wall_cap}s (or failure cap): {sk} of {} fault points not injected", items.len()));
    }
    run.sample(json!({"op": "scan1@mid", "class": "Step", "k": 1234, "meaning": "interrupt scan_cached_blocks of one block at its 1234th SQLite VM step; expect Err, database == pre-state, retry == uninterrupted run"}));
    run.sample(json!({"op": "lock@mid", "class": "Commit", "k": 1, "meaning": "veto the first commit of lock_outputs (process dies before it); expect database == pre-state"}));
    let mut f = fails.into_inner().unwrap();
    f.sort_by(|a, b| (a.0, a.1, a.2).cmp(&(b.0, b.1, b.2)));
    for (i, class, k, msg) in f {
        let op = ops[i];
        run.fail("fault", format!("{}:{:?}:{}", op.name, class, k), msg, json!({"op": op.name, "class": class, "k": k}));
    }
    run.require(done > 0 || run.failure_count() > 0, "no fault point injected");
    run.finish(&replay)
}
