//! C08 — proposals spend only spendable funds, each once, and balance exactly.
//!
//! Explicit-state breadth-first search over the real SQLite wallet. A state is a wallet database
//! (snapshot) plus the reference model (chain description, lock table, stored pending
//! transactions); operations lock / unlock / clear locks, store a pending transaction, scan new
//! blocks (empty, or containing the pending transaction), rewind, fill a scan gap, and create
//! proposals that lock their inputs. In every distinct state the whole request lattice is sent to
//! the real proposal functions and every answer is judged against the generation-time ground truth.
mod chain;
mod model;
mod oracle;
mod uni;

use std::collections::{BTreeMap, BTreeSet};
use std::sync::atomic::{AtomicU64, Ordering};
use std::sync::{Arc, Mutex, OnceLock};
use std::time::Instant;

use mc_core::{Args, Run, Tier};
use serde_json::{json, Value};

use crate::db::{self, Snapshot, Wallet};
use crate::graph::{canon, par_map};

use chain::Env;
use model::{Alphabet, Model, Op, Step};
use oracle::{Amt, Chg, Conf, Entry, LockPol, Pools, Rcpt, Req};

fn env() -> &'static Env {
    static ENV: OnceLock<Env> = OnceLock::new();
    ENV.get_or_init(Env::build)
}

fn lock_req(entry: Entry, amt: u64, rcpt: Rcpt, conf: Conf, lockpol: LockPol, pools: Pools, lock: (u8, u32)) -> Req {
    Req { entry, amt: Amt::Fixed(amt), rcpt, conf, lockpol, chg: Chg::Single, pools, everything: false, lock: Some(lock) }
}

fn alphabet(thorough: bool) -> Alphabet {
    if thorough {
        let mut locks = vec![];
        for o in [0u8, 1] {
            for s in 0..4usize {
                for far in [false, true] {
                    locks.push((o, s, far));
                }
            }
        }
        locks.push((0, 4, true));
        Alphabet {
            locks,
            advance: vec![1, 2, 41],
            rewind: vec![1, 3],
            clear_b: true,
            proposals: vec![
                lock_req(Entry::Transfer, 30_000, Rcpt::Sapling, Conf::Min, LockPol::Exclude, Pools::All, (0, 0)),
                lock_req(Entry::Transfer, 100_000, Rcpt::Sapling, Conf::Min, LockPol::Exclude, Pools::All, (1, 50)),
                lock_req(Entry::Transfer, 100_000, Rcpt::Unified, Conf::Default, LockPol::PreferLockedX, Pools::All, (1, 50)),
                lock_req(Entry::SendMax, 0, Rcpt::Sapling, Conf::Min, LockPol::Exclude, Pools::SaplingOnly, (0, 50)),
                lock_req(Entry::Standard, 30_000, Rcpt::Unified, Conf::Default, LockPol::Exclude, Pools::All, (0, 50)),
            ],
        }
    } else {
        Alphabet {
            locks: vec![(0, 0, false), (0, 1, true), (1, 0, true), (1, 1, false)],
            advance: vec![1, 41],
            rewind: vec![1],
            clear_b: false,
            proposals: vec![
                lock_req(Entry::Transfer, 30_000, Rcpt::Sapling, Conf::Min, LockPol::Exclude, Pools::All, (0, 0)),
                lock_req(Entry::Transfer, 100_000, Rcpt::Sapling, Conf::Min, LockPol::PreferLockedX, Pools::All, (1, 50)),
            ],
        }
    }
}

/// One breadth-first search.
struct Search {
    name: &'static str,
    thorough_alphabet: bool,
    /// maximal depth per start state (full, gap, short)
    depth_by_start: [usize; 3],
    /// lattice level evaluated in a state first reached at depth d: 0 = core, 1 = quick, 2 = thorough
    level_at_depth: fn(usize) -> usize,
    /// share of the remaining wall budget this search may use
    wall_share: f64,
}

fn searches(tier: Tier) -> (Vec<Search>, f64) {
    let depth_env: Option<usize> = std::env::var("C08_DEPTH").ok().and_then(|s| s.parse().ok());
    let wall_env = std::env::var("C08_WALL").ok().and_then(|s| s.parse().ok());
    let cap = |d: usize| depth_env.map(|e| e.min(d)).unwrap_or(d);
    match tier {
        Tier::Quick => (
            vec![Search { name: "quick", thorough_alphabet: false, depth_by_start: [cap(3), cap(2), cap(2)], level_at_depth: |d| if d <= 2 { 1 } else { 0 }, wall_share: 1.0 }],
            wall_env.unwrap_or(48.0),
        ),
        Tier::Thorough => (
            vec![
                Search { name: "wide", thorough_alphabet: true, depth_by_start: [cap(2), cap(2), cap(2)], level_at_depth: |d| if d <= 1 { 2 } else { 1 }, wall_share: 0.5 },
                Search { name: "deep", thorough_alphabet: false, depth_by_start: [cap(4), cap(3), cap(3)], level_at_depth: |d| if d <= 2 { 1 } else { 0 }, wall_share: 1.0 },
            ],
            wall_env.unwrap_or(660.0),
        ),
    }
}

struct Node {
    snap: Arc<Snapshot>,
    model: Model,
    start: usize,
    history: Vec<Op>,
}

fn state_key(w: &Wallet, m: &Model, start: usize) -> u128 {
    let mut k = canon(w.db.conn());
    k.extend_from_slice(format!("{m:?}").as_bytes());
    // the lock columns are part of `canon` already; the start state is not part of the key: two
    // histories from different start states that reach the same database and model are one state
    let _ = start;
    mc_core::key128(&k)
}

fn case_json(start: usize, ops: &[Op], req: Option<&Req>, thorough: bool) -> Value {
    json!({"start": start, "ops": ops, "req": req, "thorough": thorough})
}

fn ops_key(env: &Env, start: usize, ops: &[Op]) -> String {
    let name = env.starts[start].0;
    let s: Vec<String> = ops
        .iter()
        .map(|o| match o {
            Op::Lock { owner, set, far } => format!("Lock({},{},{})", ["X", "Y"][*owner as usize], model::LOCK_SETS[*set].join("+"), if *far { "tip+50" } else { "tip+1" }),
            Op::Unlock { owner, note } => format!("Unlock({},{})", ["X", "Y"][*owner as usize], env.label(*note)),
            Op::Clear { acct_b } => format!("ClearLocks({})", if *acct_b { "B" } else { "A" }),
            Op::Store { p } => format!("StorePending(P{p})"),
            Op::Advance { k } => format!("Advance({k})"),
            Op::Mine { p } => format!("Mine(P{p})"),
            Op::Rewind { back } => format!("Rewind(tip-{back})"),
            Op::FillGap => "FillGap".into(),
            Op::Propose { req } => format!("Propose[{}]", req.key()),
        })
        .collect();
    format!("{name}:{}", s.join(";"))
}

/// Re-execute a case from scratch: `ops` from start state `start`, then either the single request
/// `req` or (when absent) the whole lattice.
fn check_case(start: usize, ops: &[Op], req: Option<&Req>, thorough: bool) -> Result<(), String> {
    let env = env();
    let mut w = db::new_wallet(&env.u, uni::RETENTION, false);
    db::restore(w.db.conn_mut(), &env.starts[start].1);
    w.refresh_accounts();
    let mut m = Model::start(env, start);
    for (i, op) in ops.iter().enumerate() {
        match model::apply(env, &mut w, &m, op).map_err(|e| format!("step {i} {}: {e}", ops_key(env, start, &ops[i..=i])))? {
            Step::Done(n, _) => m = n,
            Step::Refused(_) => {}
        }
        model::check_locked_outputs(env, &mut w, &m).map_err(|e| format!("after step {i}: {e}"))?;
    }
    match req {
        Some(r) => {
            let ledger = m.ledger(env);
            let mut cache = oracle::WitnessCache::default();
            let mut max_paid = None;
            if let Amt::MaxPlus(_) = r.amt {
                let sm = Req { entry: Entry::SendMax, amt: Amt::Fixed(0), chg: Chg::Single, everything: false, lock: None, ..r.clone() };
                max_paid = oracle::run_request(env, &mut w, &m, &ledger, &sm, &mut cache)?.paid;
            }
            oracle::run_request_with(env, &mut w, &m, &ledger, r, &mut cache, max_paid).map(|_| ())
        }
        None => {
            let lat = oracle::lattice(thorough);
            let (_, fails, _) = oracle::eval_state(env, &mut w, &m, &lat);
            match fails.into_iter().next() {
                Some((r, msg)) => Err(format!("[{}] {msg}", r.key())),
                None => Ok(()),
            }
        }
    }
}

pub fn replay(kind: &str, case: &Value) -> Result<(), String> {
    if kind != "state" {
        return Err(format!("unknown kind {kind}"));
    }
    let start = case["start"].as_u64().ok_or("case.start")? as usize;
    let ops: Vec<Op> = serde_json::from_value(case["ops"].clone()).map_err(|e| e.to_string())?;
    let req: Option<Req> = serde_json::from_value(case["req"].clone()).map_err(|e| e.to_string())?;
    let thorough = case["thorough"].as_bool().unwrap_or(false);
    check_case(start, &ops, req.as_ref(), thorough)
}

struct Found {
    start: usize,
    ops: Vec<Op>,
    req: Option<Req>,
    msg: String,
}

fn profile() {
    let env = env();
    let mut w = db::new_wallet(&env.u, uni::RETENTION, false);
    let m = Model::start(env, 0);
    let t = |name: &str, f: &mut dyn FnMut()| {
        let t0 = Instant::now();
        for _ in 0..20 {
            f();
        }
        eprintln!("{name}: {:.2} ms", t0.elapsed().as_secs_f64() * 1000.0 / 20.0);
    };
    t("restore+refresh", &mut || {
        db::restore(w.db.conn_mut(), &env.starts[0].1);
        w.refresh_accounts();
    });
    t("canon", &mut || {
        let _ = canon(w.db.conn());
    });
    t("state_key", &mut || {
        let _ = state_key(&w, &m, 0);
    });
    t("snapshot", &mut || {
        let _ = db::snapshot(w.db.conn());
    });
    t("ledger", &mut || {
        let _ = m.ledger(env);
    });
    t("lock_rows", &mut || {
        let _ = model::lock_rows(w.db.conn());
    });
    t("restore+lock", &mut || {
        db::restore(w.db.conn_mut(), &env.starts[0].1);
        w.refresh_accounts();
        let _ = model::apply(env, &mut w, &m, &Op::Lock { owner: 0, set: 0, far: false });
    });
    t("restore+advance1", &mut || {
        db::restore(w.db.conn_mut(), &env.starts[0].1);
        w.refresh_accounts();
        let _ = model::apply(env, &mut w, &m, &Op::Advance { k: 1 });
    });
    t("restore+advance41", &mut || {
        db::restore(w.db.conn_mut(), &env.starts[0].1);
        w.refresh_accounts();
        let _ = model::apply(env, &mut w, &m, &Op::Advance { k: 41 });
    });
    db::restore(w.db.conn_mut(), &env.starts[0].1);
    w.refresh_accounts();
    let lat = oracle::lattice(false);
    let ledger = m.ledger(env);
    for r in lat.reqs.iter().step_by(9) {
        let t0 = Instant::now();
        let mut cache = oracle::WitnessCache::default();
        let mut res = None;
        for _ in 0..5 {
            res = Some(oracle::run_request_with(env, &mut w, &m, &ledger, r, &mut cache, Some(100_000)));
        }
        eprintln!("{:.2} ms  {}  -> {:?}", t0.elapsed().as_secs_f64() * 1000.0 / 5.0, r.key(), res.unwrap().map(|x| x.outcomes.first().cloned()));
    }
    eprintln!("db size: {:?}", db::query_rows(w.db.conn(), "SELECT page_count * page_size FROM pragma_page_count(), pragma_page_size()"));
}

pub fn run(args: &Args) -> i32 {
    if std::env::var("C08_PROFILE").is_ok() {
        profile();
        return 0;
    }
    let run = Run::new(args, "model_checking");
    let pr = params(args.tier);
    let t0 = Instant::now();
    let env = env();
    let t_setup = t0.elapsed().as_secs_f64();
    if std::env::var("VERIF_PROGRESS").is_ok() {
        eprintln!("setup {t_setup:.1}s");
    }
    let al = alphabet(pr.thorough);
    let lat = oracle::lattice(pr.thorough);
    run.set_rule(&format!(
        "explicit-state BFS on the real SQLite wallet from {} start states (fully scanned / scanned with a gap at the start / scanned to a pre-NU6.3 tip) of the C08 universe; operations: lock_outputs(owner, note set, tip+1|tip+50), \
         unlock_output, clear_locked_outputs, store_transactions_to_be_sent(real pending transaction), Advance(k blocks), Mine(pending), truncate_to_height, FillGap, proposals with a lock request; \
         states matched on the canonical logical dump of the database + reference model; in every distinct state the request lattice [{}] is sent to the real proposal functions; \
         a case is one (state, request) pair; it is distinct by (state key, request) and non-trivial because the state was reached through the real wallet API and the request was answered by the real selector",
        pr.starts.len(),
        lat.describe
    ));
    run.assume("confirmations are counted as in the ConfirmationsPolicy documentation (blocks since and including the mining block = target height - mined height); notes received under the internal key scope need `trusted` confirmations, all other receipts `untrusted` (no transaction of the universe is user-trusted, none shields transparent funds)");
    run.assume("a lock is active while lock_expiry_height >= target height = chain tip + 1 (data_api/locking.rs); a stored transaction is unexpired while expiry_height >= target height (wallet/common.rs tx_unexpired_condition)");
    run.assume("pending transactions are real Sapling-only transactions built once by create_proposed_transactions with the sapling mock provers and re-injected through store_transactions_to_be_sent; they spend no Orchard/Ironwood/transparent inputs (DESIGN.md stated bound)");
    run.assume("the wallet holds no transparent funds: propose_shielding / propose_shielding_coinbase and transparent spend policies are not covered; any transparent input in a proposal is reported");
    run.assume("the reference upper bound of spendable value counts every unspent, confirmed, not pending-spent, unlocked-or-overridable note of the permitted pools including dust; minimum fee = 10_000 (ZIP 317)");
    run.assume("the anchor of a step must not be above target height minus the policy's trusted confirmations (ConfirmationsPolicy::anchor_height documentation); a lower (bucketed, ZIP 318) anchor is accepted");

    let failures: Mutex<Vec<Found>> = Mutex::new(vec![]);
    let outcomes: Mutex<BTreeMap<String, u64>> = Mutex::new(BTreeMap::new());
    let add_outs = |o: Vec<String>| {
        let mut g = outcomes.lock().unwrap();
        for x in o {
            *g.entry(x).or_insert(0) += 1;
        }
    };
    let evals = AtomicU64::new(0);
    let transitions = AtomicU64::new(0);
    let skipped = AtomicU64::new(0);
    let over = || t0.elapsed().as_secs_f64() > pr.wall_cap_s;
    let mut seen: BTreeSet<u128> = BTreeSet::new();
    let mut per_depth: Vec<u64> = vec![];
    let mut states = 0u64;

    // depth 0: the start states
    let start_nodes: Vec<Option<(u128, Node)>> = par_map(
        &pr.starts,
        || db::new_wallet(&env.u, uni::RETENTION, false),
        |w, &si| {
            db::restore(w.db.conn_mut(), &env.starts[si].1);
            w.refresh_accounts();
            let m = Model::start(env, si);
            let key = state_key(w, &m, si);
            if let Err(msg) = model::check_locked_outputs(env, w, &m) {
                failures.lock().unwrap().push(Found { start: si, ops: vec![], req: None, msg });
            }
            let snap = Arc::new(db::snapshot(w.db.conn()));
            let (o, fails, n) = oracle::eval_state(env, w, &m, &lat);
            evals.fetch_add(n, Ordering::Relaxed);
            add_outs(o);
            add_outs(vec![format!("state:start:{}", env.starts[si].0)]);
            for (r, msg) in fails {
                failures.lock().unwrap().push(Found { start: si, ops: vec![], req: Some(r), msg });
            }
            Some((key, Node { snap, model: m, start: si, history: vec![] }))
        },
    );
    let mut frontier: Vec<Node> = vec![];
    for (k, n) in start_nodes.into_iter().flatten() {
        if seen.insert(k) {
            states += 1;
            frontier.push(n);
        }
    }
    let mut cap: Option<String> = None;
    let noeval = std::env::var("C08_NOEVAL").is_ok(); // sizing runs only
    let mut depth = 0usize;
    let mut completed_depth = 0usize;
    while !frontier.is_empty() {
        per_depth.push(frontier.len() as u64);
        if depth >= pr.max_depth {
            break;
        }
        if over() {
            cap = Some(format!("wall cap {}s reached before expanding depth {depth} ({} frontier states unexpanded)", pr.wall_cap_s, frontier.len()));
            break;
        }
        if failures.lock().unwrap().len() >= 12 {
            cap = Some("stopped after 12 failures".into());
            break;
        }
        // phase 1: execute every enabled transition, compute the key of its target state
        let items: Vec<(usize, Op)> = frontier.iter().enumerate().flat_map(|(i, n)| model::enabled(env, &al, &n.model).into_iter().map(move |op| (i, op))).collect();
        let keys: Vec<Option<u128>> = par_map(
            &items,
            || db::new_wallet(&env.u, uni::RETENTION, false),
            |w, (i, op)| {
                if over() {
                    skipped.fetch_add(1, Ordering::Relaxed);
                    return None;
                }
                let src = &frontier[*i];
                db::restore(w.db.conn_mut(), &src.snap);
                w.refresh_accounts();
                transitions.fetch_add(1, Ordering::Relaxed);
                match model::apply(env, w, &src.model, op) {
                    Err(msg) => {
                        let mut ops = src.history.clone();
                        ops.push(op.clone());
                        failures.lock().unwrap().push(Found { start: src.start, ops, req: None, msg });
                        None
                    }
                    Ok(Step::Refused(o)) => {
                        add_outs(o.into_iter().map(|x| format!("op:{x}")).collect());
                        None
                    }
                    Ok(Step::Done(m, o)) => {
                        add_outs(o.into_iter().map(|x| format!("op:{x}")).collect());
                        Some(state_key(w, &m, src.start))
                    }
                }
            },
        );
        // deterministic representative of every new state: the first (frontier index, op) reaching it
        let mut chosen: Vec<(usize, Op, u128)> = vec![];
        for ((i, op), k) in items.iter().zip(keys.iter()) {
            if let Some(k) = k {
                if seen.insert(*k) {
                    chosen.push((*i, op.clone(), *k));
                }
            }
        }
        if std::env::var("VERIF_PROGRESS").is_ok() {
            eprintln!("depth {depth}: frontier {} transitions {} new states {} elapsed {:.1}s", frontier.len(), items.len(), chosen.len(), t0.elapsed().as_secs_f64());
        }
        // phase 2: re-create each new state, snapshot it, evaluate the request lattice in it
        let next: Vec<Option<Node>> = par_map(
            &chosen,
            || db::new_wallet(&env.u, uni::RETENTION, false),
            |w, (i, op, _)| {
                if over() {
                    skipped.fetch_add(1, Ordering::Relaxed);
                    return None;
                }
                let src = &frontier[*i];
                db::restore(w.db.conn_mut(), &src.snap);
                w.refresh_accounts();
                let mut ops = src.history.clone();
                ops.push(op.clone());
                let m = match model::apply(env, w, &src.model, op) {
                    Ok(Step::Done(m, _)) => m,
                    _ => {
                        failures.lock().unwrap().push(Found { start: src.start, ops, req: None, msg: "transition did not reproduce when re-executed (non-determinism)".into() });
                        return None;
                    }
                };
                if let Err(msg) = model::check_locked_outputs(env, w, &m) {
                    failures.lock().unwrap().push(Found { start: src.start, ops, req: None, msg });
                    return None;
                }
                let snap = Arc::new(db::snapshot(w.db.conn()));
                let (o, fails, n) = if noeval { (vec![], vec![], 0) } else { oracle::eval_state(env, w, &m, &lat) };
                evals.fetch_add(n, Ordering::Relaxed);
                add_outs(o);
                // state diversity
                let mut tags = vec![];
                if m.locks.values().any(|(_, e)| *e >= m.target()) {
                    tags.push("state:has-active-lock");
                }
                if m.locks.values().any(|(_, e)| *e < m.target()) {
                    tags.push("state:has-expired-lock");
                }
                if (0..env.pend.len()).any(|p| m.pending_active(env, p)) {
                    tags.push("state:has-unexpired-pending");
                }
                if (0..env.pend.len()).any(|p| m.stored.contains(&p) && m.chain.mined_at(p).is_none() && env.pend[p].expiry < m.target()) {
                    tags.push("state:has-expired-pending");
                }
                if (0..env.pend.len()).any(|p| m.stored.contains(&p) && m.chain.mined_at(p).is_none() && env.pend[p].expiry == m.target()) {
                    tags.push("state:pending-expiry-equals-target");
                }
                if (0..env.pend.len()).any(|p| m.chain.mined_at(p).is_some()) {
                    tags.push("state:pending-mined");
                }
                if m.target() < uni::N63 {
                    tags.push("state:target-pre-nu6.3");
                } else {
                    tags.push("state:target-post-nu6.3");
                }
                if m.scanned_from > uni::F {
                    tags.push("state:scan-gap-open");
                }
                add_outs(tags.into_iter().map(String::from).collect());
                let bad = !fails.is_empty();
                for (r, msg) in fails {
                    failures.lock().unwrap().push(Found { start: src.start, ops: ops.clone(), req: Some(r), msg });
                }
                if bad {
                    return None; // do not explore beyond a violating state
                }
                Some(Node { snap, model: m, start: src.start, history: ops })
            },
        );
        let sk = skipped.load(Ordering::Relaxed);
        states += chosen.len() as u64;
        let mut nf: Vec<Node> = next.into_iter().flatten().collect();
        nf.sort_by(|a, b| (a.start, &a.history).cmp(&(b.start, &b.history)));
        frontier = nf;
        depth += 1;
        if sk > 0 {
            cap = Some(format!("wall cap {}s reached while expanding depth {}: {sk} transition/state evaluations of that level not executed", pr.wall_cap_s, depth - 1));
            per_depth.push(frontier.len() as u64);
            break;
        }
        completed_depth = depth;
    }
    let transitions = transitions.load(Ordering::Relaxed);
    let evals = evals.load(Ordering::Relaxed);
    if std::env::var("VERIF_PROGRESS").is_ok() {
        let c = oracle::CALLS.load(Ordering::Relaxed).max(1);
        eprintln!("proposal calls {c}: {:.2} ms/call inside the wallet, {:.2} ms/request overall", oracle::CALL_NS.load(Ordering::Relaxed) as f64 / 1e6 / c as f64, oracle::EVAL_NS.load(Ordering::Relaxed) as f64 / 1e6 / c as f64);
    }
    run.add_graph(states, transitions, transitions + evals);
    run.add_evaluations(evals + transitions);
    run.eval_distinct_only(evals + states.saturating_sub(pr.starts.len() as u64));
    let outcomes = outcomes.into_inner().unwrap();
    for (k, v) in &outcomes {
        run.outcome_n(k, *v);
    }
    run.section(
        "search",
        json!({
            "universe": {"first": uni::F, "tip": uni::T0, "nu6_3": uni::N63, "notes": env.u.notes.len(), "retention_interval": uni::RETENTION},
            "start_states": env.starts.iter().map(|s| json!({"name": s.0, "scanned_from": s.2, "tip": s.3})).collect::<Vec<_>>(),
            "pending": env.pend.iter().map(|p| json!({"spends": p.spends.iter().map(|i| env.u.notes[*i].label).collect::<Vec<_>>(), "build_target": p.build_target, "expiry": p.expiry, "fee": p.fee, "outputs": p.outs.iter().map(|o| json!({"owner": format!("{:?}", o.owner), "value": o.value})).collect::<Vec<_>>()})).collect::<Vec<_>>(),
            "alphabet": {"locks": al.locks.iter().map(|(o, s, far)| format!("{}:{}:{}", ["X","Y"][*o as usize], model::LOCK_SETS[*s].join("+"), if *far {"tip+50"} else {"tip+1"})).collect::<Vec<_>>(),
                         "advance": al.advance, "rewind_back": al.rewind, "clear_b": al.clear_b, "lock_taking_proposals": al.proposals.iter().map(|r| r.key()).collect::<Vec<_>>()},
            "lattice_requests_per_state": lat.reqs.len(),
            "max_depth": pr.max_depth, "completed_depth": completed_depth, "per_depth_frontier": per_depth,
            "states": states, "transitions": transitions, "proposal_calls": evals, "setup_s": t_setup, "capped": cap,
        }),
    );
    if let Some(c) = &cap {
        run.cap_hit(c);
    } else if per_depth.len() > pr.max_depth && per_depth.last().copied().unwrap_or(0) > 0 {
        run.cap_hit(&format!("depth bound {} reached with a non-empty frontier of {} states", pr.max_depth, per_depth.last().unwrap()));
    }
    run.sample(case_json(0, &[Op::Lock { owner: 0, set: 0, far: false }, Op::Advance { k: 1 }], Some(&lat.reqs[0]), pr.thorough));
    run.sample(case_json(0, &[Op::Store { p: 0 }, Op::Advance { k: 41 }], Some(&lat.reqs[1]), pr.thorough));
    run.sample(case_json(1, &[Op::FillGap, Op::Lock { owner: 1, set: 1, far: true }], None, pr.thorough));

    let mut f = failures.into_inner().unwrap();
    f.sort_by(|a, b| (a.ops.len(), a.start, &a.ops, &a.req).cmp(&(b.ops.len(), b.start, &b.ops, &b.req)));
    let total_fail = f.len();
    if total_fail > 0 {
        run.section("failures_found", json!({"total": total_fail, "reported": total_fail.min(8)}));
    }
    for x in f.into_iter().take(8) {
        let key = format!("{}|{}", ops_key(env, x.start, &x.ops), x.req.as_ref().map(|r| r.key()).unwrap_or("-".into()));
        run.fail("state", key, x.msg, case_json(x.start, &x.ops, x.req.as_ref(), pr.thorough));
    }
    let debug_run = std::env::var("C08_DEPTH").is_ok();
    let has = |k: &str| outcomes.contains_key(k) || run.failure_count() > 0 || debug_run;
    for k in [
        "transfer:ok",
        "standard:ok",
        "sendmax:ok",
        "transfer:err:InsufficientFunds",
        "ok:locked-note-skipped",
        "ok:pending-spent-note-skipped",
        "ok:unconfirmed-note-skipped",
        "ok:spent-through-overridable-lock",
        "ok:used-note-with-expired-lock",
        "ok:steps=2",
        "op:lock:refused:foreign-active-lock",
        "op:lock:ok:same-owner-relock",
        "op:store:ok",
        "op:mine",
        "state:has-expired-pending",
        "state:target-pre-nu6.3",
        "state:target-post-nu6.3",
    ] {
        run.require(has(k), &format!("outcome `{k}` never occurred"));
    }
    run.require(run.outcomes_distinct() >= 20 || run.failure_count() > 0, "vacuous exploration");
    run.finish(&replay)
}
