//! C08 — proposals spend only spendable funds, each once, and balance exactly.
//!
//! Explicit-state breadth-first search over the real SQLite wallet. A state is a wallet database
//! (snapshot) plus the reference model (chain description, lock table, stored pending
//! transactions); operations lock / unlock / clear locks, store a pending transaction, scan new
//! blocks (empty, or containing the pending transaction), rewind, fill a scan gap, and create
//! proposals that lock their inputs. In every distinct state the whole request lattice is sent to
//! the real proposal functions and every answer is judged against the generation-time ground truth.
pub mod chain;
mod model;
mod oracle;
pub mod uni;

use std::collections::{BTreeMap, BTreeSet};
use std::sync::atomic::{AtomicU64, Ordering};
use std::sync::{Arc, Mutex, OnceLock};
use std::time::Instant;

use mc_core::{Args, Run, Tier};
use serde_json::{json, Value};

use crate::db::{self, Snapshot, Wallet};
use crate::graph::{canon, par_map};

use chain::Env;
use model::{Alphabet, Model, Op, Step};
use oracle::{Amt, Chg, Conf, Entry, Lattice, LockPol, Pools, Rcpt, Req};

fn try_env() -> Result<&'static Env, String> {
    static ENV: OnceLock<Result<Env, String>> = OnceLock::new();
    ENV.get_or_init(Env::build).as_ref().map_err(|e| e.clone())
}

fn env() -> &'static Env {
    try_env().unwrap_or_else(|e| mc_core::machinery_error(&format!("C08 environment: {e}")))
}

fn lock_req(entry: Entry, amt: u64, rcpt: Rcpt, conf: Conf, lockpol: LockPol, pools: Pools, lock: (u8, u32)) -> Req {
    Req { entry, amt: Amt::Fixed(amt), rcpt, conf, lockpol, chg: Chg::Single, pools, everything: false, lock: Some(lock), selpol: Default::default(), allow: Default::default() }
}

fn alphabet(thorough: bool) -> Alphabet {
    if thorough {
        let mut locks = vec![];
        for o in [0u8, 1] {
            for s in 0..4usize {
                for far in [false, true] {
                    locks.push((o, s, far));
                }
            }
        }
        locks.push((0, 4, true));
        Alphabet {
            locks,
            advance: vec![1, 2, 41],
            rewind: vec![1, 3],
            clear_b: true,
            unlock_all: true,
            mine_transparent_pending: true,
            proposals: vec![
                lock_req(Entry::Transfer, 30_000, Rcpt::Sapling, Conf::Min, LockPol::Exclude, Pools::All, (0, 0)),
                lock_req(Entry::Transfer, 100_000, Rcpt::Sapling, Conf::Min, LockPol::Exclude, Pools::All, (1, 50)),
                lock_req(Entry::Transfer, 100_000, Rcpt::Unified, Conf::Default, LockPol::PreferLockedX, Pools::All, (1, 50)),
                lock_req(Entry::SendMax, 0, Rcpt::Sapling, Conf::Min, LockPol::Exclude, Pools::SaplingOnly, (0, 50)),
                lock_req(Entry::Standard, 30_000, Rcpt::Unified, Conf::Default, LockPol::Exclude, Pools::All, (0, 50)),
                lock_req(Entry::Shield, 10_000, Rcpt::Sapling, Conf::Min, LockPol::Exclude, Pools::All, (1, 50)),
            ],
        }
    } else {
        Alphabet {
            locks: vec![(0, 0, false), (0, 1, true), (1, 0, true), (1, 1, false)],
            advance: vec![1, 41],
            rewind: vec![1],
            clear_b: false,
            unlock_all: false,
            mine_transparent_pending: true,
            proposals: vec![
                lock_req(Entry::Transfer, 30_000, Rcpt::Sapling, Conf::Min, LockPol::Exclude, Pools::All, (0, 0)),
                lock_req(Entry::Transfer, 100_000, Rcpt::Sapling, Conf::Min, LockPol::PreferLockedX, Pools::All, (1, 50)),
            ],
        }
    }
}

/// One breadth-first search.
struct Search {
    name: &'static str,
    thorough_alphabet: bool,
    /// maximal depth per start state (full, gap, short)
    depth_by_start: [usize; 3],
    /// lattice level evaluated in a state first reached at depth d from start state s (0 full, 1 gap,
    /// 2 short): 0 = mini, 1 = core, 2 = quick, 3 = thorough
    level_at_depth: fn(usize, usize) -> usize,
    /// share of the remaining wall budget this search may use
    wall_share: f64,
}

fn searches(tier: Tier) -> (Vec<Search>, f64) {
    let depth_env: Option<usize> = std::env::var("C08_DEPTH").ok().and_then(|s| s.parse().ok());
    let wall_env = std::env::var("C08_WALL").ok().and_then(|s| s.parse().ok());
    let cap = |d: usize| depth_env.map(|e| e.min(d)).unwrap_or(d);
    match tier {
        Tier::Quick => (
            vec![Search { name: "quick", thorough_alphabet: false, depth_by_start: [cap(3), cap(2), cap(2)], level_at_depth: |_, d| if d <= 1 { 2 } else if d == 2 { 1 } else { 0 }, wall_share: 1.0 }],
            wall_env.unwrap_or(48.0),
        ),
        Tier::Thorough => (
            vec![
                Search { name: "wide", thorough_alphabet: true, depth_by_start: [cap(2), cap(2), cap(2)], level_at_depth: |_, d| if d <= 1 { 3 } else { 1 }, wall_share: 0.5 },
                Search { name: "deep", thorough_alphabet: false, depth_by_start: [cap(4), cap(4), cap(4)], level_at_depth: |_, d| if d <= 2 { 2 } else if d == 3 { 1 } else { 0 }, wall_share: 1.0 },
            ],
            wall_env.unwrap_or(660.0),
        ),
    }
}

struct Node {
    /// kept only for states that will be expanded
    snap: Option<Arc<Snapshot>>,
    model: Model,
    start: usize,
    history: Vec<Op>,
}

fn state_key(w: &Wallet, m: &Model, start: usize) -> u128 {
    let mut k = canon(w.db.conn());
    k.extend_from_slice(format!("{m:?}").as_bytes());
    // the lock columns are part of `canon` already; the start state is not part of the key: two
    // histories from different start states that reach the same database and model are one state
    let _ = start;
    mc_core::key128(&k)
}

fn case_json(start: usize, ops: &[Op], req: Option<&Req>, level: usize) -> Value {
    json!({"start": start, "ops": ops, "req": req, "lattice": level})
}

fn ops_key(env: &Env, start: usize, ops: &[Op]) -> String {
    let name = env.starts[start].0;
    let s: Vec<String> = ops
        .iter()
        .map(|o| match o {
            Op::Lock { owner, set, far } => format!("Lock({},{},{})", ["X", "Y"][*owner as usize], model::LOCK_SETS[*set].join("+"), if *far { "tip+50" } else { "tip+1" }),
            Op::Unlock { owner, note } => format!("Unlock({},{})", ["X", "Y"][*owner as usize], env.label(*note)),
            Op::Clear { acct_b } => format!("ClearLocks({})", if *acct_b { "B" } else { "A" }),
            Op::Store { p } => format!("StorePending(P{p})"),
            Op::Advance { k } => format!("Advance({k})"),
            Op::Mine { p } => format!("Mine(P{p})"),
            Op::Rewind { back } => format!("Rewind(tip-{back})"),
            Op::FillGap => "FillGap".into(),
            Op::PutUtxo { i } => format!("PutUtxo({})", env.utxos[*i].label),
            Op::Propose { req } => format!("Propose[{}]", req.key()),
        })
        .collect();
    format!("{name}:{}", s.join(";"))
}

/// Re-execute a case from scratch: `ops` from start state `start`, then either the single request
/// `req` or (when absent) the whole lattice of the given level.
fn check_case(start: usize, ops: &[Op], req: Option<&Req>, level: usize) -> Result<(), String> {
    let env = env();
    let mut w = db::new_wallet(&env.u, uni::RETENTION, false);
    db::restore(w.db.conn_mut(), &env.starts[start].1);
    w.refresh_accounts();
    let mut m = Model::start(env, start);
    for (i, op) in ops.iter().enumerate() {
        match model::apply(env, &mut w, &m, op).map_err(|e| format!("step {i} {}: {e}", ops_key(env, start, &ops[i..=i])))? {
            Step::Done(n, _) => m = n,
            Step::Refused(_) => {}
        }
        model::check_locked_outputs(env, &mut w, &m).map_err(|e| format!("after step {i}: {e}"))?;
    }
    match req {
        Some(r) => {
            let ledger = m.ledger(env);
            let mut cache = oracle::WitnessCache::default();
            let mut max_paid = None;
            if let Amt::MaxPlus(_) = r.amt {
                let sm = Req { entry: Entry::SendMax, amt: Amt::Fixed(0), chg: Chg::Single, everything: false, lock: None, ..r.clone() };
                max_paid = oracle::run_request(env, &mut w, &m, &ledger, &sm, &mut cache)?.paid;
            }
            oracle::run_request_with(env, &mut w, &m, &ledger, r, &mut cache, max_paid).map(|_| ())
        }
        None => {
            let lat = oracle::lattice(level);
            let (_, fails, _, _) = oracle::eval_state(env, &mut w, &m, &lat, &|| false);
            match fails.into_iter().next() {
                Some((r, msg)) => Err(format!("[{}] {msg}", r.map(|r| r.key()).unwrap_or("whole lattice".into()))),
                None => Ok(()),
            }
        }
    }
}

pub fn replay(kind: &str, case: &Value) -> Result<(), String> {
    if kind == "setup" {
        return try_env().map(|_| ());
    }
    if kind != "state" {
        return Err(format!("unknown kind {kind}"));
    }
    let start = case["start"].as_u64().ok_or("case.start")? as usize;
    let ops: Vec<Op> = serde_json::from_value(case["ops"].clone()).map_err(|e| e.to_string())?;
    let req: Option<Req> = serde_json::from_value(case["req"].clone()).map_err(|e| e.to_string())?;
    let level = case["lattice"].as_u64().unwrap_or(2) as usize;
    check_case(start, &ops, req.as_ref(), level)
}

struct Found {
    start: usize,
    ops: Vec<Op>,
    req: Option<Req>,
    level: usize,
    msg: String,
}

fn dump_checkpoints() {
    let env = env();
    let mut w = db::new_wallet(&env.u, uni::RETENTION, false);
    for (name, ops) in [("full", vec![]), ("advance1", vec![Op::Advance { k: 1 }]), ("advance41", vec![Op::Advance { k: 41 }]), ("rewind1", vec![Op::Rewind { back: 1 }]), ("adv1,adv1", vec![Op::Advance { k: 1 }, Op::Advance { k: 1 }])] {
        db::restore(w.db.conn_mut(), &env.starts[0].1);
        w.refresh_accounts();
        let mut m = Model::start(env, 0);
        for op in &ops {
            if let Ok(Step::Done(n, _)) = model::apply(env, &mut w, &m, op) {
                m = n;
            }
        }
        for p in ["sapling", "orchard", "ironwood"] {
            eprintln!("{name} {p}: {:?}", db::query_rows(w.db.conn(), &format!("SELECT checkpoint_id, position FROM {p}_tree_checkpoints ORDER BY checkpoint_id")).iter().map(|r| r.replace('|', "@")).collect::<Vec<_>>().join(" "));
        }
    }
}

fn profile() {
    let env = env();
    let mut w = db::new_wallet(&env.u, uni::RETENTION, false);
    let m = Model::start(env, 0);
    let t = |name: &str, f: &mut dyn FnMut()| {
        let t0 = Instant::now();
        for _ in 0..20 {
            f();
        }
        eprintln!("{name}: {:.2} ms", t0.elapsed().as_secs_f64() * 1000.0 / 20.0);
    };
    t("restore+refresh", &mut || {
        db::restore(w.db.conn_mut(), &env.starts[0].1);
        w.refresh_accounts();
    });
    t("canon", &mut || {
        let _ = canon(w.db.conn());
    });
    t("state_key", &mut || {
        let _ = state_key(&w, &m, 0);
    });
    t("snapshot", &mut || {
        let _ = db::snapshot(w.db.conn());
    });
    t("ledger", &mut || {
        let _ = m.ledger(env);
    });
    t("lock_rows", &mut || {
        let _ = model::lock_rows(w.db.conn());
    });
    t("restore+lock", &mut || {
        db::restore(w.db.conn_mut(), &env.starts[0].1);
        w.refresh_accounts();
        let _ = model::apply(env, &mut w, &m, &Op::Lock { owner: 0, set: 0, far: false });
    });
    t("restore+advance1", &mut || {
        db::restore(w.db.conn_mut(), &env.starts[0].1);
        w.refresh_accounts();
        let _ = model::apply(env, &mut w, &m, &Op::Advance { k: 1 });
    });
    t("restore+advance41", &mut || {
        db::restore(w.db.conn_mut(), &env.starts[0].1);
        w.refresh_accounts();
        let _ = model::apply(env, &mut w, &m, &Op::Advance { k: 41 });
    });
    db::restore(w.db.conn_mut(), &env.starts[0].1);
    w.refresh_accounts();
    let lat = oracle::lattice(2);
    let ledger = m.ledger(env);
    for r in lat.reqs.iter().step_by(9) {
        let t0 = Instant::now();
        let mut cache = oracle::WitnessCache::default();
        let mut res = None;
        for _ in 0..5 {
            res = Some(oracle::run_request_with(env, &mut w, &m, &ledger, r, &mut cache, Some(100_000)));
        }
        eprintln!("{:.2} ms  {}  -> {:?}", t0.elapsed().as_secs_f64() * 1000.0 / 5.0, r.key(), res.unwrap().map(|x| x.outcomes.first().cloned()));
    }
    {
        use zcash_client_backend::data_api::wallet::input_selection::{LockFilter, LockedInputPolicy};
        use zcash_client_backend::data_api::wallet::ConfirmationsPolicy;
        use zcash_client_backend::data_api::{InputSource, TargetValue, WalletRead};
        use zcash_protocol::value::Zatoshis;
        use zcash_protocol::ShieldedPool;
        let acct = w.acct_a;
        let enc = env.u.keys.ufvk_a.encode(&env.u.network);
        t("ufvk decode", &mut || {
            let _ = zcash_keys::keys::UnifiedFullViewingKey::decode(&env.u.network, &enc).unwrap();
        });
        t("get_target_and_anchor_heights", &mut || {
            let _ = w.db.get_target_and_anchor_heights(std::num::NonZeroU32::MIN).unwrap();
        });
        for (name, pools) in [("sapling", vec![ShieldedPool::Sapling]), ("all", vec![ShieldedPool::Sapling, ShieldedPool::Orchard, ShieldedPool::Ironwood])] {
            let mut cnt = 0;
            t(&format!("select_spendable_notes AtLeast 100k {name}"), &mut || {
                let r = w.db.select_spendable_notes(acct, TargetValue::AtLeast(Zatoshis::const_from_u64(100_000)), &pools, (uni::T0 + 1).into(), ConfirmationsPolicy::MIN, &[], LockFilter::Policy(&LockedInputPolicy::Exclude)).unwrap();
                cnt = r.sapling().len() + r.orchard().len();
            });
            eprintln!("   -> {cnt} notes");
        }
    }
    eprintln!("db size: {:?}", db::query_rows(w.db.conn(), "SELECT page_count * page_size FROM pragma_page_count(), pragma_page_size()"));
}

#[derive(Default)]
struct Totals {
    states: u64,
    transitions: u64,
    evals: u64,
    evaluated_states: u64,
}

struct Shared<'a> {
    env: &'a Env,
    lats: [Lattice; 4],
    failures: Mutex<Vec<Found>>,
    outcomes: Mutex<BTreeMap<String, u64>>,
    /// state key -> highest lattice level already evaluated there (+1), across all searches
    evaluated: Mutex<BTreeMap<u128, usize>>,
    /// state evaluations abandoned half-way because the wall budget ran out
    abandoned: AtomicU64,
    t0: Instant,
}

impl Shared<'_> {
    fn add_outs(&self, o: Vec<String>) {
        let mut g = self.outcomes.lock().unwrap();
        for x in o {
            *g.entry(x).or_insert(0) += 1;
        }
    }

    /// Evaluate the lattice of `level` in the state held by `w` unless an equal or larger lattice
    /// was already evaluated in that state. Returns (number of requests, violations).
    fn evaluate(&self, w: &mut Wallet, m: &Model, key: u128, level: usize, start: usize, ops: &[Op], stop: &dyn Fn() -> bool) -> (u64, bool) {
        {
            let mut g = self.evaluated.lock().unwrap();
            if g.get(&key).is_some_and(|l| *l > level) {
                return (0, false);
            }
            g.insert(key, level + 1);
        }
        if std::env::var("C08_NOEVAL").is_ok() {
            return (0, false); // sizing runs only
        }
        let env = self.env;
        let (o, fails, n, complete) = oracle::eval_state(env, w, m, &self.lats[level], stop);
        if !complete {
            self.evaluated.lock().unwrap().remove(&key);
            self.abandoned.fetch_add(1, Ordering::Relaxed);
        }
        self.add_outs(o);
        let mut tags = vec![];
        if m.locks.values().any(|(_, e)| *e >= m.target()) {
            tags.push("state:has-active-lock");
        }
        if m.locks.values().any(|(_, e)| *e < m.target()) {
            tags.push("state:has-expired-lock");
        }
        if m.locks.values().any(|(_, e)| *e == m.target()) {
            tags.push("state:lock-expiry-equals-target");
        }
        if (0..env.pend.len()).any(|p| m.pending_active(env, p)) {
            tags.push("state:has-unexpired-pending");
        }
        if (0..env.pend.len()).any(|p| m.stored.contains(&p) && m.chain.mined_at(p).is_none() && env.pend[p].expiry < m.target()) {
            tags.push("state:has-expired-pending");
        }
        if (0..env.pend.len()).any(|p| m.stored.contains(&p) && m.chain.mined_at(p).is_none() && env.pend[p].expiry == m.target()) {
            tags.push("state:pending-expiry-equals-target");
        }
        if (0..env.pend.len()).any(|p| m.chain.mined_at(p).is_some()) {
            tags.push("state:pending-mined");
        }
        if (0..env.pend.len()).any(|p| m.stored.contains(&p) && m.chain.mined_at(p).is_none() && m.seen.iter().any(|k| matches!(k, chain::NoteKey::D(q, _) if *q == p)) && m.tip < env.pend[p].build_target) {
            tags.push("state:pending-unmined-by-rewind");
        }
        tags.push(if m.target() < uni::N63 { "state:target-pre-nu6.3" } else { "state:target-post-nu6.3" });
        if m.gap.is_some() {
            tags.push("state:scan-gap-open");
        }
        self.add_outs(tags.into_iter().map(String::from).collect());
        let bad = !fails.is_empty();
        for (r, msg) in fails {
            self.failures.lock().unwrap().push(Found { start, ops: ops.to_vec(), req: r, level, msg });
        }
        (n, bad)
    }
}

/// One level-synchronous parallel BFS. Returns a JSON description and updates the totals.
fn search(sh: &Shared, sp: &Search, deadline_s: f64, tot: &mut Totals) -> (Value, Option<String>) {
    let env = sh.env;
    let al = alphabet(sp.thorough_alphabet);
    let over = || sh.t0.elapsed().as_secs_f64() > deadline_s;
    let evals = AtomicU64::new(0);
    let evaluated_states = AtomicU64::new(0);
    let transitions = AtomicU64::new(0);
    let skipped = AtomicU64::new(0);
    let mut seen: BTreeSet<u128> = BTreeSet::new();
    let mut per_depth: Vec<u64> = vec![];
    let mut states = 0u64;
    let starts: Vec<usize> = (0..env.starts.len()).collect();
    let max_depth = *sp.depth_by_start.iter().max().unwrap();

    let start_nodes: Vec<(u128, Node)> = par_map(
        &starts,
        || db::new_wallet(&env.u, uni::RETENTION, false),
        |w, &si| {
            db::restore(w.db.conn_mut(), &env.starts[si].1);
            w.refresh_accounts();
            let m = Model::start(env, si);
            let key = state_key(w, &m, si);
            if let Err(msg) = model::check_locked_outputs(env, w, &m) {
                sh.failures.lock().unwrap().push(Found { start: si, ops: vec![], req: None, level: 0, msg });
            }
            let snap = Arc::new(db::snapshot(w.db.conn()));
            let (n, _) = sh.evaluate(w, &m, key, (sp.level_at_depth)(si, 0), si, &[], &over);
            if n > 0 {
                evaluated_states.fetch_add(1, Ordering::Relaxed);
                sh.add_outs(vec![format!("state:start:{}", env.starts[si].0)]);
            }
            evals.fetch_add(n, Ordering::Relaxed);
            (key, Node { snap: Some(snap), model: m, start: si, history: vec![] })
        },
    );
    let mut frontier: Vec<Node> = vec![];
    for (k, n) in start_nodes {
        if seen.insert(k) {
            states += 1;
            frontier.push(n);
        }
    }
    let mut cap: Option<String> = None;
    let mut depth = 0usize;
    let mut completed_depth = 0usize;
    while !frontier.is_empty() {
        per_depth.push(frontier.len() as u64);
        if depth >= max_depth {
            break;
        }
        if over() {
            cap = Some(format!("{}: wall budget reached before expanding depth {depth} ({} frontier states unexpanded)", sp.name, frontier.len()));
            break;
        }
        if sh.failures.lock().unwrap().len() >= 12 {
            cap = Some(format!("{}: stopped after 12 failures", sp.name));
            break;
        }
        // phase 1: execute every enabled transition, compute the key of its target state
        let items: Vec<(usize, Op)> = frontier
            .iter()
            .enumerate()
            .filter(|(_, n)| depth < sp.depth_by_start[n.start])
            .flat_map(|(i, n)| model::enabled(env, &al, &n.model).into_iter().map(move |op| (i, op)))
            .collect();
        let keys: Vec<Option<u128>> = par_map(
            &items,
            || db::new_wallet(&env.u, uni::RETENTION, false),
            |w, (i, op)| {
                if over() {
                    skipped.fetch_add(1, Ordering::Relaxed);
                    return None;
                }
                let src = &frontier[*i];
                db::restore(w.db.conn_mut(), src.snap.as_ref().expect("expandable nodes keep their snapshot"));
                w.refresh_accounts();
                transitions.fetch_add(1, Ordering::Relaxed);
                match model::apply(env, w, &src.model, op) {
                    Err(msg) => {
                        let mut ops = src.history.clone();
                        ops.push(op.clone());
                        sh.failures.lock().unwrap().push(Found { start: src.start, ops, req: None, level: 0, msg });
                        None
                    }
                    Ok(Step::Refused(o)) => {
                        sh.add_outs(o.into_iter().map(|x| format!("op:{x}")).collect());
                        None
                    }
                    Ok(Step::Done(m, o)) => {
                        sh.add_outs(o.into_iter().map(|x| format!("op:{x}")).collect());
                        Some(state_key(w, &m, src.start))
                    }
                }
            },
        );
        // deterministic representative of every new state: the first (frontier index, op) reaching it
        let mut chosen: Vec<(usize, Op, u128)> = vec![];
        for ((i, op), k) in items.iter().zip(keys.iter()) {
            if let Some(k) = k {
                if seen.insert(*k) {
                    chosen.push((*i, op.clone(), *k));
                }
            }
        }
        if std::env::var("VERIF_PROGRESS").is_ok() {
            eprintln!("{} depth {depth}: frontier {} transitions {} new states {} elapsed {:.1}s", sp.name, frontier.len(), items.len(), chosen.len(), sh.t0.elapsed().as_secs_f64());
        }
        // phase 2: re-create each new state, snapshot it (if it will be expanded), evaluate the lattice in it
        let next: Vec<Option<Node>> = par_map(
            &chosen,
            || db::new_wallet(&env.u, uni::RETENTION, false),
            |w, (i, op, key)| {
                if over() {
                    skipped.fetch_add(1, Ordering::Relaxed);
                    return None;
                }
                let src = &frontier[*i];
                db::restore(w.db.conn_mut(), src.snap.as_ref().expect("expandable nodes keep their snapshot"));
                w.refresh_accounts();
                let mut ops = src.history.clone();
                ops.push(op.clone());
                let m = match model::apply(env, w, &src.model, op) {
                    Ok(Step::Done(m, _)) => m,
                    _ => {
                        sh.failures.lock().unwrap().push(Found { start: src.start, ops, req: None, level: 0, msg: "transition did not reproduce when re-executed (non-determinism)".into() });
                        return None;
                    }
                };
                if let Err(msg) = model::check_locked_outputs(env, w, &m) {
                    sh.failures.lock().unwrap().push(Found { start: src.start, ops, req: None, level: 0, msg });
                    return None;
                }
                let expand = depth + 1 < sp.depth_by_start[src.start];
                let snap = expand.then(|| Arc::new(db::snapshot(w.db.conn())));
                let (n, bad) = sh.evaluate(w, &m, *key, (sp.level_at_depth)(src.start, depth + 1), src.start, &ops, &over);
                evals.fetch_add(n, Ordering::Relaxed);
                if n > 0 {
                    evaluated_states.fetch_add(1, Ordering::Relaxed);
                }
                if bad {
                    return None; // do not explore beyond a violating state
                }
                Some(Node { snap, model: m, start: src.start, history: ops })
            },
        );
        let sk = skipped.load(Ordering::Relaxed) + sh.abandoned.swap(0, Ordering::Relaxed);
        states += chosen.len() as u64;
        let mut nf: Vec<Node> = next.into_iter().flatten().collect();
        nf.sort_by(|a, b| (a.start, &a.history).cmp(&(b.start, &b.history)));
        frontier = nf;
        depth += 1;
        if sk > 0 {
            cap = Some(format!("{}: wall budget reached while expanding depth {}: {sk} transition executions / state evaluations of that level not executed", sp.name, depth - 1));
            per_depth.push(frontier.len() as u64);
            break;
        }
        completed_depth = depth;
    }
    if cap.is_none() && depth < max_depth && !frontier.is_empty() {
        // cannot happen: the loop only ends at max depth, on a cap, or with an empty frontier
        cap = Some(format!("{}: search ended at depth {depth} < {max_depth}", sp.name));
    }
    let transitions = transitions.load(Ordering::Relaxed);
    let evals = evals.load(Ordering::Relaxed);
    tot.states += states;
    tot.transitions += transitions;
    tot.evals += evals;
    tot.evaluated_states += evaluated_states.load(Ordering::Relaxed);
    let desc = json!({
        "alphabet": {"locks": al.locks.iter().map(|(o, s, far)| format!("{}:{}:{}", ["X","Y"][*o as usize], model::LOCK_SETS[*s].join("+"), if *far {"tip+50"} else {"tip+1"})).collect::<Vec<_>>(),
                     "unlock": if al.unlock_all { "every (owner in {X,Y}, note holding a lock row)" } else { "every (owner in {X,Y}, one representative note per group of notes locked together)" }, "clear_locks": if al.clear_b { "A, B" } else { "A" },
                     "store_pending": "P0, P1, P2 (when their inputs are live and build target <= target height <= expiry; P2 spends the coin t60 whether or not the wallet knows it yet)", "mine": if al.mine_transparent_pending { "stored un-mined pending transactions" } else { "stored un-mined pending transactions P0, P1" },
                     "put_utxo": "t60 (while unknown to the wallet and unspent on chain)",
                     "advance": al.advance, "rewind_back": al.rewind, "fill_gap": true, "lock_taking_proposals": al.proposals.iter().map(|r| r.key()).collect::<Vec<_>>()},
        "depth_by_start": {"full": sp.depth_by_start[0], "gap": sp.depth_by_start[1], "short": sp.depth_by_start[2]},
        "lattice_level_by_start_and_depth": (0..3).map(|s| (0..=sp.depth_by_start[s]).map(|d| ["mini", "core", "quick", "thorough"][(sp.level_at_depth)(s, d)]).collect::<Vec<_>>()).collect::<Vec<_>>(),
        "completed_depth": completed_depth, "per_depth_new_states": per_depth,
        "states": states, "states_evaluated_here": evaluated_states.load(Ordering::Relaxed), "transitions": transitions, "proposal_calls": evals, "capped": cap,
    });
    (desc, cap)
}

pub fn run(args: &Args) -> i32 {
    if std::env::var("C08_PROFILE").is_ok() {
        profile();
        return 0;
    }
    if std::env::var("C08_CHECKPOINTS").is_ok() {
        dump_checkpoints();
        return 0;
    }
    let run = Run::new(args, "model_checking");
    let (sps, wall_cap_s) = searches(args.tier);
    let t0 = Instant::now();
    let env = match try_env() {
        Ok(e) => e,
        Err(msg) => {
            // the proposals from which the pending transactions are built are themselves unsound
            run.not_exhaustive();
            run.fail("setup", "setup:scratch-proposal".into(), msg, json!({}));
            return run.finish(&replay);
        }
    };
    let t_setup = t0.elapsed().as_secs_f64();
    if std::env::var("VERIF_PROGRESS").is_ok() {
        eprintln!("setup {t_setup:.1}s");
    }
    let sh = Shared { env, lats: [oracle::lattice(0), oracle::lattice(1), oracle::lattice(2), oracle::lattice(3)], failures: Mutex::new(vec![]), outcomes: Mutex::new(BTreeMap::new()), evaluated: Mutex::new(BTreeMap::new()), abandoned: AtomicU64::new(0), t0 };
    run.set_rule(
        "explicit-state BFS on the real SQLite wallet from 3 start states (fully scanned / scanned with a gap at the start / scanned to a pre-NU6.3 tip) of the C08 universe; operations: lock_outputs(owner, note set, tip+1|tip+50), \
         unlock_output, clear_locked_outputs, store_transactions_to_be_sent(real pending transaction), Advance(k blocks), Mine(pending), truncate_to_height, FillGap, proposals with a lock request; \
         states matched on the canonical logical dump of the database + reference model; in every distinct state a request lattice (sizes mini/core/quick/thorough by depth, listed in section `lattices`) is sent to the real proposal \
         functions; a case is one (state, request) pair: distinct by (state key, request), non-trivial because the state was reached through the real wallet API and the request answered by the real selector",
    );
    run.assume("confirmations are counted as in the ConfirmationsPolicy documentation (blocks since and including the mining block = target height - mined height); notes received under the internal key scope need `trusted` confirmations, all other receipts `untrusted` (no transaction of the universe is user-trusted, none shields transparent funds)");
    run.assume("a lock is active while lock_expiry_height >= target height = chain tip + 1 (data_api/locking.rs); a stored transaction is unexpired while expiry_height >= target height (wallet/common.rs tx_unexpired_condition)");
    run.assume("pending transactions are real Sapling-only transactions built once by create_proposed_transactions with the sapling mock provers and re-injected through store_transactions_to_be_sent; they spend no Orchard/Ironwood/transparent inputs (DESIGN.md stated bound)");
    run.assume("transparent coins (two of account A, one of account B) are reported to the wallet in the start states through put_received_transparent_utxo and are never spent; a rewind below a coin's height un-mines it in the wallet and nothing re-mines it; coins need 0 confirmations when the policy allows zero-conf shielding, else `untrusted` confirmations (ConfirmationsPolicy docs); propose_shielding_coinbase, coinbase maturity and ephemeral (TEX) coins are not covered");
    run.assume("the reference upper bound of spendable value counts every unspent, confirmed, not pending-spent, unlocked-or-overridable note of the permitted pools including dust; minimum fee = 10_000 (ZIP 317)");
    run.assume("witness verdicts are memoised across states by the byte-identical content of the pool's tree tables (shards, cap, checkpoints, removed marks, retained checkpoints) plus the chain description: witness_at_checkpoint_id is a deterministic function of those tables, the position and the checkpoint id");
    run.assume("the anchor of a step must not be above target height minus the policy's trusted confirmations (ConfirmationsPolicy::anchor_height documentation); a lower (bucketed, ZIP 318) anchor is accepted");

    let mut tot = Totals::default();
    let mut descs = serde_json::Map::new();
    let mut all_done = true;
    let mut depth1_done = false;
    for sp in &sps {
        let now = t0.elapsed().as_secs_f64();
        let deadline = now + (wall_cap_s - now).max(0.0) * sp.wall_share;
        let (d, cap) = search(&sh, sp, deadline, &mut tot);
        if let Some(c) = &cap {
            run.cap_hit(c);
            all_done = false;
        }
        depth1_done |= d["completed_depth"].as_u64().unwrap_or(0) >= 1 || std::env::var("C08_DEPTH").is_ok();
        descs.insert(sp.name.to_string(), d);
    }
    if std::env::var("VERIF_PROGRESS").is_ok() {
        let c = oracle::CALLS.load(Ordering::Relaxed).max(1);
        eprintln!("proposal calls {c}: {:.2} ms/call inside the wallet, {:.2} ms/request overall", oracle::CALL_NS.load(Ordering::Relaxed) as f64 / 1e6 / c as f64, oracle::EVAL_NS.load(Ordering::Relaxed) as f64 / 1e6 / c as f64);
        let n = oracle::WIT_N.load(Ordering::Relaxed).max(1);
        eprintln!("witness computations {n}: {:.2} ms each", oracle::WIT_NS.load(Ordering::Relaxed) as f64 / 1e6 / n as f64);
    }
    run.add_graph(tot.states, tot.transitions, tot.transitions + tot.evals);
    run.add_evaluations(tot.evals + tot.transitions);
    run.eval_distinct_only(tot.evals + tot.evaluated_states);
    let outcomes = std::mem::take(&mut *sh.outcomes.lock().unwrap());
    for (k, v) in &outcomes {
        run.outcome_n(k, *v);
    }
    run.section("searches", Value::Object(descs));
    run.section(
        "universe",
        json!({
            "first": uni::F, "tip": uni::T0, "nu6_3": uni::N63, "retention_interval": uni::RETENTION,
            "notes": env.u.notes.iter().filter(|n| n.label.is_some()).map(|n| format!("{}:{:?}:{:?}:{:?}:{}@{}", n.label.unwrap(), n.owner, n.pool, n.scope, n.value, n.height)).collect::<Vec<_>>(),
            "start_states": env.starts.iter().map(|s| json!({"name": s.0, "unscanned_gap": s.2, "tip": s.3})).collect::<Vec<_>>(),
            "pending": env.pend.iter().map(|p| json!({"spends": p.spends.iter().map(|i| env.u.notes[*i].label).collect::<Vec<_>>(), "build_target": p.build_target, "expiry": p.expiry, "fee": p.fee,
                       "outputs": p.outs.iter().map(|o| json!({"owner": format!("{:?}", o.owner), "value": o.value})).collect::<Vec<_>>()})).collect::<Vec<_>>(),
            "setup_s": t_setup,
        }),
    );
    run.section("lattices", json!({"mini": {"requests": sh.lats[0].reqs.len(), "what": sh.lats[0].describe}, "core": {"requests": sh.lats[1].reqs.len(), "what": sh.lats[1].describe}, "quick": {"requests": sh.lats[2].reqs.len(), "what": sh.lats[2].describe}, "thorough": {"requests": sh.lats[3].reqs.len(), "what": sh.lats[3].describe}}));
    run.sample(case_json(0, &[Op::Lock { owner: 0, set: 0, far: false }, Op::Advance { k: 1 }], Some(&sh.lats[2].reqs[0]), 2));
    run.sample(case_json(0, &[Op::Store { p: 0 }, Op::Advance { k: 41 }], Some(&sh.lats[2].reqs[1]), 2));
    run.sample(case_json(1, &[Op::FillGap, Op::Lock { owner: 1, set: 1, far: true }], None, 0));

    let mut f = std::mem::take(&mut *sh.failures.lock().unwrap());
    f.sort_by(|a, b| (a.ops.len(), a.start, &a.ops, &a.req).cmp(&(b.ops.len(), b.start, &b.ops, &b.req)));
    let total_fail = f.len();
    if total_fail > 0 {
        run.section("failures_found", json!({"total": total_fail, "reported": total_fail.min(8)}));
    }
    for x in f.into_iter().take(8) {
        let key = format!("{}|{}", ops_key(env, x.start, &x.ops), x.req.as_ref().map(|r| r.key()).unwrap_or("-".into()));
        run.fail("state", key, x.msg, case_json(x.start, &x.ops, x.req.as_ref(), x.level));
    }
    // Vacuity guards. Outcomes that need depth 2-3 are demanded only when the search completed.
    run.require(depth1_done || run.failure_count() > 0, "the wall budget was exhausted before depth 1 of any search completed (machine too loaded): nothing meaningful explored");
    let debug_run = std::env::var("C08_DEPTH").is_ok() || std::env::var("C08_NOEVAL").is_ok();
    let has = |k: &str| outcomes.contains_key(k) || run.failure_count() > 0 || debug_run;
    for k in [
        "transfer:ok",
        "standard:ok",
        "sendmax:ok",
        "shield:ok",
        "shield:err:InsufficientFunds",
        "ok:transparent-input",
        "transfer:err:InsufficientFunds",
        "ok:locked-note-skipped",
        "ok:pending-spent-note-skipped",
        "ok:unconfirmed-note-skipped",
        "ok:chain-spent-note-skipped",
        "ok:spent-through-overridable-lock",
        "ok:steps=2",
        "ok:anchor-below-policy-depth",
        "ok:input-mined-exactly-at-bucketed-anchor",
        "ok:input-mined-exactly-at-anchor",
        "op:lock:ok",
        "op:store:ok",
        "op:advance",
        "state:has-active-lock",
        "state:has-unexpired-pending",
        "state:target-pre-nu6.3",
        "state:target-post-nu6.3",
        "state:scan-gap-open",
    ] {
        run.require(has(k), &format!("outcome `{k}` never occurred"));
    }
    if all_done {
        for k in [
            "ok:used-note-with-expired-lock",
            "ok:used-input-of-expired-pending",
            "ok:used-change-of-mined-pending",
            "op:lock:refused:foreign-active-lock",
            "op:lock:ok:same-owner-relock",
            "op:lock:ok:over-expired-foreign-lock",
            "op:unlock:ok",
            "op:unlock:not-owner",
            "op:clear:ok",
            "op:mine",
            "op:rewind:exact",
            "op:store:unlocked-spent-input",
            "op:store:spends-coin-not-yet-known",
            "op:store:spends-known-coin",
            "op:pututxo:spender-stored-before-coin",
            "op:pututxo:coin-first",
            "ok:pending-spent-coin-skipped",
            "ok:unconfirmed-shielding-product-skipped",
            "state:has-expired-pending",
            "state:pending-expiry-equals-target",
            "state:lock-expiry-equals-target",
            "state:has-expired-lock",
            "state:pending-mined",
        ] {
            run.require(has(k), &format!("outcome `{k}` never occurred although the search completed"));
        }
    }
    run.require(run.outcomes_distinct() >= 20 || run.failure_count() > 0 || debug_run, "vacuous exploration");
    run.finish(&replay)
}
