//! wallet_mc — explicit-state and fault-enumeration checks of the SQLite wallet
mod c01;
mod c02;
mod c05;
mod c06;
mod c08;
mod c15;

use mc_core::{machinery_error, replay_file, Args};
use serde_json::Value;

fn replay(prop: &str) -> fn(&str, &Value) -> Result<(), String> {
    match prop {
        "C01" => c01::replay,
        "C02" => c02::replay,
        "C05" => c05::replay,
        "C06" => c06::replay,
        "C08" => c08::replay,
        "C15" => c15::replay,
        _ => machinery_error(&format!("wallet_mc does not serve {prop}")),
    }
}

fn main() {
    let args = Args::parse();
    let rp = replay(&args.prop);
    if let Some(p) = &args.replay {
        std::process::exit(replay_file(p, &rp));
    }
    let code = match args.prop.as_str() {
        "C01" => c01::run(&args),
        "C02" => c02::run(&args),
        "C05" => c05::run(&args),
        "C06" => c06::run(&args),
        "C08" => c08::run(&args),
        "C15" => c15::run(&args),
        _ => unreachable!(),
    };
    std::process::exit(code);
}
