//! wallet_mc — explicit-state and fault-enumeration checks of the SQLite wallet
mod db;
mod graph;
mod universe;
mod universes;
mod c01;
mod c02;
mod c05;
mod c06;
mod c08;
mod c15;

use mc_core::{machinery_error, replay_file, Args};
use serde_json::Value;

fn replay(prop: &str) -> fn(&str, &Value) -> Result<(), String> {
    match prop {
        "C01" => c01::replay,
        "C02" => c02::replay,
        "C05" => c05::replay,
        "C06" => c06::replay,
        "C08" => c08::replay,
        "C15" => c15::replay,
        _ => machinery_error(&format!("wallet_mc does not serve {prop}")),
    }
}

fn main() {
    // SQLite's allocator keeps global memory statistics behind one process-wide mutex; with sixteen
    // workers on in-memory databases that mutex dominates. The statistics are not used here.
    // Must happen before the first connection is opened.
    unsafe {
        rusqlite::ffi::sqlite3_config(rusqlite::ffi::SQLITE_CONFIG_MEMSTATUS, 0);
    }
    // File-backed wallets (two-connection experiments) are NamedTempFiles: keep them on tmpfs, where
    // the journal's fsyncs cost nothing. Crash consistency of the file system is not a subject here.
    if std::path::Path::new("/dev/shm").is_dir() && std::env::var_os("VERIF_KEEP_TMPDIR").is_none() {
        std::env::set_var("TMPDIR", "/dev/shm");
    }
    let args = Args::parse();
    if args.prop == "PROFILE" {
        use std::time::Instant;
        let (u, cfg) = c01::setup("small", 9, 1, 1e9);
        let t = Instant::now();
        let mut w = db::new_wallet(&u, 4, false);
        eprintln!("new_wallet {:?}", t.elapsed());
        let fresh = (0..u.chains.len()).map(|c| graph::fresh_reference(&u, &cfg, c)).collect();
        let cx = graph::Ctx { u: &u, cfg: &cfg, fresh };
        let mut m = graph::Model::default();
        let f = universes::FIRST;
        for op in [graph::Op::Scan { from: f, to: f }, graph::Op::Tip { h: f + 6 }, graph::Op::Scan { from: f + 2, to: f + 4 }, graph::Op::Scan { from: f + 1, to: f + 1 }, graph::Op::Rewind { h: f + 3, switch: 1 }, graph::Op::Scan { from: f + 4, to: f + 6 }] {
            let t = Instant::now();
            let snap = db::snapshot(w.db.conn());
            let t_snap = t.elapsed();
            let t = Instant::now();
            db::restore(w.db.conn_mut(), &snap);
            let t_rest = t.elapsed();
            let t = Instant::now();
            let r = graph::apply(&mut w, &u, &m, &op).unwrap();
            let t_apply = t.elapsed();
            if let graph::StepResult::Done(n) = r {
                m = n;
            }
            let t = Instant::now();
            let k = graph::canon(w.db.conn());
            let t_canon = t.elapsed();
            let t = Instant::now();
            let c = graph::check_balance(&mut w, &cx, &m);
            let t_check = t.elapsed();
            let t = Instant::now();
            let d = db::dump_digest(w.db.conn(), &[]);
            let t_dig = t.elapsed();
            eprintln!("{op:?}: snap {t_snap:?} restore {t_rest:?} apply {t_apply:?} canon {t_canon:?} ({} bytes) check {t_check:?} ok={} digest {t_dig:?} {}", k.len(), c.is_ok(), &d[..8]);
        }
        return;
    }
    if args.prop == "PROFILE2" {
        let (u, _cfg) = c01::setup("tiny", 9, 1, 1e9);
        let mut w = db::new_wallet(&u, 4, false);
        let snap = db::snapshot(w.db.conn());
        let m = graph::Model::default();
        let f = universes::FIRST;
        let n: usize = std::env::var("VERIF_N").ok().and_then(|s| s.parse().ok()).unwrap_or(5);
        let t = std::time::Instant::now();
        for _ in 0..n {
            db::restore(w.db.conn_mut(), &snap);
            w.refresh_accounts();
            let _ = graph::apply(&mut w, &u, &m, &graph::Op::Scan { from: f, to: f }).unwrap();
        }
        eprintln!("{n} x (restore + scan of one block): {:?}", t.elapsed());
        return;
    }
    if args.prop == "SCHEMA" {
        let u = universe::Universe::new(Some(100_110), 100_100, ((1 << 16) - 2, (1 << 16) - 2), 1);
        let w = db::new_wallet(&u, 4, false);
        for l in db::schema(w.db.conn()) {
            println!("{l}");
        }
        return;
    }
    let rp = replay(&args.prop);
    if let Some(p) = &args.replay {
        std::process::exit(replay_file(p, &rp));
    }
    let code = match args.prop.as_str() {
        "C01" => c01::run(&args),
        "C02" => c02::run(&args),
        "C05" => c05::run(&args),
        "C06" => c06::run(&args),
        "C08" => c08::run(&args),
        "C15" => c15::run(&args),
        _ => unreachable!(),
    };
    std::process::exit(code);
}
