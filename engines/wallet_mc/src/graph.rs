//! Explicit-state exploration of the real SQLite wallet under scan / tip / rewind operations.
//!
//! States are SQLite snapshots of the real wallet plus the reference model (a ledger fed with the
//! same operations). State matching is on a canonical *logical* dump of the database (surrogate
//! row ids replaced by txids / output indices) together with the model. The exploration is a
//! level-synchronous breadth-first search; the transitions of one level run in parallel, each
//! worker owning its own wallet connection into which the source state's snapshot is restored.
//!
//! Oracles (selected by `Cfg`): C01 ledger/balance, C06 tree roots/witnesses/checkpoints,
//! C15 scan-queue structure and sync termination.

use std::collections::{BTreeMap, BTreeSet, HashMap};
use std::sync::atomic::{AtomicU64, Ordering};
use std::sync::{Arc, Mutex};
use std::time::Instant;

use serde::{Deserialize, Serialize};
use zcash_client_backend::data_api::chain::scan_cached_blocks;
use zcash_client_backend::data_api::wallet::ConfirmationsPolicy;
use zcash_client_backend::data_api::{WalletRead, WalletWrite};
use zcash_protocol::consensus::BlockHeight;

use crate::db::{self, Snapshot, Wallet};
use crate::universe::{Owner, Pool, Universe, POOLS};

pub const TREE_CONFLICT_SIG: &str = "SIG:tree-insert-conflict-after-rewind";
pub const EXPIRY_DELTA: u32 = 40; // DEFAULT_TX_EXPIRY_DELTA, documented in wallet/common.rs

#[derive(Clone, Debug, Serialize, Deserialize, PartialEq, Eq, Hash, PartialOrd, Ord)]
pub enum Op {
    /// scan_cached_blocks(from, limit = to - from + 1) on the current chain
    Scan { from: u32, to: u32 },
    /// update_chain_tip(h)
    Tip { h: u32 },
    /// truncate_to_height(h), after which the environment serves chain `switch`
    Rewind { h: u32, switch: usize },
    /// rewind_to_chain_state(chain state at the end of block h, no birthday resets): the scan queue
    /// is rewound to h (everything above must be scanned again) while data below the pruning floor is
    /// preserved; the environment keeps serving the same chain. Offered to the C15 exploration only.
    RewindState { h: u32 },
    /// put_{sapling,orchard,ironwood}_subtree_roots with the roots of every shard completed on the chain
    Roots,
    /// one step of a light client: take the wallet's first suggested scan range and scan a chunk
    /// of it (`from_end`: the chunk is taken from the end of the range; `size`: 0 = one block,
    /// 1 = half the range, 2 = the whole range)
    Client { from_end: bool, size: u8 },
    /// what building a spend does to the trees: `witness_at_checkpoint_id_caching` for every mined
    /// wallet note at the newest checkpoint (the computed subtree roots are cached in the tree's cap)
    Witness,
}

#[derive(Clone, Debug, Default, PartialEq, Eq)]
pub struct Model {
    pub chain: usize,
    /// heights of the current chain whose blocks are in the wallet
    pub scanned: BTreeSet<u32>,
    pub tip: Option<u32>,
    /// txid -> height at which it was first observed, for every transaction ever stored
    pub seen: BTreeMap<[u8; 32], u32>,
    /// txid -> observed height, for transactions un-mined by a rewind and not re-mined since
    pub orphans: BTreeMap<[u8; 32], u32>,
    pub rewinds: u32,
    pub roots_put: bool,
    /// C15: the scan queue as the pointwise reference sees it, height -> priority index
    /// (0 Ignored .. 6 Verify); None until the first tracked operation (and when not tracked).
    pub queue: Option<BTreeMap<u32, u8>>,
}

impl Model {
    pub fn key(&self) -> String {
        format!("{:?}", self)
    }
}

#[derive(Clone)]
pub struct Cfg {
    pub retention: u32,
    pub max_rewinds: u32,
    pub max_depth: usize,
    pub check_balance: bool,
    pub check_trees: bool,
    pub check_queue: bool,
    pub wall_cap_s: f64,
    pub state_cap: usize,
    /// Tip heights offered (absolute).
    pub tips: Vec<u32>,
    /// Rewind heights offered (absolute).
    pub rewind_heights: Vec<u32>,
    /// Extra split points inside segments (a scan may start/end there).
    pub splits: Vec<u32>,
    /// Offer the subtree-root insertion operation.
    pub with_roots: bool,
    /// Offer light-client steps driven by suggest_scan_ranges.
    pub with_client: bool,
    /// Offer rewind_to_chain_state (queue-level model only: use with the C15 oracle).
    pub with_rewind_state: bool,
    /// Offer the caching Merkle-path computation a spend performs.
    pub with_witness: bool,
    /// Offer free-form scans of every contiguous run of segments.
    pub free_scans: bool,
    /// Offer scans of single segments (when `free_scans` is off).
    pub segment_scans: bool,
    /// Longest run of boundaries one free scan may span (usize::MAX = any).
    pub max_run: usize,
    /// C06: per note, Merkle paths are recomputed at all retained checkpoints at or above the note
    /// (0) or only at the first two, the middle one and the last two of them (n > 0 = that rule).
    pub witness_subset: usize,
}

pub struct Ctx<'a> {
    pub u: &'a Universe,
    pub cfg: &'a Cfg,
    /// Per chain: logical dump of mined notes/spends of a fresh wallet that scanned the whole chain
    /// once in height order (the differential oracle).
    pub fresh: Vec<FreshRef>,
}

#[derive(Clone, Default)]
pub struct FreshRef {
    /// false = placeholder (no differential against a fresh linear scan)
    pub valid: bool,
    pub mined_notes: Vec<String>,
    pub spends: Vec<String>,
    pub totals: BTreeMap<(u8, Pool), u64>,
}

pub fn txid_hex_le(txid: &[u8; 32]) -> String {
    hex::encode_upper(txid)
}

// ---------------------------------------------------------------------------------------------
// Canonical logical dump (state key)
// ---------------------------------------------------------------------------------------------

fn idx_col(p: Pool) -> &'static str {
    match p {
        Pool::Sapling => "output_index",
        _ => "action_index",
    }
}

pub fn notes_sql(p: Pool, mined_only: bool) -> String {
    let t = p.prefix();
    format!(
        "SELECT hex(t.txid), rn.{idx}, rn.account_id, rn.value, hex(rn.nf), rn.commitment_tree_position, rn.recipient_key_scope, t.mined_height \
         FROM {t}_received_notes rn JOIN transactions t ON t.id_tx = rn.transaction_id {w}",
        idx = idx_col(p),
        w = if mined_only { "WHERE t.mined_height IS NOT NULL" } else { "" }
    )
}

pub fn spends_sql(p: Pool, mined_only: bool) -> String {
    let t = p.prefix();
    format!(
        "SELECT hex(t.txid), rn.{idx}, hex(st.txid), st.mined_height FROM {t}_received_note_spends s \
         JOIN {t}_received_notes rn ON rn.id = s.{t}_received_note_id \
         JOIN transactions t ON t.id_tx = rn.transaction_id \
         JOIN transactions st ON st.id_tx = s.transaction_id {w}",
        idx = idx_col(p),
        w = if mined_only { "WHERE st.mined_height IS NOT NULL AND t.mined_height IS NOT NULL" } else { "" }
    )
}

pub fn canon(conn: &rusqlite::Connection) -> Vec<u8> {
    let mut out = String::new();
    let mut add = |name: &str, sql: &str| {
        out.push_str("## ");
        out.push_str(name);
        out.push('\n');
        for r in db::query_rows(conn, sql) {
            out.push_str(&r);
            out.push('\n');
        }
    };
    add("blocks", "SELECT * FROM blocks");
    add(
        "transactions",
        "SELECT hex(txid), block, mined_height, tx_index, expiry_height, min_observed_height, confirmed_unmined_at_height, trust_status, target_height, fee, raw IS NOT NULL FROM transactions",
    );
    for p in POOLS {
        let t = p.prefix();
        add(
            &format!("{t}_notes"),
            &format!(
                "SELECT hex(t.txid), rn.{idx}, rn.account_id, rn.value, hex(rn.nf), rn.is_change, rn.commitment_tree_position, rn.recipient_key_scope, rn.witness_stabilized, rn.lock_expiry_height, hex(rn.lock_owner) \
                 FROM {t}_received_notes rn JOIN transactions t ON t.id_tx = rn.transaction_id",
                idx = idx_col(p)
            ),
        );
        add(&format!("{t}_spends"), &spends_sql(p, false));
        add(&format!("{t}_shards"), &format!("SELECT shard_index, subtree_end_height, hex(root_hash), hex(shard_data), contains_marked FROM {t}_tree_shards"));
        add(&format!("{t}_cap"), &format!("SELECT cap_id, hex(cap_data) FROM {t}_tree_cap"));
        add(&format!("{t}_checkpoints"), &format!("SELECT * FROM {t}_tree_checkpoints"));
        add(&format!("{t}_marks_removed"), &format!("SELECT * FROM {t}_tree_checkpoint_marks_removed"));
        add(&format!("{t}_retained"), &format!("SELECT * FROM {t}_tree_retained_checkpoints"));
    }
    add("nullifier_map", "SELECT spend_pool, hex(nf), block_height, tx_index FROM nullifier_map");
    add("tx_locator_map", "SELECT block_height, tx_index, hex(txid) FROM tx_locator_map");
    add("scan_queue", "SELECT * FROM scan_queue");
    add(
        "tx_retrieval_queue",
        "SELECT hex(q.txid), q.query_type, (SELECT hex(txid) FROM transactions WHERE id_tx = q.dependent_transaction_id) FROM tx_retrieval_queue q",
    );
    add("addresses", "SELECT account_id, key_scope, hex(diversifier_index_be), exposed_at_height FROM addresses");
    add("sent_notes", "SELECT count(*) FROM sent_notes");
    out.into_bytes()
}

// ---------------------------------------------------------------------------------------------
// Transition function: run the op on the real wallet, update the reference model
// ---------------------------------------------------------------------------------------------

#[derive(Clone)]
pub enum StepResult {
    /// The wallet performed the operation; new model.
    Done(Model),
    /// The wallet refused (documented error); the database must be unchanged.
    Refused(String),
}

/// Set by the C06 check: every Scan operation also compares the checkpoint heights it added per pool.
pub static TRACK_SCAN_CHECKPOINTS: std::sync::atomic::AtomicBool = std::sync::atomic::AtomicBool::new(false);

fn checkpoint_ids(w: &Wallet, p: Pool) -> BTreeSet<u32> {
    db::query_rows(w.db.conn(), &format!("SELECT checkpoint_id FROM {}_tree_checkpoints", p.prefix())).iter().map(|r| r.parse::<u32>().unwrap()).collect()
}

/// The height from which pruning may not have removed anything in any pool: the oldest of the 100
/// (PRUNING_DEPTH) newest prunable checkpoints - those outside the retained anchor grid - of a pool
/// that holds at least that many; 0 when no pool does.
fn pruning_floor(w: &Wallet, cp_sets: &[BTreeSet<u32>]) -> u32 {
    let mut floor = 0u32;
    for (i, p) in POOLS.iter().enumerate() {
        let retained: BTreeSet<u32> = db::query_rows(w.db.conn(), &format!("SELECT checkpoint_id FROM {}_tree_retained_checkpoints", p.prefix())).iter().map(|r| r.parse::<u32>().unwrap()).collect();
        let prunable: Vec<u32> = cp_sets[i].iter().copied().filter(|h| !retained.contains(h)).collect();
        if prunable.len() >= 100 {
            floor = floor.max(prunable[prunable.len() - 100]);
        }
    }
    floor
}

/// Set by the C15 check: every operation's effect on the scan queue is compared, height by height,
/// with the documented insertions of that operation applied through the documented dominance rule.
pub static TRACK_QUEUE_PRIORITIES: std::sync::atomic::AtomicBool = std::sync::atomic::AtomicBool::new(false);

thread_local! {
    /// height `truncate_to_height` reported in the last Rewind on this thread
    static LAST_TRUNCATION: std::cell::Cell<u32> = const { std::cell::Cell::new(0) };
}

const PRIO_NAMES: [&str; 7] = ["Ignored", "Scanned", "Historic", "OpenAdjacent", "FoundNote", "ChainTip", "Verify"];
const P_S: u8 = 1;
const P_H: u8 = 2;
const P_F: u8 = 4;
const P_C: u8 = 5;
const P_V: u8 = 6;

/// The wallet's scan queue expanded to height -> priority index.
fn read_queue(w: &Wallet) -> BTreeMap<u32, u8> {
    let conn = w.db.conn();
    let mut st = conn.prepare("SELECT block_range_start, block_range_end, priority FROM scan_queue ORDER BY block_range_start").unwrap();
    let rows: Vec<(u32, u32, i64)> = st.query_map([], |r| Ok((r.get::<_, u32>(0)?, r.get::<_, u32>(1)?, r.get::<_, i64>(2)?))).unwrap().map(|x| x.unwrap()).collect();
    let mut q = BTreeMap::new();
    for (s, e, p) in rows {
        for h in s..e {
            q.insert(h, (p / 10) as u8);
        }
    }
    q
}

/// Pointwise insertion of `range` (half-open) with priority `p`: the documented dominance table on
/// covered heights, the inserted priority on uncovered ones, Historic in a gap between the queue and
/// a disjoint insertion.
fn ref_insert(q: &mut BTreeMap<u32, u8>, range: std::ops::Range<u32>, p: u8, force: bool) {
    if range.is_empty() {
        return;
    }
    if let (Some(lo), Some(hi)) = (q.keys().next().copied(), q.keys().next_back().copied()) {
        for h in hi + 1..range.start {
            q.insert(h, P_H);
        }
        for h in range.end..lo {
            q.insert(h, P_H);
        }
    }
    for h in range {
        let v = match q.get(&h) {
            Some(cur) => crate::c15::spanning::RULE[force as usize][*cur as usize][p as usize],
            None => p,
        };
        q.insert(h, v);
    }
}

fn show_queue(q: &BTreeMap<u32, u8>) -> String {
    let mut out: Vec<(u32, u32, u8)> = vec![];
    for (h, p) in q {
        match out.last_mut() {
            Some(l) if l.2 == *p && l.1 == *h => l.1 = h + 1,
            _ => out.push((*h, h + 1, *p)),
        }
    }
    out.iter().map(|(s, e, p)| format!("{s}..{e} {}", PRIO_NAMES[*p as usize])).collect::<Vec<_>>().join(", ")
}

/// What the queue must look like after `op`, from the queue before it and facts read from the
/// database BEFORE the operation ran (`pre`): the insertions each wallet operation documents
/// (scanning.rs: `scan_complete`, `update_chain_tip`; wallet.rs: `trim_scan_queue_to`,
/// `rewind_to_chain_state`), applied pointwise.
struct QueuePre {
    q: BTreeMap<u32, u8>,
    /// min over the pools that have shard metadata of MAX(subtree_end_height)
    min_shard_tip: Option<u32>,
    max_scanned: Option<u32>,
    /// per pool: MIN(checkpoint_id) >= max(target, pruning floor), for RewindState
    checkpoints: Vec<BTreeSet<u32>>,
}

fn queue_pre(w: &Wallet, m: &Model) -> QueuePre {
    let conn = w.db.conn();
    let mut tips = vec![];
    for p in POOLS {
        if let Some(r) = db::query_rows(conn, &format!("SELECT MAX(subtree_end_height) FROM {}_tree_shards", p.prefix())).first() {
            if let Ok(h) = r.parse::<u32>() {
                tips.push(h);
            }
        }
    }
    QueuePre {
        q: m.queue.clone().unwrap_or_else(|| read_queue(w)),
        min_shard_tip: tips.into_iter().min(),
        max_scanned: db::query_rows(conn, "SELECT MAX(height) FROM blocks").first().and_then(|r| r.parse::<u32>().ok()),
        checkpoints: POOLS.iter().map(|p| checkpoint_ids(w, *p)).collect(),
    }
}

fn expected_queue(u: &Universe, op: &Op, pre: &QueuePre) -> Option<BTreeMap<u32, u8>> {
    let mut q = pre.q.clone();
    let birthday = u.first;
    match op {
        Op::Scan { from, to } => ref_insert(&mut q, *from..*to + 1, P_S, false),
        Op::Tip { h } => {
            // update_chain_tip: nothing when the tip is below what is already scanned
            if pre.max_scanned.map_or(false, |ms| *h < ms) {
                return Some(q);
            }
            let chain_end = *h + 1;
            // "a scanning range for the fragment of the last shard leading up to new tip", lower
            // bound at the wallet birthday
            let shard_entry = pre.min_shard_tip.filter(|s| *s < chain_end).map(|s| if birthday > s { birthday } else { s }..chain_end);
            let (tip_range, tip_prio) = match pre.max_scanned {
                // "mark all blocks between [the birthday] and the chain tip as Historic"
                None => (birthday..chain_end, P_H),
                Some(ms) => {
                    let min_unscanned = ms + 1;
                    if shard_entry.is_none() {
                        // no shard metadata: linear scanning
                        (min_unscanned..chain_end, P_H)
                    } else {
                        let stable = h.saturating_sub(100);
                        if ms > stable {
                            (min_unscanned..chain_end, P_C)
                        } else {
                            // "prioritize the VERIFY_LOOKAHEAD blocks above the max scanned height as
                            // Verify ... at most the stable region ... If max_scanned == stable_height
                            // then this is a zero-length range"
                            (min_unscanned..(stable + 1).min(min_unscanned + 10), P_V)
                        }
                    }
                }
            };
            if let Some(se) = shard_entry {
                ref_insert(&mut q, se, P_C, false);
            }
            ref_insert(&mut q, tip_range, tip_prio, false);
        }
        Op::Rewind { .. } => {
            // trim_scan_queue_to(achieved height): everything above it is dropped
            let r = LAST_TRUNCATION.with(|c| c.get());
            q.retain(|h, _| *h <= r);
        }
        Op::RewindState { h } => {
            let tip = pre.q.keys().next_back().copied();
            if let Some(ms) = pre.max_scanned.filter(|ms| *h < *ms) {
                let floor = ms.saturating_sub(99);
                let target = (*h).max(floor);
                // "the deepest checkpoint at or above truncation_target retained by any pool"
                let th = pre.checkpoints.iter().filter_map(|s| s.range(target..).next().copied()).min().unwrap_or(floor);
                q.retain(|hh, _| *hh <= th);
            }
            // "Overwrite the scan-queue range above the rewind target with a Historic rescan range
            // ... With force_rescans = true the only entries this preserves are those whose priority
            // would dominate Historic even under a forced rescan"
            if let Some(t) = tip.filter(|t| *h < *t) {
                ref_insert(&mut q, *h + 1..t + 1, P_H, true);
            }
        }
        Op::Roots | Op::Witness | Op::Client { .. } => return None,
    }
    Some(q)
}

pub fn apply(w: &mut Wallet, u: &Universe, m: &Model, op: &Op) -> Result<StepResult, String> {
    // (a Client step is a Scan chosen from the wallet's suggestion: tracked through the inner call)
    let track = TRACK_QUEUE_PRIORITIES.load(Ordering::Relaxed) && !matches!(op, Op::Client { .. });
    let pre = if track { Some(queue_pre(w, m)) } else { None };
    let r = apply_inner(w, u, m, op)?;
    let (Some(pre), StepResult::Done(mut n)) = (pre, r.clone()) else { return Ok(r) };
    let actual = read_queue(w);
    if let Some(expected) = expected_queue(u, op, &pre) {
        let heights: BTreeSet<u32> = expected.keys().chain(actual.keys()).copied().collect();
        for h in heights {
            let (e, a) = (expected.get(&h).copied(), actual.get(&h).copied());
            if e == a {
                continue;
            }
            // scan_complete may also raise unscanned heights around the scanned range to FoundNote
            // (the blocks that complete the shards of discovered notes); which ones depends on shard
            // metadata and is not modelled: accepted wherever FoundNote is what the dominance rule
            // gives for that height.
            if let (Op::Scan { from, to }, Some(a)) = (op, a) {
                let outside = h < *from || h > *to;
                let e0 = e.unwrap_or(P_F);
                if outside && a == crate::c15::spanning::RULE[0][e0 as usize][P_F as usize] && a == P_F {
                    continue;
                }
            }
            return Err(format!(
                "after {op:?} the scan queue gives height {h} priority {} but the documented insertions of the operation, applied pointwise through the dominance rule to the queue before it, give {}; queue before: [{}]; queue after: [{}]; expected: [{}]",
                a.map_or("(none)", |x| PRIO_NAMES[x as usize]),
                e.map_or("(none)", |x| PRIO_NAMES[x as usize]),
                show_queue(&pre.q),
                show_queue(&actual),
                show_queue(&expected)
            ));
        }
    }
    if std::env::var("VERIF_DEBUG_QUEUE").is_ok() {
        eprintln!("== {op:?}: before [{}]\n   after  [{}]", show_queue(&pre.q), show_queue(&actual));
    }
    n.queue = Some(actual);
    Ok(StepResult::Done(n))
}

fn apply_inner(w: &mut Wallet, u: &Universe, m: &Model, op: &Op) -> Result<StepResult, String> {
    match op {
        Op::Roots => {
            use crate::universe::ShardRoot;
            use zcash_client_backend::data_api::chain::CommitmentTreeRoot;
            for b in u.chains[m.chain].blocks.values() {
                for (pool, idx, root) in &b.completed {
                    let h = BlockHeight::from_u32(b.height);
                    let r = mc_core::catch(|| match (pool, root) {
                        (Pool::Sapling, ShardRoot::Sapling(n)) => w.db.put_sapling_subtree_roots(*idx, &[CommitmentTreeRoot::from_parts(h, *n)]).map_err(|e| format!("{e:?}")),
                        (Pool::Orchard, ShardRoot::Orchard(n)) => w.db.put_orchard_subtree_roots(*idx, &[CommitmentTreeRoot::from_parts(h, *n)]).map_err(|e| format!("{e:?}")),
                        (Pool::Ironwood, ShardRoot::Orchard(n)) => w.db.put_ironwood_subtree_roots(*idx, &[CommitmentTreeRoot::from_parts(h, *n)]).map_err(|e| format!("{e:?}")),
                        _ => unreachable!(),
                    });
                    match r {
                        Err(p) => return Err(format!("panic in put_{pool:?}_subtree_roots: {p}")),
                        Ok(Err(e)) => return Err(format!("put_{pool:?}_subtree_roots({idx}) with the true root failed: {e}")),
                        Ok(Ok(())) => {}
                    }
                }
            }
            let mut n = m.clone();
            n.roots_put = true;
            Ok(StepResult::Done(n))
        }
        Op::Witness => {
            let mined_ids = u.notes_created_in(m.chain, m.scanned.iter().copied());
            for p in POOLS {
                let top: Option<u32> = db::query_rows(w.db.conn(), &format!("SELECT MAX(checkpoint_id) FROM {}_tree_checkpoints", p.prefix())).first().and_then(|r| r.parse().ok());
                let Some(top) = top else { continue };
                let notes: Vec<(u64, [u8; 32])> = u.notes.iter().filter(|n| n.pool == p && n.owner != Owner::Foreign && mined_ids.contains(&n.id)).map(|n| (n.position, n.cm)).collect();
                let got = caching_witness_roots(w, p, top, &notes)?;
                // a path that is produced must verify against the chain's root at that checkpoint
                if top + 1 != u.first && u.chains[m.chain].blocks.contains_key(&top) {
                    let truth = truth_root(u, m.chain, p, top);
                    for ((pos, _), r) in notes.iter().zip(got.iter()) {
                        if let Some(r) = r {
                            if *r != truth && m.scanned.contains(&top) {
                                return Err(format!("{p:?} Merkle path (caching API) of note at position {pos} at checkpoint {top} yields root {} instead of {}; scanned={:?}", hex::encode(r), hex::encode(truth), m.scanned));
                            }
                        }
                    }
                }
            }
            Ok(StepResult::Done(m.clone()))
        }
        Op::RewindState { h } => {
            let st = if *h + 1 == u.first { u.genesis.clone() } else { u.chains[m.chain].blocks[h].state_after.clone() };
            let r = mc_core::catch(|| w.db.rewind_to_chain_state(st, std::collections::HashSet::new()));
            match r {
                Err(p) => Err(format!("panic in rewind_to_chain_state({h}): {p}")),
                Ok(Err(e)) => Ok(StepResult::Refused(format!("{e:?}"))),
                Ok(Ok(())) => {
                    let mut n = m.clone();
                    let removed: Vec<u32> = n.scanned.range(*h + 1..).copied().collect();
                    for hh in removed {
                        n.scanned.remove(&hh);
                    }
                    n.rewinds += 1;
                    Ok(StepResult::Done(n))
                }
            }
        }
        Op::Client { from_end, size } => {
            let ranges = match mc_core::catch(|| w.db.suggest_scan_ranges()) {
                Err(p) => return Err(format!("panic in suggest_scan_ranges: {p}")),
                Ok(Err(e)) => return Err(format!("suggest_scan_ranges failed: {e:?}")),
                Ok(Ok(r)) => r,
            };
            let ctip = u.chains[m.chain].tip();
            let Some(first) = ranges.first() else { return Ok(StepResult::Refused("nothing suggested".into())) };
            let (s, e) = (u32::from(first.block_range().start), u32::from(first.block_range().end));
            // the client can only fetch blocks that exist
            let e = e.min(ctip + 1);
            if s < u.first || s >= e {
                return Ok(StepResult::Refused(format!("suggested range {s}..{e} not fetchable")));
            }
            let len = e - s;
            let chunk = match size {
                0 => 1,
                1 => (len / 2).max(1),
                _ => len,
            };
            let (from, to) = if *from_end { (e - chunk, e - 1) } else { (s, s + chunk - 1) };
            let before = (u.first..=m.tip.unwrap_or(0).min(ctip)).filter(|h| !m.scanned.contains(h)).count();
            match apply(w, u, m, &Op::Scan { from, to })? {
                StepResult::Done(n) => {
                    let after = (u.first..=n.tip.unwrap_or(0).min(ctip)).filter(|h| !n.scanned.contains(h)).count();
                    if after >= before {
                        return Err(format!(
                            "client step scanning {from}..={to} of suggested range {s}..{e} ({:?}) made no progress: {before} unscanned blocks before, {after} after (sync need not terminate within #blocks steps)",
                            first.priority()
                        ));
                    }
                    Ok(StepResult::Done(n))
                }
                StepResult::Refused(why) => Err(format!("{why} -- the wallet suggested {s}..{e} ({:?}) but scanning {from}..={to} of it fails, so a client working from that end never finishes syncing", first.priority())),
            }
        }
        Op::Scan { from, to } => {
            let src = u.source(m.chain);
            let from_state = u.state_before(m.chain, *from).clone();
            let limit = (*to - *from + 1) as usize;
            let track = TRACK_SCAN_CHECKPOINTS.load(Ordering::Relaxed);
            let before: Vec<BTreeSet<u32>> = if track { POOLS.iter().map(|p| checkpoint_ids(w, *p)).collect() } else { vec![] };
            let r = mc_core::catch(|| scan_cached_blocks(&u.network, &src, &mut w.db, BlockHeight::from_u32(*from), &from_state, limit));
            match r {
                Err(p) => Err(format!("panic in scan_cached_blocks({from}..={to}): {p}")),
                Ok(Err(e)) => {
                    let txt = format!("{e:?}");
                    Err(format!("scan_cached_blocks({from}..={to}) on a well-formed connected chain failed: {txt}"))
                }
                Ok(Ok(summary)) => {
                    let got = (u32::from(summary.scanned_range().start), u32::from(summary.scanned_range().end));
                    if got != (*from, *to + 1) {
                        return Err(format!("scan summary range {:?} != requested {}..{}", got, from, to + 1));
                    }
                    if track {
                        // C06: one scan checkpoints every pool at the same heights (put_blocks: the
                        // missing checkpoints of each pool are inserted). Compared from the pruning
                        // floor up: a pool holding its full budget of prunable checkpoints has dropped
                        // older ones, which an idle pool does only on its next insertion.
                        let after: Vec<BTreeSet<u32>> = POOLS.iter().map(|p| checkpoint_ids(w, *p)).collect();
                        let floor = pruning_floor(w, &after);
                        // every height at which this scan created a checkpoint in some pool ...
                        let created: BTreeSet<u32> = (0..3).flat_map(|i| after[i].difference(&before[i]).copied().collect::<Vec<_>>()).filter(|h| *h >= floor).collect();
                        // ... is a checkpoint of every pool afterwards
                        for (i, p) in POOLS.iter().enumerate() {
                            let missing: Vec<u32> = created.iter().copied().filter(|h| !after[i].contains(h)).take(4).collect();
                            if !missing.is_empty() {
                                return Err(format!("scan {from}..={to} created checkpoints at heights {missing:?} in another pool but the {p:?} tree has none there (compared from height {floor} up)"));
                            }
                        }
                    }
                    let mut n = m.clone();
                    for h in *from..=*to {
                        n.scanned.insert(h);
                        for t in &u.chains[m.chain].blocks[&h].txs {
                            // the wallet stores a transaction only if it involves one of its accounts
                            let involves = t.created.iter().any(|i| u.notes[*i].owner != Owner::Foreign) || t.spent.iter().any(|i| u.notes[*i].owner != Owner::Foreign);
                            if involves {
                                n.seen.entry(t.txid).or_insert(h);
                                n.orphans.remove(&t.txid);
                            }
                        }
                    }
                    n.tip = Some(n.tip.map_or(*to, |t| t.max(*to)));
                    Ok(StepResult::Done(n))
                }
            }
        }
        Op::Tip { h } => {
            let r = mc_core::catch(|| w.db.update_chain_tip(BlockHeight::from_u32(*h)));
            match r {
                Err(p) => Err(format!("panic in update_chain_tip({h}): {p}")),
                Ok(Err(e)) => Err(format!("update_chain_tip({h}) failed: {e:?}")),
                Ok(Ok(())) => {
                    let mut n = m.clone();
                    n.tip = Some(*h);
                    Ok(StepResult::Done(n))
                }
            }
        }
        Op::Rewind { h, switch } => {
            let r = mc_core::catch(|| w.db.truncate_to_height(BlockHeight::from_u32(*h)));
            match r {
                Err(p) => Err(format!("panic in truncate_to_height({h}): {p}")),
                Ok(Err(e)) => Ok(StepResult::Refused(format!("{e:?}"))),
                Ok(Ok(r)) => {
                    let r = u32::from(r);
                    LAST_TRUNCATION.with(|c| c.set(r));
                    if r > *h {
                        return Err(format!("truncate_to_height({h}) reported truncation to {r} > requested"));
                    }
                    let mut n = m.clone();
                    let removed: Vec<u32> = n.scanned.range(r + 1..).copied().collect();
                    for hh in removed {
                        n.scanned.remove(&hh);
                        for t in &u.chains[m.chain].blocks[&hh].txs {
                            if n.seen.contains_key(&t.txid) {
                                n.orphans.insert(t.txid, hh);
                            }
                        }
                    }
                    if let Some(t) = n.tip {
                        n.tip = Some(t.min(r));
                    }
                    n.rewinds += 1;
                    // Subtree roots put for the old branch: the truncation lands inside (or before)
                    // every shard the branches complete differently, so the wallet must have dropped
                    // them; the roots of the new branch can be downloaded (put) afresh.
                    if *switch != m.chain && completed_roots_differ(u, m.chain, *switch) {
                        n.roots_put = false;
                    }
                    n.chain = *switch;
                    Ok(StepResult::Done(n))
                }
            }
        }
    }
}

/// Operations enabled in a model state.
pub fn enabled(u: &Universe, cfg: &Cfg, m: &Model) -> Vec<Op> {
    let mut ops = vec![];
    let chain = &u.chains[m.chain];
    let ctip = chain.tip();
    // scan ranges: between any two boundaries (segment starts, configured splits, chain end)
    let mut bounds: BTreeSet<u32> = u.seg_start.iter().copied().filter(|h| *h <= ctip).collect();
    bounds.extend(cfg.splits.iter().copied().filter(|h| *h > u.first && *h <= ctip));
    bounds.insert(ctip + 1);
    // a fork point is a natural boundary too
    for c in &u.chains {
        if c.fork_height < ctip {
            bounds.insert(c.fork_height + 1);
        }
    }
    let b: Vec<u32> = bounds.into_iter().collect();
    if cfg.free_scans {
        for i in 0..b.len() {
            for j in i + 1..b.len() {
                if j - i > cfg.max_run {
                    continue;
                }
                ops.push(Op::Scan { from: b[i], to: b[j] - 1 });
            }
        }
    } else if cfg.segment_scans {
        // single segments only (enough to reach every scanned-set)
        for i in 0..b.len() - 1 {
            ops.push(Op::Scan { from: b[i], to: b[i + 1] - 1 });
        }
    }
    if cfg.with_roots && !m.roots_put {
        ops.push(Op::Roots);
    }
    if cfg.with_client && m.tip.is_some() {
        for from_end in [false, true] {
            for size in [0u8, 1, 2] {
                ops.push(Op::Client { from_end, size });
            }
        }
    }
    if cfg.with_witness && !m.scanned.is_empty() {
        ops.push(Op::Witness);
    }
    let maxs = m.scanned.iter().next_back().copied();
    for &h in &cfg.tips {
        let lo = m.tip.unwrap_or(0).max(maxs.unwrap_or(0));
        if h > lo {
            ops.push(Op::Tip { h });
        }
    }
    if cfg.with_rewind_state && m.rewinds < cfg.max_rewinds {
        if let Some(maxs) = maxs {
            for &h in &cfg.rewind_heights {
                if h < maxs {
                    ops.push(Op::RewindState { h });
                }
            }
        }
    }
    if m.rewinds < cfg.max_rewinds {
        if let Some(maxs) = maxs {
            for &h in &cfg.rewind_heights {
                if h < maxs {
                    for (ci, c) in u.chains.iter().enumerate() {
                        // the other chain must share every block up to h with the current one
                        let shared = if ci == m.chain { u32::MAX } else { c.fork_height.min(u.chains[m.chain].fork_height) };
                        if h <= shared {
                            ops.push(Op::Rewind { h, switch: ci });
                        }
                    }
                }
            }
        }
    }
    ops
}

// ---------------------------------------------------------------------------------------------
// C01 oracle
// ---------------------------------------------------------------------------------------------

fn acct_no(o: Owner) -> u8 {
    match o {
        Owner::A => 0,
        Owner::B => 1,
        Owner::Foreign => 9,
    }
}

/// Which transactions of the current chain are mined-and-scanned: txid -> height.
fn mined_map(u: &Universe, m: &Model) -> BTreeMap<[u8; 32], u32> {
    let mut r = BTreeMap::new();
    for h in &m.scanned {
        for t in &u.chains[m.chain].blocks[h].txs {
            r.insert(t.txid, *h);
        }
    }
    r
}

/// note id -> txids spending it, over every chain of the universe
fn spenders(u: &Universe) -> HashMap<usize, Vec<[u8; 32]>> {
    let mut r: HashMap<usize, Vec<[u8; 32]>> = HashMap::new();
    for c in &u.chains {
        for b in c.blocks.values() {
            for t in &b.txs {
                for s in &t.spent {
                    let e = r.entry(*s).or_default();
                    if !e.contains(&t.txid) {
                        e.push(t.txid);
                    }
                }
            }
        }
    }
    r
}

pub fn check_balance(w: &mut Wallet, cx: &Ctx, m: &Model) -> Result<Vec<String>, String> {
    let u = cx.u;
    let mut outcomes = vec![];
    let mined = mined_map(u, m);
    // note records (one per place a transaction is mined at) whose block is scanned on this chain
    let mined_ids = u.notes_created_in(m.chain, m.scanned.iter().copied());
    let sp = spenders(u);
    let target = m.tip.map(|t| t + 1);
    let unexpired = |txid: &[u8; 32]| -> bool {
        // documented rule: expiry unknown => unexpired iff min_observed_height + 40 >= target height
        match (m.orphans.get(txid), target) {
            (Some(obs), Some(t)) => obs + EXPIRY_DELTA >= t,
            _ => false,
        }
    };
    // Per (account, pool): exact ledger over mined transactions, and the orphan bracket.
    let mut exact: BTreeMap<(u8, Pool), i128> = BTreeMap::new();
    let mut lo: BTreeMap<(u8, Pool), i128> = BTreeMap::new();
    let mut hi: BTreeMap<(u8, Pool), i128> = BTreeMap::new();
    for a in [0u8, 1] {
        for p in POOLS {
            exact.insert((a, p), 0);
            lo.insert((a, p), 0);
            hi.insert((a, p), 0);
        }
    }
    let mut any_unexpired_orphan = false;
    for n in &u.notes {
        if n.owner == Owner::Foreign {
            continue;
        }
        let k = (acct_no(n.owner), n.pool);
        let recv_mined = mined_ids.contains(&n.id);
        // an orphaned transaction counts once, whatever the number of places it was mined at
        let recv_orphan = n.remine_of.is_none() && unexpired(&n.txid);
        let empty = vec![];
        let spent_mined = sp.get(&n.remine_of.unwrap_or(n.id)).unwrap_or(&empty).iter().any(|t| mined.contains_key(t));
        let spent_orphan = sp.get(&n.remine_of.unwrap_or(n.id)).unwrap_or(&empty).iter().any(|t| unexpired(t));
        if recv_orphan || spent_orphan {
            any_unexpired_orphan = true;
        }
        if recv_mined && !spent_mined {
            *exact.get_mut(&k).unwrap() += n.value as i128;
            *hi.get_mut(&k).unwrap() += n.value as i128;
            if !spent_orphan {
                *lo.get_mut(&k).unwrap() += n.value as i128;
            }
        } else if recv_orphan {
            // The receipt is un-mined, so a mined spend of it may not have been linked yet (the wallet
            // tracks nullifiers of mined notes only); either way it is covered by the orphan clause.
            *hi.get_mut(&k).unwrap() += n.value as i128;
        }
    }
    let summary = mc_core::catch(|| w.db.get_wallet_summary(ConfirmationsPolicy::MIN));
    let summary = match summary {
        Err(p) => return Err(format!("panic in get_wallet_summary: {p}")),
        Ok(Err(e)) => return Err(format!("get_wallet_summary failed: {e:?}")),
        Ok(Ok(s)) => s,
    };
    match summary {
        None => {
            // Documented: no summary until the wallet knows a chain tip (and has scan progress).
            if m.tip.is_some() && !m.scanned.is_empty() {
                return Err("get_wallet_summary returned None although a chain tip is known and blocks are scanned".into());
            }
            outcomes.push("summary:none".into());
        }
        Some(s) => {
            if let Some(t) = m.tip {
                if u32::from(s.chain_tip_height()) != t {
                    return Err(format!("wallet chain tip {} != reference tip {}", u32::from(s.chain_tip_height()), t));
                }
            }
            for (a, id) in [(0u8, w.acct_a), (1u8, w.acct_b)] {
                let bal = s.account_balances().get(&id).ok_or_else(|| format!("no balance for account {a}"))?;
                for p in POOLS {
                    let b = match p {
                        Pool::Sapling => bal.sapling_balance(),
                        Pool::Orchard => bal.orchard_balance(),
                        Pool::Ironwood => bal.ironwood_balance(),
                    };
                    let got = b.total().into_u64() as i128 + b.uneconomic_value().into_u64() as i128;
                    let (l, h, e) = (lo[&(a, p)], hi[&(a, p)], exact[&(a, p)]);
                    if got < l || got > h {
                        return Err(format!(
                            "account {a} pool {p:?}: wallet total+uneconomic = {got}, ledger of scanned unspent notes = {e} (allowed [{l},{h}] with unexpired orphans); scanned={:?} tip={:?} chain={} orphans={}",
                            m.scanned, m.tip, m.chain, m.orphans.len()
                        ));
                    }
                    if l != h {
                        outcomes.push("balance:bracket".into());
                    } else if got > 0 {
                        outcomes.push(format!("balance:exact-nonzero:{p:?}"));
                    } else {
                        outcomes.push("balance:exact-zero".into());
                    }
                    if b.uneconomic_value().into_u64() > 0 {
                        outcomes.push("balance:has-dust".into());
                    }
                }
                if bal.unshielded_balance().total().into_u64() != 0 {
                    return Err("transparent balance non-zero in a universe without transparent outputs".into());
                }
            }
        }
    }
    // Row level: notes present, mined heights, spent-by.
    let conn = w.db.conn();
    for p in POOLS {
        let got_notes: BTreeSet<String> = db::query_rows(conn, &notes_sql(p, false)).into_iter().collect();
        // A transaction mined in a scanned block of the current chain must be recorded with the
        // position, nullifier and height it has THERE; one that is currently un-mined keeps the
        // values of (one of) the places it was mined at before, with no mined height.
        let mut required = BTreeSet::new();
        let mut allowed = BTreeSet::new();
        let mut rows_expected: BTreeSet<([u8; 32], usize)> = BTreeSet::new();
        for n in u.notes.iter().filter(|n| n.pool == p && n.owner != Owner::Foreign) {
            if m.seen.contains_key(&n.txid) {
                let scope = match n.scope {
                    crate::universe::Scope::Internal => 1,
                    _ => 0,
                };
                rows_expected.insert((n.txid, n.output_index));
                let row = |mh: String| format!("'{}'|{}|{}|{}|'{}'|{}|{}|{}", txid_hex_le(&n.txid), n.output_index, acct_no(n.owner) + 1, n.value, hex::encode_upper(n.nf.bytes()), n.position, scope, mh);
                if mined_ids.contains(&n.id) {
                    required.insert(row(n.height.to_string()));
                } else if !mined.contains_key(&n.txid) {
                    allowed.insert(row("NULL".into()));
                }
            }
        }
        let ok = required.is_subset(&got_notes) && got_notes.iter().all(|r| required.contains(r) || allowed.contains(r)) && got_notes.len() == rows_expected.len();
        if !ok {
            let missing: Vec<_> = required.difference(&got_notes).take(3).collect();
            let extra: Vec<_> = got_notes.iter().filter(|r| !required.contains(*r) && !allowed.contains(*r)).take(3).collect();
            return Err(format!("{p:?} received-note rows differ from ground truth: missing {:?} unexpected {:?} ({} rows, {} expected)", missing, extra, got_notes.len(), rows_expected.len()));
        }
        // spends
        let got_sp: BTreeSet<String> = db::query_rows(conn, &spends_sql(p, false)).into_iter().collect();
        let mut required = BTreeSet::new();
        let mut allowed = BTreeSet::new();
        for n in u.notes.iter().filter(|n| n.pool == p && n.owner != Owner::Foreign && m.seen.contains_key(&n.txid)) {
            for t in sp.get(&n.remine_of.unwrap_or(n.id)).map(|v| v.as_slice()).unwrap_or(&[]) {
                if let Some(h) = mined.get(t) {
                    let row = format!("'{}'|{}|'{}'|{}", txid_hex_le(&n.txid), n.output_index, txid_hex_le(t), h);
                    // required only when the receipt itself is mined in a scanned block: the wallet
                    // tracks nullifiers of mined notes only, so the spend of an orphaned receipt is
                    // linked when (if) the receipt is mined again.
                    if mined_ids.contains(&n.id) {
                        required.insert(row.clone());
                    }
                    allowed.insert(row);
                } else if m.seen.contains_key(t) {
                    allowed.insert(format!("'{}'|{}|'{}'|NULL", txid_hex_le(&n.txid), n.output_index, txid_hex_le(t)));
                }
            }
        }
        if !required.is_subset(&got_sp) || !got_sp.is_subset(&allowed) {
            let missing: Vec<_> = required.difference(&got_sp).take(3).collect();
            let extra: Vec<_> = got_sp.difference(&allowed).take(3).collect();
            return Err(format!("{p:?} spent status differs from ground truth: missing spends {:?} unexpected spends {:?}; scanned={:?}", missing, extra, m.scanned));
        }
        if !required.is_empty() {
            outcomes.push("spends:some".into());
        }
    }
    // Differential against the fresh linear scan once everything up to the chain's end is scanned.
    let chain = &u.chains[m.chain];
    let complete = (u.first..=chain.tip()).all(|h| m.scanned.contains(&h));
    if complete && cx.fresh.get(m.chain).map(|f| f.valid).unwrap_or(false) {
        let fr = &cx.fresh[m.chain];
        let mut mn = vec![];
        let mut ms = vec![];
        for p in POOLS {
            mn.extend(db::query_rows(conn, &notes_sql(p, true)).into_iter().map(|r| format!("{p:?}:{r}")));
            ms.extend(db::query_rows(conn, &spends_sql(p, true)).into_iter().map(|r| format!("{p:?}:{r}")));
        }
        if mn != fr.mined_notes {
            return Err(format!("fully scanned wallet's mined notes differ from a fresh linear scan of the same chain ({} vs {} rows)", mn.len(), fr.mined_notes.len()));
        }
        if ms != fr.spends {
            return Err(format!("fully scanned wallet's spent status differs from a fresh linear scan of the same chain ({} vs {} rows)", ms.len(), fr.spends.len()));
        }
        if !any_unexpired_orphan {
            for ((a, p), v) in &fr.totals {
                if exact[&(*a, *p)] != *v as i128 {
                    return Err(format!("reference ledger {} != fresh linear scan balance {} for account {a} {p:?} (harness inconsistency)", exact[&(*a, *p)], v));
                }
            }
        }
        outcomes.push("complete:matches-fresh".into());
    }
    Ok(outcomes)
}

pub fn fresh_reference(u: &Universe, cfg: &Cfg, chain: usize) -> FreshRef {
    let mut w = db::new_wallet(u, cfg.retention, false);
    let ctip = u.chains[chain].tip();
    w.db.update_chain_tip(BlockHeight::from_u32(ctip)).expect("tip");
    let src = u.source(chain);
    for h in u.first..=ctip {
        scan_cached_blocks(&u.network, &src, &mut w.db, BlockHeight::from_u32(h), u.state_before(chain, h), 1).expect("fresh linear scan");
    }
    let conn = w.db.conn();
    let mut fr = FreshRef { valid: true, ..Default::default() };
    for p in POOLS {
        fr.mined_notes.extend(db::query_rows(conn, &notes_sql(p, true)).into_iter().map(|r| format!("{p:?}:{r}")));
        fr.spends.extend(db::query_rows(conn, &spends_sql(p, true)).into_iter().map(|r| format!("{p:?}:{r}")));
    }
    let s = w.db.get_wallet_summary(ConfirmationsPolicy::MIN).expect("summary").expect("summary present");
    for (a, id) in [(0u8, w.acct_a), (1u8, w.acct_b)] {
        let bal = &s.account_balances()[&id];
        for p in POOLS {
            let b = match p {
                Pool::Sapling => bal.sapling_balance(),
                Pool::Orchard => bal.orchard_balance(),
                Pool::Ironwood => bal.ironwood_balance(),
            };
            fr.totals.insert((a, p), b.total().into_u64() + b.uneconomic_value().into_u64());
        }
    }
    fr
}

// ---------------------------------------------------------------------------------------------
// C06 oracle: tree roots, witnesses, checkpoint alignment, retained grid
// ---------------------------------------------------------------------------------------------

use incrementalmerkletree::{Hashable, Position};
use orchard::tree::MerkleHashOrchard;
use zcash_client_backend::data_api::WalletCommitmentTrees;

type TreeErr = shardtree::error::ShardTreeError<zcash_client_sqlite::wallet::commitment_tree::Error>;

/// For one pool: (checkpoint id -> root as computed by the wallet (None = not computable)),
/// and for each (note position, checkpoint) the Merkle-path root recomputed from the leaf.
/// Roots and Merkle-path roots at the wanted (checkpoint, note) pairs only; unwanted entries are `None`.
fn pool_view(w: &mut Wallet, p: Pool, ids: &[u32], notes: &[(u64, [u8; 32])], want: &Want) -> Result<(Vec<Option<[u8; 32]>>, Vec<Vec<Option<[u8; 32]>>>), String> {
    let ids: Vec<BlockHeight> = ids.iter().map(|h| BlockHeight::from_u32(*h)).collect();
    let r = mc_core::catch(|| -> Result<_, TreeErr> {
        match p {
            Pool::Sapling => w.db.with_sapling_tree_mut(|t| {
                let roots = ids.iter().enumerate().map(|(i, id)| if want.root[i] { t.root_at_checkpoint_id(id).ok().flatten().map(|r| r.to_bytes()) } else { None }).collect::<Vec<_>>();
                let wit = notes
                    .iter()
                    .enumerate()
                    .map(|(ni, (pos, cm))| {
                        let leaf = Option::<sapling::Node>::from(sapling::Node::from_bytes(*cm)).expect("cmu");
                        ids.iter()
                            .enumerate()
                            .map(|(i, id)| if want.wit[ni][i] { t.witness_at_checkpoint_id(Position::from(*pos), id).ok().flatten().map(|path| path.root(leaf).to_bytes()) } else { None })
                            .collect::<Vec<_>>()
                    })
                    .collect::<Vec<_>>();
                Ok::<_, TreeErr>((roots, wit))
            }),
            Pool::Orchard | Pool::Ironwood => {
                if p == Pool::Orchard {
                    w.db.with_orchard_tree_mut(|t| Ok::<_, TreeErr>(orch_view(t, &ids, notes, want)))
                } else {
                    w.db.with_ironwood_tree_mut(|t| Ok::<_, TreeErr>(orch_view(t, &ids, notes, want))).map(|o| o.expect("the SQLite wallet tracks an Ironwood tree"))
                }
            }
        }
    });
    match r {
        Err(p_) => Err(format!("panic while reading the {p:?} tree: {p_}")),
        Ok(Err(e)) => Err(format!("{p:?} tree access failed: {e:?}")),
        Ok(Ok(v)) => Ok(v),
    }
}

type View = (Vec<Option<[u8; 32]>>, Vec<Vec<Option<[u8; 32]>>>);

/// Which (checkpoint) roots and (note, checkpoint) Merkle paths a state evaluation asks for.
struct Want {
    root: Vec<bool>,
    wit: Vec<Vec<bool>>,
}

fn orch_view<S>(t: &mut shardtree::ShardTree<S, 32, 16>, ids: &[BlockHeight], notes: &[(u64, [u8; 32])], want: &Want) -> View
where
    S: shardtree::store::ShardStore<H = MerkleHashOrchard, CheckpointId = BlockHeight>,
{
    let tp = Instant::now();
    let roots = ids.iter().enumerate().map(|(i, id)| if want.root[i] { t.root_at_checkpoint_id(id).ok().flatten().map(|r| r.to_bytes()) } else { None }).collect::<Vec<_>>();
    prof(6, tp);
    let _tw = ProfGuard(7, Instant::now());
    let wit = notes
        .iter()
        .enumerate()
        .map(|(ni, (pos, cm))| {
            let leaf = Option::<MerkleHashOrchard>::from(MerkleHashOrchard::from_bytes(cm)).expect("cmx");
            ids.iter()
                .enumerate()
                .map(|(i, id)| if want.wit[ni][i] { t.witness_at_checkpoint_id(Position::from(*pos), id).ok().flatten().map(|path| path.root(leaf).to_bytes()) } else { None })
                .collect::<Vec<_>>()
        })
        .collect::<Vec<_>>();
    (roots, wit)
}

fn completed_roots_differ(u: &Universe, a: usize, b: usize) -> bool {
    let roots = |c: usize| -> Vec<(Pool, u64, Vec<u8>)> {
        let mut v: Vec<(Pool, u64, Vec<u8>)> = u.chains[c]
            .blocks
            .values()
            .flat_map(|bl| {
                bl.completed.iter().map(|(p, i, r)| {
                    (
                        *p,
                        *i,
                        match r {
                            crate::universe::ShardRoot::Sapling(n) => n.to_bytes().to_vec(),
                            crate::universe::ShardRoot::Orchard(n) => n.to_bytes().to_vec(),
                        },
                    )
                })
            })
            .collect();
        v.sort_by(|x, y| (x.0 as u8, x.1).cmp(&(y.0 as u8, y.1)));
        v
    };
    roots(a) != roots(b)
}

/// `witness_at_checkpoint_id_caching` for each note at checkpoint `top`: the root each produced path
/// yields (None = no path).
fn caching_witness_roots(w: &mut Wallet, p: Pool, top: u32, notes: &[(u64, [u8; 32])]) -> Result<Vec<Option<[u8; 32]>>, String> {
    let id = BlockHeight::from_u32(top);
    let r = mc_core::catch(|| -> Result<_, TreeErr> {
        match p {
            Pool::Sapling => w.db.with_sapling_tree_mut(|t| {
                Ok::<_, TreeErr>(
                    notes
                        .iter()
                        .map(|(pos, cm)| {
                            let leaf = Option::<sapling::Node>::from(sapling::Node::from_bytes(*cm)).expect("cmu");
                            t.witness_at_checkpoint_id_caching(Position::from(*pos), &id).ok().flatten().map(|path| path.root(leaf).to_bytes())
                        })
                        .collect::<Vec<_>>(),
                )
            }),
            Pool::Orchard => w.db.with_orchard_tree_mut(|t| Ok::<_, TreeErr>(orch_caching(t, &id, notes))),
            Pool::Ironwood => w.db.with_ironwood_tree_mut(|t| Ok::<_, TreeErr>(orch_caching(t, &id, notes))).map(|o| o.expect("the SQLite wallet tracks an Ironwood tree")),
        }
    });
    match r {
        Err(p_) => Err(format!("panic while computing {p:?} Merkle paths (caching): {p_}")),
        Ok(Err(e)) => Err(format!("{p:?} tree access failed: {e:?}")),
        Ok(Ok(v)) => Ok(v),
    }
}

fn orch_caching<S>(t: &mut shardtree::ShardTree<S, 32, 16>, id: &BlockHeight, notes: &[(u64, [u8; 32])]) -> Vec<Option<[u8; 32]>>
where
    S: shardtree::store::ShardStore<H = MerkleHashOrchard, CheckpointId = BlockHeight>,
{
    notes
        .iter()
        .map(|(pos, cm)| {
            let leaf = Option::<MerkleHashOrchard>::from(MerkleHashOrchard::from_bytes(cm)).expect("cmx");
            t.witness_at_checkpoint_id_caching(Position::from(*pos), id).ok().flatten().map(|path| path.root(leaf).to_bytes())
        })
        .collect()
}

fn truth_root(u: &Universe, chain: usize, p: Pool, h: u32) -> [u8; 32] {
    let st = if h + 1 == u.first { &u.genesis } else { &u.chains[chain].blocks[&h].state_after };
    match p {
        Pool::Sapling => st.final_sapling_tree().root().to_bytes(),
        Pool::Orchard => st.final_orchard_tree().root().to_bytes(),
        Pool::Ironwood => st.final_ironwood_tree().root().to_bytes(),
    }
}

pub fn check_trees(w: &mut Wallet, cx: &Ctx, m: &Model) -> Result<Vec<String>, String> {
    let u = cx.u;
    let mut outcomes = vec![];
    let mined = mined_map(u, m);
    let mined_ids = u.notes_created_in(m.chain, m.scanned.iter().copied());
    let sp = spenders(u);
    let chain = &u.chains[m.chain];
    let mut cp_sets: Vec<BTreeSet<u32>> = vec![];
    for p in POOLS {
        let ids: BTreeSet<u32> = db::query_rows(w.db.conn(), &format!("SELECT checkpoint_id FROM {}_tree_checkpoints", p.prefix())).iter().map(|r| r.parse::<u32>().unwrap()).collect();
        cp_sets.push(ids);
    }
    // (1) same checkpoint heights in all pools. What each single scan creates is compared per pool in
    // `apply` (every height at which a scan creates a checkpoint in one pool is a checkpoint of every
    // pool afterwards). As a statement about a STATE it holds from the pruning floor upwards as long
    // as nothing was truncated: a pool holding its full budget of prunable checkpoints (PRUNING_DEPTH
    // = 100, the retained grid is exempt) has dropped older ones, an idle pool is pruned only when it
    // next receives a commitment, and without a truncation a pool that is not at capacity never
    // pruned anything. After a rewind the sets legitimately differ in ways a state alone cannot
    // bound (the truncation removes the newest checkpoints of a pool that had pruned its oldest, and
    // TreeTruncation::ResetToSubtreeRoots empties a pool), so there the per-scan clause, clause (2)
    // (no checkpoint at an unscanned height, hence none above a rewind) and clause (3) (the retained
    // grid, in every pool) carry the property.
    if m.rewinds == 0 {
        let floor = pruning_floor(w, &cp_sets);
        if floor > 0 {
            outcomes.push("checkpoints:pool-at-capacity".into());
        }
        let window = |s: &BTreeSet<u32>| s.range(floor..).copied().collect::<BTreeSet<u32>>();
        if window(&cp_sets[0]) != window(&cp_sets[1]) || window(&cp_sets[1]) != window(&cp_sets[2]) {
            let sym = |a: &BTreeSet<u32>, b: &BTreeSet<u32>| window(a).symmetric_difference(&window(b)).copied().take(4).collect::<Vec<_>>();
            return Err(format!(
                "pools are checkpointed at different heights (compared from height {floor} up): sapling^orchard={:?} orchard^ironwood={:?}; scanned={:?}",
                sym(&cp_sets[0], &cp_sets[1]),
                sym(&cp_sets[1], &cp_sets[2]),
                m.scanned
            ));
        }
    } else if cp_sets.iter().any(|s| s.is_empty()) {
        outcomes.push("checkpoints:pool-reset-by-rewind".into());
    }
    // (2) no checkpoint at a height the wallet has not scanned on the current chain (genesis excepted)
    let all_ids: BTreeSet<u32> = cp_sets.iter().flatten().copied().collect();
    for h in &all_ids {
        // a scan starting at h+1 also checkpoints the frontier it was given for the end of block h
        if *h + 1 != u.first && !m.scanned.contains(h) && !m.scanned.contains(&(*h + 1)) {
            return Err(format!("checkpoint at height {h}, which is neither a scanned block of the current chain nor the block before one (scanned={:?})", m.scanned));
        }
    }
    // contiguous-from-birthday prefix: roots and witnesses must be computable there
    let mut contiguous_to = u.first - 1;
    while m.scanned.contains(&(contiguous_to + 1)) {
        contiguous_to += 1;
    }
    for (pi, p) in POOLS.into_iter().enumerate() {
        let ids: Vec<u32> = cp_sets[pi].iter().copied().collect();
        let notes: Vec<&crate::universe::NoteInfo> = u.notes.iter().filter(|n| n.pool == p && n.owner != Owner::Foreign && mined_ids.contains(&n.id)).collect();
        // The wallet builds a note's Merkle path at the position IT recorded for the note, so that
        // is the position the path is asked for here (ground truth only where it recorded none).
        let recorded: HashMap<String, Option<u64>> = db::query_rows(
            w.db.conn(),
            &format!("SELECT hex(t.txid), rn.{}, rn.commitment_tree_position FROM {}_received_notes rn JOIN transactions t ON t.id_tx = rn.transaction_id", idx_col(p), p.prefix()),
        )
        .iter()
        .filter_map(|r| {
            let f: Vec<&str> = r.split('|').collect();
            (f.len() == 3).then(|| (format!("{}|{}", f[0].trim_matches('\''), f[1]), f[2].parse::<u64>().ok()))
        })
        .collect();
        let wallet_pos = |n: &crate::universe::NoteInfo| recorded.get(&format!("{}|{}", txid_hex_le(&n.txid), n.output_index)).copied().flatten();
        for n in &notes {
            if let Some(rp) = wallet_pos(n) {
                if rp != n.position {
                    return Err(format!(
                        "{p:?}: the wallet records tree position {rp} for its note (transaction mined at height {} on the current chain) but the note's commitment is at position {} there: the Merkle path the wallet builds for this note belongs to another leaf and cannot verify; scanned={:?}",
                        n.height, n.position, m.scanned
                    ));
                }
            }
        }
        let npos: Vec<(u64, [u8; 32])> = notes.iter().map(|n| (wallet_pos(n).unwrap_or(n.position), n.cm)).collect();
        // with `witness_subset` on, roots are evaluated at the first two, the last two and two
        // evenly spread retained checkpoints (all of them when there are at most twelve; a root over a
        // shard of n fresh leaves costs n Sinsemilla / Pedersen hashes), and each
        // note's Merkle path at the first two, the middle and the last two retained checkpoints at or
        // above its height that are among those
        let root_pick: BTreeSet<usize> = if cx.cfg.witness_subset > 0 && ids.len() > 12 {
            let k = ids.len();
            (0..2).chain(k - 2..k).chain((1..3).map(|j| j * k / 3)).collect()
        } else {
            (0..ids.len()).collect()
        };
        let wit_pick: Vec<Vec<bool>> = notes
            .iter()
            .map(|n| {
                let eligible: Vec<usize> = (0..ids.len()).filter(|i| ids[*i] >= n.height).collect();
                if cx.cfg.witness_subset > 0 {
                    let k = eligible.len();
                    let pick: BTreeSet<usize> = [0usize, 1, k / 2, k.saturating_sub(2), k.saturating_sub(1)].iter().filter_map(|i| eligible.get(*i).copied()).collect();
                    (0..ids.len()).map(|i| pick.contains(&i)).collect()
                } else {
                    (0..ids.len()).map(|i| eligible.contains(&i)).collect()
                }
            })
            .collect();
        let wit_pick = if std::env::var("VERIF_NO_WIT").is_ok() { wit_pick.iter().map(|v| vec![false; v.len()]).collect() } else { wit_pick };
        let want = Want { root: (0..ids.len()).map(|i| root_pick.contains(&i) || wit_pick.iter().any(|v| v[i])).collect(), wit: wit_pick };
        let tp = Instant::now();
        let (roots, wits) = pool_view(w, p, &ids, &npos, &want)?;
        prof(5, tp);
        for (i, h) in ids.iter().enumerate() {
            if !want.root[i] {
                continue;
            }
            let truth = truth_root(u, m.chain, p, *h);
            match roots[i] {
                Some(r) if r == truth => outcomes.push(format!("root:ok:{p:?}")),
                Some(r) => {
                    return Err(format!("{p:?} root at checkpoint {h} is {} but the chain's note commitment tree root at that height is {}; scanned={:?}", hex::encode(r), hex::encode(truth), m.scanned))
                }
                None => {
                    if *h <= contiguous_to {
                        return Err(format!("{p:?} root at checkpoint {h} is not computable although every block from the birthday to {h} is scanned"));
                    }
                    outcomes.push("root:uncomputable-gap".into());
                }
            }
            for (ni, n) in notes.iter().enumerate() {
                if !want.wit[ni][i] {
                    continue;
                }
                let unspent = !sp.get(&n.remine_of.unwrap_or(n.id)).map(|v| v.iter().any(|t| mined.contains_key(t))).unwrap_or(false);
                match wits[ni][i] {
                    Some(r) if r == truth => outcomes.push(format!("witness:ok:{p:?}")),
                    Some(r) => {
                        return Err(format!(
                            "{p:?} Merkle path of note at position {} (the wallet records position {:?}; mined at height {}) at checkpoint {h} yields root {} instead of {}; scanned={:?}",
                            n.position,
                            wallet_pos(n),
                            n.height,
                            hex::encode(r),
                            hex::encode(truth),
                            m.scanned
                        ))
                    }
                    None => {
                        if unspent && *h <= contiguous_to {
                            return Err(format!(
                                "{p:?}: no Merkle path for unspent wallet note at position {} (height {}) at retained checkpoint {h}, although every block from the birthday to {h} is scanned",
                                n.position, n.height
                            ));
                        }
                        outcomes.push("witness:unavailable".into());
                    }
                }
            }
        }
    }
    // (3) retained grid: every boundary at or above NU6.3 activation whose block is scanned has a checkpoint
    if let Some(act) = u.network.nu6_3 {
        let act = u32::from(act);
        for h in &m.scanned {
            if *h >= act && *h % cx.cfg.retention == 0 {
                if let Some(pi) = (0..3).find(|i| !cp_sets[*i].contains(h)) {
                    return Err(format!(
                        "anchor-retention boundary {h} (interval {}) is inside the scanned range but the {:?} tree has no checkpoint there (max scanned {:?}, {} checkpoints held)",
                        cx.cfg.retention,
                        POOLS[pi],
                        m.scanned.iter().next_back(),
                        cp_sets[pi].len()
                    ));
                }
                let behind = m.scanned.iter().next_back().unwrap() - h;
                outcomes.push(if behind > 100 { "grid:survived-pruning-depth".into() } else { "grid:present".into() });
                if chain.blocks[h].n_commitments == [0, 0, 0] {
                    outcomes.push("grid:on-commitment-free-block".into());
                }
            }
        }
    }
    let n_ids = cp_sets[0].len();
    outcomes.push(format!("checkpoints:{}", if n_ids > 90 { "many" } else if n_ids > 1 { "some" } else { "one" }));
    Ok(outcomes)
}

// ---------------------------------------------------------------------------------------------
// C15(b) oracle: SQLite scan queue structure, "scanned means scanned", nothing-suggested => done
// ---------------------------------------------------------------------------------------------

pub fn check_queue(w: &mut Wallet, cx: &Ctx, m: &Model) -> Result<Vec<String>, String> {
    let u = cx.u;
    let mut outcomes = vec![];
    let rows: Vec<(u32, u32, i64)> = {
        let conn = w.db.conn();
        let mut st = conn.prepare("SELECT block_range_start, block_range_end, priority FROM scan_queue ORDER BY block_range_start").unwrap();
        let r = st.query_map([], |r| Ok((r.get::<_, u32>(0)?, r.get::<_, u32>(1)?, r.get::<_, i64>(2)?))).unwrap().map(|x| x.unwrap()).collect();
        r
    };
    for (s, e, p) in &rows {
        if s >= e {
            return Err(format!("scan queue holds an empty or inverted range {s}..{e}"));
        }
        if ![0, 10, 20, 30, 40, 50, 60].contains(p) {
            return Err(format!("scan queue holds unknown priority code {p}"));
        }
    }
    for pair in rows.windows(2) {
        let (a, b) = (pair[0], pair[1]);
        if a.1 > b.0 {
            return Err(format!("scan queue ranges overlap: {}..{} and {}..{}", a.0, a.1, b.0, b.1));
        }
        if a.1 < b.0 {
            return Err(format!("scan queue has a gap between {}..{} and {}..{}", a.0, a.1, b.0, b.1));
        }
        if a.2 == b.2 {
            return Err(format!("adjacent scan queue ranges {}..{} and {}..{} have the same priority {} (not merged)", a.0, a.1, b.0, b.1, a.2));
        }
    }
    // Scanning a range marks exactly that range scanned.
    let prio_at = |h: u32| rows.iter().find(|(s, e, _)| *s <= h && h < *e).map(|r| r.2);
    let hi = rows.last().map(|r| r.1).unwrap_or(u.first).max(m.scanned.iter().next_back().map(|h| h + 1).unwrap_or(0));
    for h in u.first..hi {
        let is_scanned = prio_at(h) == Some(10);
        if is_scanned != m.scanned.contains(&h) {
            return Err(format!(
                "height {h}: scan queue priority {:?} but the block {} been scanned on the current chain (scanned={:?}, queue={:?})",
                prio_at(h),
                if m.scanned.contains(&h) { "has" } else { "has NOT" },
                m.scanned,
                rows
            ));
        }
    }
    // Chain tip as seen by the queue
    if let (Some(t), Some(last)) = (m.tip, rows.last()) {
        if last.1 != t + 1 {
            return Err(format!("scan queue ends at {} but the chain tip is {t}", last.1));
        }
    }
    // Nothing left to suggest => every block from the birthday to the tip is scanned.
    let sugg = match mc_core::catch(|| w.db.suggest_scan_ranges()) {
        Err(p) => return Err(format!("panic in suggest_scan_ranges: {p}")),
        Ok(Err(e)) => return Err(format!("suggest_scan_ranges failed: {e:?}")),
        Ok(Ok(r)) => r,
    };
    for r in &sugg {
        let (s, e) = (u32::from(r.block_range().start), u32::from(r.block_range().end));
        if s >= e {
            return Err(format!("suggest_scan_ranges returned an empty range {s}..{e}"));
        }
    }
    if let Some(t) = m.tip {
        let unscanned: Vec<u32> = (u.first..=t).filter(|h| !m.scanned.contains(h)).collect();
        if sugg.is_empty() {
            if !unscanned.is_empty() {
                return Err(format!("nothing is suggested for scanning although blocks {:?} between the birthday and the tip {t} are unscanned", unscanned));
            }
            outcomes.push("sync:complete".into());
        } else {
            // every unscanned block up to the tip is covered by some suggestion
            for h in &unscanned {
                if !sugg.iter().any(|r| u32::from(r.block_range().start) <= *h && *h < u32::from(r.block_range().end)) {
                    return Err(format!("unscanned block {h} (tip {t}) is not covered by any suggested scan range {:?}", sugg.iter().map(|r| format!("{r}")).collect::<Vec<_>>()));
                }
            }
            outcomes.push(format!("sync:pending:{:?}", sugg[0].priority()));
        }
    } else {
        outcomes.push("sync:no-tip".into());
    }
    outcomes.push(format!("queue:ranges:{}", rows.len().min(5)));
    Ok(outcomes)
}

// ---------------------------------------------------------------------------------------------
// Search
// ---------------------------------------------------------------------------------------------

pub struct Node {
    pub snap: Arc<Snapshot>,
    pub model: Model,
    pub history: Vec<Op>,
}

#[derive(Default)]
pub struct SearchStats {
    pub states: u64,
    pub transitions: u64,
    pub refused: u64,
    pub max_depth: usize,
    pub per_depth: Vec<u64>,
    pub capped: Option<String>,
    pub outcomes: BTreeMap<String, u64>,
    pub complete_states: u64,
    /// transitions that led to a state already visited (its state checks are not repeated)
    pub duplicates: u64,
    /// evaluations of the state checks (one per distinct state, plus same-level races)
    pub state_checks: u64,
}

pub struct Failure {
    pub history: Vec<Op>,
    pub msg: String,
}

impl Failure {
    /// Failures that carry a defect signature are identified by it (one finding, many histories).
    pub fn signature(&self) -> Option<&'static str> {
        if self.msg.contains(TREE_CONFLICT_SIG) {
            Some(TREE_CONFLICT_SIG)
        } else {
            None
        }
    }
}

fn push_failure(failures: &Mutex<Vec<Failure>>, f: Failure) {
    let mut g = failures.lock().unwrap();
    if let Some(sig) = f.signature() {
        // keep the shortest history per signature
        if let Some(existing) = g.iter_mut().find(|x| x.signature() == Some(sig)) {
            if f.history.len() < existing.history.len() {
                *existing = f;
            }
            return;
        }
    }
    g.push(f);
}

pub type StateCheck = dyn Fn(&mut Wallet, &Ctx, &Model) -> Result<Vec<String>, String> + Sync;

/// Level-synchronous parallel BFS from the freshly created wallet.
pub fn search(cx: &Ctx, checks: &[&StateCheck]) -> (SearchStats, Vec<Failure>) {
    let t0 = Instant::now();
    let u = cx.u;
    let cfg = cx.cfg;
    let mut stats = SearchStats::default();
    let failures: Mutex<Vec<Failure>> = Mutex::new(vec![]);
    let outcomes: Mutex<BTreeMap<String, u64>> = Mutex::new(BTreeMap::new());
    let mut seen: BTreeSet<u128> = BTreeSet::new();

    let mut w0 = db::new_wallet(u, cfg.retention, false);
    let m0 = Model::default();
    let key0 = state_key(&w0, &m0);
    seen.insert(key0);
    for c in checks {
        match c(&mut w0, cx, &m0) {
            Ok(o) => {
                let mut g = outcomes.lock().unwrap();
                for x in o {
                    *g.entry(x).or_insert(0) += 1;
                }
            }
            Err(msg) => failures.lock().unwrap().push(Failure { history: vec![], msg }),
        }
    }
    let mut frontier = vec![Node { snap: Arc::new(db::snapshot(w0.db.conn())), model: m0, history: vec![] }];
    stats.states = 1;
    let transitions = AtomicU64::new(0);
    let refused = AtomicU64::new(0);
    let skipped = AtomicU64::new(0);
    let duplicates = AtomicU64::new(0);
    let state_checks = AtomicU64::new(0);
    let unkept = AtomicU64::new(0);
    let mem_budget: u64 = std::env::var("VERIF_LEVEL_MEM_GB").ok().and_then(|s| s.parse::<u64>().ok()).unwrap_or(10) << 30;
    let mut depth = 0usize;
    while !frontier.is_empty() {
        stats.per_depth.push(frontier.len() as u64);
        stats.max_depth = depth;
        if depth >= cfg.max_depth {
            break;
        }
        if t0.elapsed().as_secs_f64() > cfg.wall_cap_s {
            stats.capped = Some(format!("wall cap {}s reached before expanding depth {} ({} frontier states unexpanded)", cfg.wall_cap_s, depth, frontier.len()));
            break;
        }
        if stats.states as usize > cfg.state_cap {
            stats.capped = Some(format!("state cap {} reached before expanding depth {}", cfg.state_cap, depth));
            break;
        }
        // work items
        let items: Vec<(usize, usize, Op)> = frontier.iter().enumerate().flat_map(|(i, n)| enabled(u, cfg, &n.model).into_iter().map(move |op| (i, op))).enumerate().map(|(idx, (i, op))| (idx, i, op)).collect();
        // key -> smallest item index that produced it in this level (the deterministic representative)
        let level_min: Mutex<HashMap<u128, usize>> = Mutex::new(HashMap::new());
        let level_bytes = AtomicU64::new(0);
        let seen_ref = &seen;
        let results: Vec<Option<(u128, usize, Option<Node>)>> = par_map(
            &items,
                || Pooled::get(u, cfg.retention),
                |pw, (idx, i, op)| {
                    let w = pw.w.as_mut().unwrap();
                    if t0.elapsed().as_secs_f64() > cfg.wall_cap_s {
                        skipped.fetch_add(1, Ordering::Relaxed);
                        return None;
                    }
                    let src = &frontier[*i];
                    let tp = Instant::now();
                    db::restore(w.db.conn_mut(), &src.snap);
                    w.refresh_accounts();
                    prof(0, tp);
                    transitions.fetch_add(1, Ordering::Relaxed);
                    let mut hist = src.history.clone();
                    hist.push(op.clone());
                    let pre_digest = if matches!(op, Op::Rewind { .. }) { Some(db::dump_digest(w.db.conn(), &[])) } else { None };
                    let tp = Instant::now();
                    let applied = apply(w, u, &src.model, op);
                    prof(1, tp);
                    match applied {
                        Err(msg) => {
                            push_failure(&failures, Failure { history: hist, msg });
                            None
                        }
                        Ok(StepResult::Refused(why)) => {
                            refused.fetch_add(1, Ordering::Relaxed);
                            if let Some(pre) = pre_digest {
                                if db::dump_digest(w.db.conn(), &[]) != pre {
                                    failures.lock().unwrap().push(Failure { history: hist, msg: format!("operation refused ({why}) but the database changed") });
                                }
                            }
                            *outcomes.lock().unwrap().entry("op:refused".into()).or_insert(0) += 1;
                            None
                        }
                        Ok(StepResult::Done(model)) => {
                            let tp = Instant::now();
                            let key = state_key(w, &model);
                            prof(2, tp);
                            // A state already visited on an earlier level was checked there (the checks
                            // are functions of exactly what the key is made of), and so was one that an
                            // earlier item of this level produced; the item with the smallest index is
                            // the level's representative whatever the thread timing.
                            if seen_ref.contains(&key) {
                                duplicates.fetch_add(1, Ordering::Relaxed);
                                return Some((key, *idx, None));
                            }
                            {
                                let mut g = level_min.lock().unwrap();
                                match g.get(&key) {
                                    Some(j) if *j < *idx => {
                                        duplicates.fetch_add(1, Ordering::Relaxed);
                                        return Some((key, *idx, None));
                                    }
                                    _ => {
                                        g.insert(key, *idx);
                                    }
                                }
                            }
                            state_checks.fetch_add(1, Ordering::Relaxed);
                            let mut ok = true;
                            let mut outs = vec![];
                            for c in checks {
                                let tp = Instant::now();
                                let r = c(w, cx, &model);
                                prof(3, tp);
                                match r {
                                    Ok(o) => outs.extend(o),
                                    Err(msg) => {
                                        push_failure(&failures, Failure { history: hist.clone(), msg });
                                        ok = false;
                                        break;
                                    }
                                }
                            }
                            {
                                let mut g = outcomes.lock().unwrap();
                                for x in outs {
                                    *g.entry(x).or_insert(0) += 1;
                                }
                            }
                            if !ok {
                                return None;
                            }
                            // memory budget for the snapshots of one level: beyond it the state is
                            // checked and counted but not kept for expansion (reported as a cap)
                            if level_bytes.load(Ordering::Relaxed) > mem_budget {
                                unkept.fetch_add(1, Ordering::Relaxed);
                                return Some((key, *idx, None));
                            }
                            let tp = Instant::now();
                            let snap = Arc::new(db::snapshot(w.db.conn()));
                            level_bytes.fetch_add(db::snapshot_bytes(&snap), Ordering::Relaxed);
                            prof(4, tp);
                            Some((key, *idx, Some(Node { snap, model, history: hist })))
                        }
                    }
                },
            );
        if std::env::var("VERIF_PROGRESS").is_ok() {
            eprintln!("depth {depth}: frontier {} items {} elapsed {:.1}s states {} [{}]", frontier.len(), items.len(), t0.elapsed().as_secs_f64(), stats.states, prof_report());
        }
        let sk = skipped.load(Ordering::Relaxed);
        if sk > 0 {
            stats.capped = Some(format!("wall cap {}s reached while expanding depth {}: {} of {} transitions of that level not executed", cfg.wall_cap_s, depth, sk, items.len()));
        }
        let level_min = level_min.into_inner().unwrap();
        let mut next = vec![];
        for (key, idx, node) in results.into_iter().flatten() {
            if seen.contains(&key) || level_min.get(&key) != Some(&idx) {
                continue;
            }
            seen.insert(key);
            stats.states += 1;
            if let Some(n) = node {
                next.push(n);
            }
        }
        let uk = unkept.swap(0, Ordering::Relaxed);
        if uk > 0 {
            stats.capped = Some(format!("memory budget {} GiB for the snapshots of one level reached at depth {}: {} new states checked but not kept for expansion", mem_budget >> 30, depth + 1, uk));
        }
        // deterministic order regardless of thread scheduling
        next.sort_by(|a, b| a.history.cmp(&b.history));
        frontier = next;
        depth += 1;
        if sk > 0 {
            break;
        }
        if failures.lock().unwrap().iter().filter(|f| f.signature().is_none()).count() >= 20 {
            stats.capped = Some("stopped after 20 failures".into());
            break;
        }
    }
    stats.transitions = transitions.load(Ordering::Relaxed);
    stats.refused = refused.load(Ordering::Relaxed);
    stats.duplicates = duplicates.load(Ordering::Relaxed);
    stats.state_checks = state_checks.load(Ordering::Relaxed);
    stats.outcomes = outcomes.into_inner().unwrap();
    let mut f = failures.into_inner().unwrap();
    f.sort_by(|a, b| (a.history.len(), &a.history).cmp(&(b.history.len(), &b.history)));
    (stats, f)
}

/// Cumulative worker time per phase (restore, apply, state key, checks, snapshot), for tuning.
pub static PROF_NS: [std::sync::atomic::AtomicU64; 8] = [const { std::sync::atomic::AtomicU64::new(0) }; 8];
struct ProfGuard(usize, Instant);
impl Drop for ProfGuard {
    fn drop(&mut self) {
        prof(self.0, self.1);
    }
}
fn prof(i: usize, t: Instant) {
    PROF_NS[i].fetch_add(t.elapsed().as_nanos() as u64, Ordering::Relaxed);
}
pub fn prof_report() -> String {
    let v: Vec<String> = ["restore", "apply", "key", "checks", "snapshot", "pool_view", "roots", "wits"].iter().zip(PROF_NS.iter()).map(|(n, a)| format!("{n}={:.1}s", a.load(Ordering::Relaxed) as f64 / 1e9)).collect();
    v.join(" ")
}

pub fn state_key(w: &Wallet, m: &Model) -> u128 {
    let mut k = canon(w.db.conn());
    k.extend_from_slice(m.key().as_bytes());
    mc_core::key128(&k)
}

/// Replay an operation history from a fresh wallet, evaluating the checks after every step.
pub fn replay_history(cx: &Ctx, ops: &[Op], checks: &[&StateCheck]) -> Result<(), String> {
    let mut w = db::new_wallet(cx.u, cx.cfg.retention, false);
    let mut m = Model::default();
    for c in checks {
        c(&mut w, cx, &m).map_err(|e| format!("initial state: {e}"))?;
    }
    for (i, op) in ops.iter().enumerate() {
        let pre = db::dump_digest(w.db.conn(), &[]);
        match apply(&mut w, cx.u, &m, op).map_err(|e| format!("step {i} {op:?}: {e}"))? {
            StepResult::Refused(why) => {
                if db::dump_digest(w.db.conn(), &[]) != pre {
                    return Err(format!("step {i} {op:?}: refused ({why}) but the database changed"));
                }
            }
            StepResult::Done(n) => {
                m = n;
                if std::env::var("VERIF_DEBUG_TREES").is_ok() {
                    eprintln!("== after step {i} {op:?} (chain {})", m.chain);
                    for p in POOLS {
                        let cps = db::query_rows(w.db.conn(), &format!("SELECT checkpoint_id, position FROM {}_tree_checkpoints ORDER BY checkpoint_id", p.prefix()));
                        eprintln!("   {p:?} {} checkpoints {:?} ... {:?}", cps.len(), &cps[..cps.len().min(6)], &cps[cps.len().saturating_sub(8)..]);
                        for h in cx.u.first..cx.u.first + 6 {
                            eprintln!("      truth@{h}: {:?}", (0..cx.u.chains.len()).map(|c| cx.u.chains[c].blocks.get(&h).map(|b| (b.n_commitments, hex::encode(&truth_root(cx.u, c, p, h)[..4])))).collect::<Vec<_>>());
                        }
                        let ids: Vec<u32> = db::query_rows(w.db.conn(), &format!("SELECT checkpoint_id FROM {}_tree_checkpoints ORDER BY checkpoint_id", p.prefix())).iter().map(|r| r.parse().unwrap()).collect();
                        let want = Want { root: vec![true; ids.len()], wit: vec![] };
                        if let Ok((roots, _)) = pool_view(&mut w, p, &ids, &[], &want) {
                            eprintln!("      wallet roots: {:?}", ids.iter().zip(roots.iter()).map(|(h, r)| (h, r.map(|r| hex::encode(&r[..4])))).collect::<Vec<_>>());
                        }
                    }
                }
                for c in checks {
                    c(&mut w, cx, &m).map_err(|e| format!("after step {i} {op:?}: {e}"))?;
                }
            }
        }
    }
    Ok(())
}

/// Parallel map on plain OS threads (NOT the rayon pool: `scan_cached_blocks` hands its batch
/// decryption tasks to rayon's global pool and blocks on their results, so running the exploration
/// workers inside that pool starves it - observed as a deadlock).
pub fn par_map<T: Sync, W, R: Send>(items: &[T], init: impl Fn() -> W + Sync, f: impl Fn(&mut W, &T) -> R + Sync) -> Vec<R> {
    let n = items.len();
    let workers = std::thread::available_parallelism().map(|x| x.get()).unwrap_or(8).min(n.max(1));
    let next = std::sync::atomic::AtomicUsize::new(0);
    let out: Mutex<Vec<Option<R>>> = Mutex::new((0..n).map(|_| None).collect());
    std::thread::scope(|s| {
        for _ in 0..workers {
            s.spawn(|| {
                let mut w = init();
                loop {
                    let i = next.fetch_add(1, Ordering::Relaxed);
                    if i >= n {
                        break;
                    }
                    let r = f(&mut w, &items[i]);
                    out.lock().unwrap()[i] = Some(r);
                }
            });
        }
    });
    out.into_inner().unwrap().into_iter().map(|x| x.expect("worker result")).collect()
}

/// Worker wallets kept across `par_map` calls, keyed by (network, retention interval): creating a
/// wallet runs every schema migration and is far more expensive than one transition. A restored
/// snapshot replaces the whole database content, so reuse cannot carry state between transitions.
static WALLET_POOL: Mutex<Vec<(String, u32, Wallet)>> = Mutex::new(Vec::new());

pub struct Pooled {
    key: (String, u32),
    pub w: Option<Wallet>,
}

impl Pooled {
    pub fn get(u: &Universe, retention: u32) -> Pooled {
        let key = (format!("{:?}", u.network), retention);
        let mut g = WALLET_POOL.lock().unwrap();
        let w = match g.iter().position(|(n, r, _)| *n == key.0 && *r == key.1) {
            Some(i) => g.swap_remove(i).2,
            None => {
                drop(g);
                db::new_wallet(u, retention, false)
            }
        };
        Pooled { key, w: Some(w) }
    }
}

impl Drop for Pooled {
    fn drop(&mut self) {
        if std::thread::panicking() {
            return;
        }
        if let Some(w) = self.w.take() {
            WALLET_POOL.lock().unwrap().push((self.key.0.clone(), self.key.1, w));
        }
    }
}
