//! The write operations driven by the C02 fault enumeration, and the pre-states they start from.

use std::collections::HashSet;
use std::sync::Arc;

use secrecy::SecretVec;
use zcash_client_backend::data_api::chain::{scan_cached_blocks, CommitmentTreeRoot};
use zcash_client_backend::data_api::scanning::ScanPriority;
use zcash_client_backend::data_api::{AccountBirthday, AccountPurpose, OutputLockStore, TransactionStatus, WalletCommitmentTrees, WalletWrite};
use zcash_client_backend::wallet::{LockOwner, OutputRef};
use zcash_keys::keys::UnifiedAddressRequest;
use zcash_primitives::transaction::TxId;
use zcash_protocol::consensus::BlockHeight;
use zcash_protocol::{PoolType, ShieldedPool};

use crate::db::{self, Snapshot, Wallet};
use crate::graph::{self, Model, Op};
use crate::universe::{Pool, ShardRoot, Universe};
use crate::universes::{self, FIRST};

pub type OpFn = dyn Fn(&mut Wallet, &Fixture) -> Result<String, String> + Send + Sync;

pub struct OpDef {
    pub name: String,
    pub pre: usize,
    pub f: Arc<OpFn>,
    /// 0 = wallet over the `tiny` universe; 1 = wallet over the C08 universe (its network upgrade
    /// heights differ, so a wallet handle created with the matching parameters is used)
    pub env: u8,
}

pub struct Fixture {
    /// the C08 environment (universe with real pending transactions built once)
    pub env8: Arc<crate::c08::chain::Env>,
    pub u: Universe,
    pub pre_names: Vec<&'static str>,
    pub pres: Vec<Snapshot>,
    pub ops: Vec<OpDef>,
}

fn e<T, E: std::fmt::Debug>(r: Result<T, E>) -> Result<T, String> {
    r.map_err(|x| format!("{x:?}").chars().take(160).collect())
}

fn scan(w: &mut Wallet, u: &Universe, chain: usize, from: u32, to: u32) -> Result<String, String> {
    let src = u.source(chain);
    let st = u.state_before(chain, from).clone();
    e(scan_cached_blocks(&u.network, &src, &mut w.db, BlockHeight::from_u32(from), &st, (to - from + 1) as usize)).map(|s| format!("{:?}", s.scanned_range()))
}

fn pool_type(p: Pool) -> PoolType {
    PoolType::Shielded(match p {
        Pool::Sapling => ShieldedPool::Sapling,
        Pool::Orchard => ShieldedPool::Orchard,
        Pool::Ironwood => ShieldedPool::Ironwood,
    })
}

pub fn oref(u: &Universe, label: &str) -> OutputRef {
    let n = u.note(label);
    OutputRef::new(TxId::from_bytes(n.txid), pool_type(n.pool), n.output_index as u32)
}

pub const OWNER_X: LockOwner = LockOwner::new([0x11; 32]);
pub const OWNER_Y: LockOwner = LockOwner::new([0x22; 32]);

impl Fixture {
    pub fn build() -> Fixture {
        let u = universes::tiny();
        let ctip = u.chains[0].tip();
        let mut pre_names = vec![];
        let mut pres = vec![];
        let mut mk = |name: &'static str, hist: Vec<Op>, extra: &dyn Fn(&mut Wallet)| {
            let mut w = db::new_wallet(&u, 4, false);
            let mut m = Model::default();
            for op in &hist {
                match graph::apply(&mut w, &u, &m, op).unwrap_or_else(|er| panic!("fixture {name}: {er}")) {
                    graph::StepResult::Done(n) => m = n,
                    graph::StepResult::Refused(why) => panic!("fixture {name}: {op:?} refused: {why}"),
                }
            }
            extra(&mut w);
            pre_names.push(name);
            pres.push(db::snapshot(w.db.conn()));
        };
        // 0: fresh wallet with accounts A and B
        mk("fresh", vec![], &|_| {});
        // 1: tip known, S0..S1 scanned (a1, a2, b0 received)
        mk("mid", vec![Op::Tip { h: FIRST + 1 }, Op::Scan { from: FIRST, to: FIRST + 1 }], &|_| {});
        // 2: everything scanned
        mk("full", vec![Op::Tip { h: ctip }, Op::Scan { from: FIRST, to: ctip }], &|_| {});
        // 3: mid + a1, a2 locked by X
        let lock_refs = vec![oref(&u, "a1"), oref(&u, "a2")];
        mk("locked", vec![Op::Tip { h: FIRST + 1 }, Op::Scan { from: FIRST, to: FIRST + 1 }], &|w| {
            w.db.lock_outputs(&lock_refs, OWNER_X, BlockHeight::from_u32(FIRST + 30)).expect("fixture lock");
        });
        // 5: full, with the Sapling checkpoints at or below FIRST+2 removed: the documented state of
        // a pool whose rescan has so far only reached blocks near the tip (S0..S3 scanned, no stretch, so
        // the pruning floor lies below the target; valid, but a rewind to
        // FIRST+2 must be refused: WouldDestroyWitnesses). Constructed by deleting rows.
        mk("s0-s3-sapling-checkpoints-above-only", vec![Op::Tip { h: FIRST + 4 }, Op::Scan { from: FIRST, to: FIRST + 4 }], &|w| {
            w.db.conn().execute("DELETE FROM sapling_tree_checkpoints WHERE checkpoint_id <= ?", [FIRST + 2]).expect("delete checkpoints");
        });
        // 4: scanned out of order with a gap (S2..S3 scanned, S0..S1 not), tip known
        mk("gap", vec![Op::Tip { h: ctip }, Op::Scan { from: FIRST + 2, to: ctip }], &|_| {});
        // 6: mid + an application table of the kind `WalletMigrator::with_external_migrations` creates
        mk("mid-ext", vec![Op::Tip { h: FIRST + 1 }, Op::Scan { from: FIRST, to: FIRST + 1 }], &|w| {
            w.db.conn().execute_batch("CREATE TABLE ext_verif_kv (k TEXT PRIMARY KEY, v INTEGER NOT NULL)").expect("extension table");
        });

        let mut ops: Vec<OpDef> = vec![];
        let mut add = |name: &str, pre: usize, f: Arc<OpFn>| ops.push(OpDef { name: name.to_string(), pre, f, env: 0 });

        // --- block storage
        add("scan1@fresh", 0, Arc::new(|w, fx| scan(w, &fx.u, 0, FIRST, FIRST)));
        add("scan_all@fresh", 0, Arc::new(|w, fx| scan(w, &fx.u, 0, FIRST, fx.u.chains[0].tip())));
        add("scan1@mid", 1, Arc::new(|w, fx| scan(w, &fx.u, 0, FIRST + 2, FIRST + 2)));
        add("scan_rest@mid", 1, Arc::new(|w, fx| scan(w, &fx.u, 0, FIRST + 2, fx.u.chains[0].tip())));
        add("rescan@full", 2, Arc::new(|w, fx| scan(w, &fx.u, 0, FIRST + 1, FIRST + 2)));
        add("fill_gap@gap", 5, Arc::new(|w, fx| scan(w, &fx.u, 0, FIRST, FIRST + 1)));
        // --- chain tip / queue
        add("tip@fresh", 0, Arc::new(|w, _| e(w.db.update_chain_tip(BlockHeight::from_u32(FIRST + 4))).map(|_| String::new())));
        add("tip_beyond@mid", 1, Arc::new(|w, _| e(w.db.update_chain_tip(BlockHeight::from_u32(FIRST + 250))).map(|_| String::new())));
        add("prune_queue@gap", 5, Arc::new(|w, _| e(w.db.prune_scan_queue_below(BlockHeight::from_u32(FIRST + 2), Some(ScanPriority::ChainTip))).map(|n| n.to_string())));
        // --- truncation / rewind
        add("truncate@mid", 1, Arc::new(|w, _| e(w.db.truncate_to_height(BlockHeight::from_u32(FIRST))).map(|h| format!("{h:?}"))));
        add("truncate@full", 2, Arc::new(|w, _| e(w.db.truncate_to_height(BlockHeight::from_u32(FIRST + 1))).map(|h| format!("{h:?}"))));
        add(
            "truncate_chain_state@full",
            2,
            Arc::new(|w, fx| e(w.db.truncate_to_chain_state(fx.u.chains[0].blocks[&(FIRST + 1)].state_after.clone())).map(|_| String::new())),
        );
        add(
            "rewind_chain_state@full",
            2,
            Arc::new(|w, fx| e(w.db.rewind_to_chain_state(fx.u.genesis.clone(), HashSet::new())).map(|_| String::new())),
        );
        // a rewind the wallet must refuse after it has already trimmed the queue and un-mined
        // transactions inside its transaction (no checkpoint at the target, checkpoints on both sides)
        add(
            "rewind_refused@sapling-checkpoints-above-only",
            4,
            Arc::new(|w, fx| e(w.db.rewind_to_chain_state(fx.u.chains[0].blocks[&(FIRST + 2)].state_after.clone(), HashSet::new())).map(|_| String::new())),
        );
        add("truncate_refused@gap", 5, Arc::new(|w, _| e(w.db.truncate_to_height(BlockHeight::from_u32(FIRST - 1))).map(|h| format!("{h:?}"))));
        // --- accounts
        add(
            "create_account@fresh",
            0,
            Arc::new(|w, fx| {
                let b = AccountBirthday::from_parts(fx.u.genesis.clone(), None);
                e(w.db.create_account("C", &SecretVec::new(crate::universe::SEED_WALLET.to_vec()), &b, None)).map(|_| String::new())
            }),
        );
        add(
            "create_account@full",
            2,
            Arc::new(|w, fx| {
                let b = AccountBirthday::from_parts(fx.u.chains[0].blocks[&(FIRST + 1)].state_after.clone(), None);
                e(w.db.create_account("C", &SecretVec::new(crate::universe::SEED_WALLET.to_vec()), &b, None)).map(|_| String::new())
            }),
        );
        add(
            "import_ufvk@mid",
            1,
            Arc::new(|w, fx| {
                let b = AccountBirthday::from_parts(fx.u.genesis.clone(), None);
                e(w.db.import_account_ufvk("F", &fx.u.keys.ufvk_f, &b, AccountPurpose::ViewOnly, None)).map(|_| String::new())
            }),
        );
        add(
            "import_hd@mid",
            1,
            Arc::new(|w, fx| {
                let b = AccountBirthday::from_parts(fx.u.genesis.clone(), None);
                e(w.db.import_account_hd("H", &SecretVec::new(crate::universe::SEED_FOREIGN.to_vec()), zip32::AccountId::ZERO, &b, None)).map(|_| String::new())
            }),
        );
        add("delete_account@full", 2, Arc::new(|w, _| e(w.db.delete_account(w.acct_b)).map(|_| String::new())));
        add("delete_account_a@full", 2, Arc::new(|w, _| e(w.db.delete_account(w.acct_a)).map(|_| String::new())));
        // --- a wallet write paired with a write to an application table in ONE transaction
        // (`transactionally_with_extension`): both take effect or neither does. The extension handle
        // installs its own authorizer for its statements, so injected statement-compilation faults
        // (class 2) reach the wallet write only; interrupts and commit vetoes cover all of it.
        add(
            "wallet_and_extension_write@mid-ext",
            6,
            Arc::new(|w, _| {
                w.db.db_mut()
                    .transactionally_with_extension(|wdb, ext| {
                        wdb.update_chain_tip(BlockHeight::from_u32(FIRST + 30))?;
                        ext.execute("INSERT INTO ext_verif_kv (k, v) VALUES ('tip', ?1)", [FIRST + 30])?;
                        Ok::<_, zcash_client_sqlite::error::SqliteClientError>(())
                    })
                    .map(|_| String::new())
                    .map_err(|e| format!("{e:?}"))
            }),
        );
        // --- addresses
        add("next_address@mid", 1, Arc::new(|w, _| e(w.db.get_next_available_address(w.acct_a, UnifiedAddressRequest::AllAvailableKeys)).map(|r| format!("{:?}", r.map(|x| x.1)))));
        add("reserve_ephemeral@mid", 1, Arc::new(|w, _| e(w.db.reserve_next_n_ephemeral_addresses(w.acct_a, 3)).map(|r| r.len().to_string())));
        add("reserve_internal@mid", 1, Arc::new(|w, _| e(w.db.reserve_next_n_internal_addresses(w.acct_a, 2)).map(|r| r.len().to_string())));
        // --- a transparent UTXO reported by the server for the account's lowest receiver (mined at
        // FIRST+1, inside the scanned range of "mid"; and un-mined)
        for (opname, mined) in [("put_utxo_mined@mid", true), ("put_utxo_unmined@mid", false)] {
            add(
                opname,
                1,
                Arc::new(move |w, _| {
                    use zcash_client_backend::data_api::WalletRead;
                    use zcash_client_backend::wallet::WalletTransparentOutput;
                    use zcash_transparent::bundle::{OutPoint, TxOut};
                    let recv = e(w.db.get_transparent_receivers(w.acct_a, false, false))?;
                    let addr = *recv.keys().min_by_key(|a| format!("{a:?}")).ok_or("account A has no transparent receiver")?;
                    let out = WalletTransparentOutput::from_parts(
                        OutPoint::new([0x5A; 32], 1),
                        TxOut::new(zcash_protocol::value::Zatoshis::const_from_u64(77_000), addr.script().into()),
                        mined.then(|| BlockHeight::from_u32(FIRST + 1)),
                        None,
                        None,
                        None,
                    )
                    .ok_or("not a wallet script")?;
                    e(w.db.put_received_transparent_utxo(&out)).map(|r| format!("{r:?}").chars().take(8).collect())
                }),
            );
        }
        // --- subtree roots
        // Each put_*_subtree_roots call is one wallet write operation (one transaction).
        for (opname, pool) in [("sapling_roots@fresh", Pool::Sapling), ("orchard_roots@fresh", Pool::Orchard)] {
            add(
                opname,
                0,
                Arc::new(move |w, fx| {
                    for b in fx.u.chains[0].blocks.values() {
                        for (p, idx, root) in &b.completed {
                            if *p != pool {
                                continue;
                            }
                            let h = BlockHeight::from_u32(b.height);
                            match root {
                                ShardRoot::Sapling(n) => e(w.db.put_sapling_subtree_roots(*idx, &[CommitmentTreeRoot::from_parts(h, *n)]))?,
                                ShardRoot::Orchard(n) => e(w.db.put_orchard_subtree_roots(*idx, &[CommitmentTreeRoot::from_parts(h, *n)]))?,
                            }
                        }
                    }
                    Ok(String::new())
                }),
            );
        }
        add(
            "sapling_roots@full",
            2,
            Arc::new(|w, fx| {
                let b = &fx.u.chains[0].blocks[&FIRST];
                for (pool, idx, root) in &b.completed {
                    if let (Pool::Sapling, ShardRoot::Sapling(n)) = (pool, root) {
                        e(w.db.put_sapling_subtree_roots(*idx, &[CommitmentTreeRoot::from_parts(BlockHeight::from_u32(b.height), *n)]))?;
                    }
                }
                Ok(String::new())
            }),
        );
        // --- locking
        add(
            "lock@mid",
            1,
            Arc::new(|w, fx| e(w.db.lock_outputs(&[oref(&fx.u, "a1"), oref(&fx.u, "a2")], OWNER_X, BlockHeight::from_u32(FIRST + 30))).map(|n| n.to_string())),
        );
        add(
            "lock_conflict@locked",
            3,
            Arc::new(|w, fx| e(w.db.lock_outputs(&[oref(&fx.u, "b0"), oref(&fx.u, "a1")], OWNER_Y, BlockHeight::from_u32(FIRST + 30))).map(|n| n.to_string())),
        );
        add(
            "relock@locked",
            3,
            Arc::new(|w, fx| e(w.db.lock_outputs(&[oref(&fx.u, "a1"), oref(&fx.u, "b0")], OWNER_X, BlockHeight::from_u32(FIRST + 60))).map(|n| n.to_string())),
        );
        add("unlock@locked", 3, Arc::new(|w, fx| e(w.db.unlock_output(&oref(&fx.u, "a1"), OWNER_X)).map(|b| b.to_string())));
        add("clear_locks@locked", 3, Arc::new(|w, _| e(w.db.clear_locked_outputs(w.acct_a)).map(|n| n.to_string())));
        // --- transaction status / trust
        add(
            "tx_status_unmined@full",
            2,
            Arc::new(|w, fx| e(w.db.set_transaction_status(TxId::from_bytes(fx.u.note("a3").txid), TransactionStatus::NotInMainChain)).map(|_| String::new())),
        );
        add(
            "tx_status_mined@mid",
            1,
            Arc::new(|w, fx| e(w.db.set_transaction_status(TxId::from_bytes(fx.u.note("a1").txid), TransactionStatus::Mined(BlockHeight::from_u32(FIRST)))).map(|_| String::new())),
        );
        add("tx_trust@mid", 1, Arc::new(|w, fx| e(w.db.set_tx_trust(TxId::from_bytes(fx.u.note("a1").txid), true)).map(|_| String::new())));
        // --- pool-migration store writes (c02/migops.rs): each has its own pre-state = mid + setup
        for mo in super::migops::migration_ops() {
            let mut w = db::new_wallet(&u, 4, false);
            db::restore(w.db.conn_mut(), &pres[1]);
            w.refresh_accounts();
            (mo.setup)(&mut w, &u);
            pre_names.push(Box::leak(format!("mid+{}", mo.name).into_boxed_str()));
            pres.push(db::snapshot(w.db.conn()));
            let f = mo.f.clone();
            ops.push(OpDef { name: mo.name.clone(), pre: pres.len() - 1, f: Arc::new(move |w, fx| f(w, &fx.u)), env: 0 });
        }
        // --- transaction storage, on the C08 universe (real Sapling transactions built once with the
        //     repository's proposal + builder path, mock provers)
        let env8 = Arc::new(crate::c08::chain::Env::build().expect("C08 environment"));
        {
            use crate::c08::{chain::Env, uni};
            use zcash_client_backend::data_api::WalletRead;
            let restore8 = |snap: &Snapshot| {
                let mut w = db::new_wallet(&env8.u, uni::RETENTION, false);
                db::restore(w.db.conn_mut(), snap);
                w.refresh_accounts();
                w
            };
            // pre-state A: everything scanned, nothing pending
            pre_names.push("c08-full");
            pres.push(db::snapshot(restore8(&env8.starts[0].1).db.conn()));
            let pre_a = pres.len() - 1;
            // pre-state B: pending transaction 0 stored
            let mut wb = restore8(&env8.starts[0].1);
            env8.store_pending(&mut wb, 0).expect("store pending 0");
            pre_names.push("c08-full+pending0");
            pres.push(db::snapshot(wb.db.conn()));
            let pre_b = pres.len() - 1;
            let mut add8 = |name: &str, pre: usize, f: Arc<OpFn>| ops.push(OpDef { name: name.to_string(), pre, f, env: 1 });
            add8("store_sent_p0@c08-full", pre_a, Arc::new(|w, fx| fx.env8.store_pending(w, 0).map(|_| String::new())));
            // both pending transactions in ONE call (as a multi-step proposal does): all or nothing
            add8("store_sent_batch_p0_p1@c08-full", pre_a, Arc::new(|w, fx| fx.env8.store_pending_batch(w, &[0, 1]).map(|_| String::new())));
            add8("store_sent_p1@c08-pending0", pre_b, Arc::new(|w, fx| fx.env8.store_pending(w, 1).map(|_| String::new())));
            add8("store_sent_p0_again@c08-pending0", pre_b, Arc::new(|w, fx| fx.env8.store_pending(w, 0).map(|_| String::new())));
            let decrypted = |w: &mut Wallet, env: &Env, p: usize, mined: Option<u32>| -> Result<String, String> {
                let ufvks = e(w.db.get_unified_full_viewing_keys())?;
                let d = zcash_client_backend::decrypt_transaction(&env.u.network, mined.map(BlockHeight::from_u32), Some(BlockHeight::from_u32(uni::T0)), &env.pend[p].tx, &ufvks);
                e(w.db.store_decrypted_tx(d)).map(|_| String::new())
            };
            add8("store_decrypted_p0_unmined@c08-full", pre_a, Arc::new(move |w, fx| decrypted(w, &fx.env8, 0, None)));
            add8("store_decrypted_p1_unmined@c08-pending0", pre_b, Arc::new(move |w, fx| decrypted(w, &fx.env8, 1, None)));
            add8("store_decrypted_p0_known@c08-pending0", pre_b, Arc::new(move |w, fx| decrypted(w, &fx.env8, 0, None)));
            add8(
                "tx_status_not_recognized@c08-pending0",
                pre_b,
                Arc::new(|w, fx| e(w.db.set_transaction_status(TxId::from_bytes(fx.env8.pend[0].txid), TransactionStatus::TxidNotRecognized)).map(|_| String::new())),
            );
            add8(
                "tx_status_mined@c08-pending0",
                pre_b,
                Arc::new(|w, fx| e(w.db.set_transaction_status(TxId::from_bytes(fx.env8.pend[0].txid), TransactionStatus::Mined(BlockHeight::from_u32(uni::T0)))).map(|_| String::new())),
            );
            add8(
                "put_utxo@c08-full",
                pre_a,
                Arc::new(|w, fx| {
                    use zcash_client_backend::wallet::WalletTransparentOutput;
                    use zcash_transparent::bundle::{OutPoint, TxOut};
                    use zcash_transparent::keys::TransparentKeyScope;
                    let out = WalletTransparentOutput::from_parts(
                        OutPoint::new([0xc2; 32], 1),
                        TxOut::new(zcash_protocol::value::Zatoshis::from_u64(33_000).unwrap(), fx.env8.taddr_a.script().into()),
                        Some(BlockHeight::from_u32(uni::F + 5)),
                        Some(w.acct_a),
                        Some(TransparentKeyScope::EXTERNAL),
                        None,
                    )
                    .expect("p2pkh output");
                    e(w.db.put_received_transparent_utxo(&out)).map(|_| String::new())
                }),
            );
        }
        Fixture { env8, u, pre_names, pres, ops }
    }
}
