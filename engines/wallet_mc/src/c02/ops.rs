//! The write operations driven by the C02 fault enumeration, and the pre-states they start from.

use std::collections::HashSet;
use std::sync::Arc;

use secrecy::SecretVec;
use zcash_client_backend::data_api::chain::{scan_cached_blocks, CommitmentTreeRoot};
use zcash_client_backend::data_api::scanning::ScanPriority;
use zcash_client_backend::data_api::{AccountBirthday, AccountPurpose, OutputLockStore, TransactionStatus, WalletCommitmentTrees, WalletWrite};
use zcash_client_backend::wallet::{LockOwner, OutputRef};
use zcash_keys::keys::UnifiedAddressRequest;
use zcash_primitives::transaction::TxId;
use zcash_protocol::consensus::BlockHeight;
use zcash_protocol::{PoolType, ShieldedPool};

use crate::db::{self, Snapshot, Wallet};
use crate::graph::{self, Model, Op};
use crate::universe::{Pool, ShardRoot, Universe};
use crate::universes::{self, FIRST};

pub type OpFn = dyn Fn(&mut Wallet, &Fixture) -> Result<String, String> + Send + Sync;

pub struct OpDef {
    pub name: String,
    pub pre: usize,
    pub f: Arc<OpFn>,
}

pub struct Fixture {
    pub u: Universe,
    pub pre_names: Vec<&'static str>,
    pub pres: Vec<Snapshot>,
    pub ops: Vec<OpDef>,
}

fn e<T, E: std::fmt::Debug>(r: Result<T, E>) -> Result<T, String> {
    r.map_err(|x| format!("{x:?}").chars().take(160).collect())
}

fn scan(w: &mut Wallet, u: &Universe, chain: usize, from: u32, to: u32) -> Result<String, String> {
    let src = u.source(chain);
    let st = u.state_before(chain, from).clone();
    e(scan_cached_blocks(&u.network, &src, &mut w.db, BlockHeight::from_u32(from), &st, (to - from + 1) as usize)).map(|s| format!("{:?}", s.scanned_range()))
}

fn pool_type(p: Pool) -> PoolType {
    PoolType::Shielded(match p {
        Pool::Sapling => ShieldedPool::Sapling,
        Pool::Orchard => ShieldedPool::Orchard,
        Pool::Ironwood => ShieldedPool::Ironwood,
    })
}

pub fn oref(u: &Universe, label: &str) -> OutputRef {
    let n = u.note(label);
    OutputRef::new(TxId::from_bytes(n.txid), pool_type(n.pool), n.output_index as u32)
}

pub const OWNER_X: LockOwner = LockOwner::new([0x11; 32]);
pub const OWNER_Y: LockOwner = LockOwner::new([0x22; 32]);

impl Fixture {
    pub fn build() -> Fixture {
        let u = universes::tiny();
        let ctip = u.chains[0].tip();
        let mut pre_names = vec![];
        let mut pres = vec![];
        let mut mk = |name: &'static str, hist: Vec<Op>, extra: &dyn Fn(&mut Wallet)| {
            let mut w = db::new_wallet(&u, 4, false);
            let mut m = Model::default();
            for op in &hist {
                match graph::apply(&mut w, &u, &m, op).unwrap_or_else(|er| panic!("fixture {name}: {er}")) {
                    graph::StepResult::Done(n) => m = n,
                    graph::StepResult::Refused(why) => panic!("fixture {name}: {op:?} refused: {why}"),
                }
            }
            extra(&mut w);
            pre_names.push(name);
            pres.push(db::snapshot(w.db.conn()));
        };
        // 0: fresh wallet with accounts A and B
        mk("fresh", vec![], &|_| {});
        // 1: tip known, S0..S1 scanned (a1, a2, b0 received)
        mk("mid", vec![Op::Tip { h: FIRST + 1 }, Op::Scan { from: FIRST, to: FIRST + 1 }], &|_| {});
        // 2: everything scanned
        mk("full", vec![Op::Tip { h: ctip }, Op::Scan { from: FIRST, to: ctip }], &|_| {});
        // 3: mid + a1, a2 locked by X
        let lock_refs = vec![oref(&u, "a1"), oref(&u, "a2")];
        mk("locked", vec![Op::Tip { h: FIRST + 1 }, Op::Scan { from: FIRST, to: FIRST + 1 }], &|w| {
            w.db.lock_outputs(&lock_refs, OWNER_X, BlockHeight::from_u32(FIRST + 30)).expect("fixture lock");
        });
        // 4: scanned out of order with a gap (S2..S3 scanned, S0..S1 not), tip known
        mk("gap", vec![Op::Tip { h: ctip }, Op::Scan { from: FIRST + 2, to: ctip }], &|_| {});

        let mut ops: Vec<OpDef> = vec![];
        let mut add = |name: &str, pre: usize, f: Arc<OpFn>| ops.push(OpDef { name: name.to_string(), pre, f });

        // --- block storage
        add("scan1@fresh", 0, Arc::new(|w, fx| scan(w, &fx.u, 0, FIRST, FIRST)));
        add("scan_all@fresh", 0, Arc::new(|w, fx| scan(w, &fx.u, 0, FIRST, fx.u.chains[0].tip())));
        add("scan1@mid", 1, Arc::new(|w, fx| scan(w, &fx.u, 0, FIRST + 2, FIRST + 2)));
        add("scan_rest@mid", 1, Arc::new(|w, fx| scan(w, &fx.u, 0, FIRST + 2, fx.u.chains[0].tip())));
        add("rescan@full", 2, Arc::new(|w, fx| scan(w, &fx.u, 0, FIRST + 1, FIRST + 2)));
        add("fill_gap@gap", 4, Arc::new(|w, fx| scan(w, &fx.u, 0, FIRST, FIRST + 1)));
        // --- chain tip / queue
        add("tip@fresh", 0, Arc::new(|w, _| e(w.db.update_chain_tip(BlockHeight::from_u32(FIRST + 4))).map(|_| String::new())));
        add("tip_beyond@mid", 1, Arc::new(|w, _| e(w.db.update_chain_tip(BlockHeight::from_u32(FIRST + 250))).map(|_| String::new())));
        add("prune_queue@gap", 4, Arc::new(|w, _| e(w.db.prune_scan_queue_below(BlockHeight::from_u32(FIRST + 2), Some(ScanPriority::ChainTip))).map(|n| n.to_string())));
        // --- truncation / rewind
        add("truncate@mid", 1, Arc::new(|w, _| e(w.db.truncate_to_height(BlockHeight::from_u32(FIRST))).map(|h| format!("{h:?}"))));
        add("truncate@full", 2, Arc::new(|w, _| e(w.db.truncate_to_height(BlockHeight::from_u32(FIRST + 1))).map(|h| format!("{h:?}"))));
        add(
            "truncate_chain_state@full",
            2,
            Arc::new(|w, fx| e(w.db.truncate_to_chain_state(fx.u.chains[0].blocks[&(FIRST + 1)].state_after.clone())).map(|_| String::new())),
        );
        add(
            "rewind_chain_state@full",
            2,
            Arc::new(|w, fx| e(w.db.rewind_to_chain_state(fx.u.genesis.clone(), HashSet::new())).map(|_| String::new())),
        );
        // --- accounts
        add(
            "create_account@fresh",
            0,
            Arc::new(|w, fx| {
                let b = AccountBirthday::from_parts(fx.u.genesis.clone(), None);
                e(w.db.create_account("C", &SecretVec::new(crate::universe::SEED_WALLET.to_vec()), &b, None)).map(|_| String::new())
            }),
        );
        add(
            "create_account@full",
            2,
            Arc::new(|w, fx| {
                let b = AccountBirthday::from_parts(fx.u.chains[0].blocks[&(FIRST + 1)].state_after.clone(), None);
                e(w.db.create_account("C", &SecretVec::new(crate::universe::SEED_WALLET.to_vec()), &b, None)).map(|_| String::new())
            }),
        );
        add(
            "import_ufvk@mid",
            1,
            Arc::new(|w, fx| {
                let b = AccountBirthday::from_parts(fx.u.genesis.clone(), None);
                e(w.db.import_account_ufvk("F", &fx.u.keys.ufvk_f, &b, AccountPurpose::ViewOnly, None)).map(|_| String::new())
            }),
        );
        add(
            "import_hd@mid",
            1,
            Arc::new(|w, fx| {
                let b = AccountBirthday::from_parts(fx.u.genesis.clone(), None);
                e(w.db.import_account_hd("H", &SecretVec::new(crate::universe::SEED_FOREIGN.to_vec()), zip32::AccountId::ZERO, &b, None)).map(|_| String::new())
            }),
        );
        add("delete_account@full", 2, Arc::new(|w, _| e(w.db.delete_account(w.acct_b)).map(|_| String::new())));
        add("delete_account_a@full", 2, Arc::new(|w, _| e(w.db.delete_account(w.acct_a)).map(|_| String::new())));
        // --- addresses
        add("next_address@mid", 1, Arc::new(|w, _| e(w.db.get_next_available_address(w.acct_a, UnifiedAddressRequest::AllAvailableKeys)).map(|r| format!("{:?}", r.map(|x| x.1)))));
        add("reserve_ephemeral@mid", 1, Arc::new(|w, _| e(w.db.reserve_next_n_ephemeral_addresses(w.acct_a, 3)).map(|r| r.len().to_string())));
        add("reserve_internal@mid", 1, Arc::new(|w, _| e(w.db.reserve_next_n_internal_addresses(w.acct_a, 2)).map(|r| r.len().to_string())));
        // --- subtree roots
        // Each put_*_subtree_roots call is one wallet write operation (one transaction).
        for (opname, pool) in [("sapling_roots@fresh", Pool::Sapling), ("orchard_roots@fresh", Pool::Orchard)] {
            add(
                opname,
                0,
                Arc::new(move |w, fx| {
                    for b in fx.u.chains[0].blocks.values() {
                        for (p, idx, root) in &b.completed {
                            if *p != pool {
                                continue;
                            }
                            let h = BlockHeight::from_u32(b.height);
                            match root {
                                ShardRoot::Sapling(n) => e(w.db.put_sapling_subtree_roots(*idx, &[CommitmentTreeRoot::from_parts(h, *n)]))?,
                                ShardRoot::Orchard(n) => e(w.db.put_orchard_subtree_roots(*idx, &[CommitmentTreeRoot::from_parts(h, *n)]))?,
                            }
                        }
                    }
                    Ok(String::new())
                }),
            );
        }
        add(
            "sapling_roots@full",
            2,
            Arc::new(|w, fx| {
                let b = &fx.u.chains[0].blocks[&FIRST];
                for (pool, idx, root) in &b.completed {
                    if let (Pool::Sapling, ShardRoot::Sapling(n)) = (pool, root) {
                        e(w.db.put_sapling_subtree_roots(*idx, &[CommitmentTreeRoot::from_parts(BlockHeight::from_u32(b.height), *n)]))?;
                    }
                }
                Ok(String::new())
            }),
        );
        // --- locking
        add(
            "lock@mid",
            1,
            Arc::new(|w, fx| e(w.db.lock_outputs(&[oref(&fx.u, "a1"), oref(&fx.u, "a2")], OWNER_X, BlockHeight::from_u32(FIRST + 30))).map(|n| n.to_string())),
        );
        add(
            "lock_conflict@locked",
            3,
            Arc::new(|w, fx| e(w.db.lock_outputs(&[oref(&fx.u, "b0"), oref(&fx.u, "a1")], OWNER_Y, BlockHeight::from_u32(FIRST + 30))).map(|n| n.to_string())),
        );
        add(
            "relock@locked",
            3,
            Arc::new(|w, fx| e(w.db.lock_outputs(&[oref(&fx.u, "a1"), oref(&fx.u, "b0")], OWNER_X, BlockHeight::from_u32(FIRST + 60))).map(|n| n.to_string())),
        );
        add("unlock@locked", 3, Arc::new(|w, fx| e(w.db.unlock_output(&oref(&fx.u, "a1"), OWNER_X)).map(|b| b.to_string())));
        add("clear_locks@locked", 3, Arc::new(|w, _| e(w.db.clear_locked_outputs(w.acct_a)).map(|n| n.to_string())));
        // --- transaction status / trust
        add(
            "tx_status_unmined@full",
            2,
            Arc::new(|w, fx| e(w.db.set_transaction_status(TxId::from_bytes(fx.u.note("a3").txid), TransactionStatus::NotInMainChain)).map(|_| String::new())),
        );
        add(
            "tx_status_mined@mid",
            1,
            Arc::new(|w, fx| e(w.db.set_transaction_status(TxId::from_bytes(fx.u.note("a1").txid), TransactionStatus::Mined(BlockHeight::from_u32(FIRST)))).map(|_| String::new())),
        );
        add("tx_trust@mid", 1, Arc::new(|w, fx| e(w.db.set_tx_trust(TxId::from_bytes(fx.u.note("a1").txid), true)).map(|_| String::new())));
        // --- pool-migration store writes (c02/migops.rs): each has its own pre-state = mid + setup
        for mo in super::migops::migration_ops() {
            let mut w = db::new_wallet(&u, 4, false);
            db::restore(w.db.conn_mut(), &pres[1]);
            w.refresh_accounts();
            (mo.setup)(&mut w, &u);
            pre_names.push(Box::leak(format!("mid+{}", mo.name).into_boxed_str()));
            pres.push(db::snapshot(w.db.conn()));
            let f = mo.f.clone();
            ops.push(OpDef { name: mo.name.clone(), pre: pres.len() - 1, f: Arc::new(move |w, fx| f(w, &fx.u)) });
        }
        Fixture { u, pre_names, pres, ops }
    }
}
