//! C02 classes 4 and 5: two connections on one file-backed database.
//!
//! Class 4: while the writer runs, a second connection takes — inside ONE read transaction — a full
//! dump plus `get_wallet_summary` at every p-th VM step of the writer. Every observation must equal
//! the pre-state or the post-state (SQLITE_BUSY = no observation).
//! Class 5: the reader (`get_wallet_summary`, which runs in one read transaction) is the one being
//! stepped; at every p-th VM step of the reader the complete writer operation runs on the other
//! connection. The reader's answer must equal its answer on the pre-state or on the post-state.
//!
//! Both connections are driven by one OS thread (the "other" side acts inside the progress handler
//! of the first), so the interleaving is the explorer's choice and reproducible.

use std::sync::atomic::{AtomicU64, Ordering};
use std::sync::{Arc, Mutex};

use rand_core::OsRng;
use rusqlite::Connection;
use zcash_client_backend::data_api::wallet::ConfirmationsPolicy;
use zcash_client_backend::data_api::WalletRead;
use zcash_client_sqlite::util::SystemClock;
use zcash_client_sqlite::WalletDb;

use super::ops::{Fixture, OpDef};
use super::{digest, run_op};
use crate::db::{self, Wallet};

fn db_path(conn: &Connection) -> String {
    conn.query_row("SELECT file FROM pragma_database_list WHERE name='main'", [], |r| r.get::<_, String>(0)).expect("database path")
}

fn summary_of(conn: &Connection, fx: &Fixture) -> Result<String, String> {
    let wdb = WalletDb::from_connection(conn, fx.u.network, SystemClock, OsRng);
    match mc_core::catch(|| wdb.get_wallet_summary(ConfirmationsPolicy::MIN)) {
        Err(p) => Err(format!("PANIC {p}")),
        Ok(Err(e)) => Err(format!("{e:?}")),
        Ok(Ok(s)) => Ok(match s {
            None => "None".to_string(),
            Some(s) => {
                let mut b: Vec<String> = s.account_balances().iter().map(|(k, v)| format!("{k:?}={v:?}")).collect();
                b.sort();
                format!("tip={:?} fully={:?} {}", s.chain_tip_height(), s.fully_scanned_height(), b.join(";"))
            }
        }),
    }
}

/// A consistent observation through the second connection: everything inside one transaction.
fn observe(reader: &Connection, fx: &Fixture) -> Option<(String, String)> {
    if reader.execute_batch("BEGIN").is_err() {
        return None;
    }
    // force the read snapshot now; BUSY here means the writer holds an exclusive lock
    let probe: Result<i64, _> = reader.query_row("SELECT count(*) FROM sqlite_master", [], |r| r.get(0));
    if probe.is_err() {
        let _ = reader.execute_batch("ROLLBACK");
        return None;
    }
    let d = mc_core::catch(|| digest(reader, false));
    let _ = reader.execute_batch("ROLLBACK");
    // get_wallet_summary opens its own read transaction (it cannot run inside ours); the writer is
    // paused inside its progress handler meanwhile, so both reads see the same instant.
    let s = summary_of(reader, fx);
    match (d, s) {
        (Ok(d), Ok(s)) => Some((d, s)),
        _ => None,
    }
}

pub struct TwoConnResult {
    pub observations: u64,
    pub busy: u64,
    pub distinct: usize,
    pub saw_pre: bool,
    pub saw_post: bool,
}

/// A file-backed wallet plus a second connection to the same file, reused across experiments of
/// one worker (creating a wallet runs every schema migration, which dominated the cost).
pub struct Pair {
    pub w: Wallet,
    pub reader: Connection,
    pub wal: bool,
}

pub fn new_pair(fx: &Fixture, wal: bool) -> Pair {
    let w = db::new_wallet(&fx.u, 4, true);
    if wal {
        let mode: String = w.db.conn().query_row("PRAGMA journal_mode=WAL", [], |r| r.get(0)).expect("journal mode");
        assert_eq!(mode.to_lowercase(), "wal");
    }
    let reader = Connection::open(db_path(w.db.conn())).expect("second connection");
    rusqlite::vtab::array::load_module(&reader).expect("array module");
    // Both connections are driven by one thread: a lock held by the other side can never be released
    // while this side waits, so waiting (rusqlite's default busy timeout is 5 s) is pure delay.
    // SQLITE_BUSY is reported at once and counted as "blocked" / "no observation".
    reader.busy_timeout(std::time::Duration::ZERO).expect("busy timeout");
    w.db.conn().busy_timeout(std::time::Duration::ZERO).expect("busy timeout");
    Pair { w, reader, wal }
}

/// Worker state: one pair per journal mode, created on first use.
#[derive(Default)]
pub struct Pairs(pub [Option<Pair>; 2]);
impl Pairs {
    pub fn get(&mut self, fx: &Fixture, wal: bool) -> &mut Pair {
        let slot = &mut self.0[wal as usize];
        if slot.is_none() {
            *slot = Some(new_pair(fx, wal));
        }
        slot.as_mut().unwrap()
    }
}

fn load(pair: &mut Pair, snap: &db::Snapshot) {
    pair.reader.progress_handler(0, None::<fn() -> bool>);
    pair.w.db.conn().progress_handler(0, None::<fn() -> bool>);
    db::restore(pair.w.db.conn_mut(), snap);
    pair.w.refresh_accounts();
    pair.reader.flush_prepared_statement_cache();
}

/// Class 4.
pub fn writer_observed(fx: &Fixture, pair: &mut Pair, op: &OpDef, period: u64) -> Result<TwoConnResult, String> {
    load(pair, &fx.pres[op.pre]);
    let wal = pair.wal;
    let pre = observe(&pair.reader, fx).ok_or("cannot observe the pre-state")?;
    let obs: Arc<Mutex<Vec<Option<(String, String)>>>> = Arc::new(Mutex::new(vec![]));
    {
        let obs = obs.clone();
        // Raw pointers: the fixture and the reader connection outlive the handler, which is removed
        // below, and everything runs on this one thread.
        let fxp = fx as *const Fixture as usize;
        let rp = &pair.reader as *const Connection as usize;
        let n = AtomicU64::new(0);
        pair.w.db.conn().progress_handler(
            1,
            Some(move || {
                let k = n.fetch_add(1, Ordering::Relaxed) + 1;
                if k % period == 0 {
                    let fx: &Fixture = unsafe { &*(fxp as *const Fixture) };
                    let r: &Connection = unsafe { &*(rp as *const Connection) };
                    obs.lock().unwrap().push(observe(r, fx));
                }
                false
            }),
        );
    }
    let r = run_op(op, &mut pair.w, fx);
    pair.w.db.conn().progress_handler(0, None::<fn() -> bool>);
    let post = observe(&pair.reader, fx).ok_or("cannot observe the post-state")?;
    let obs = obs.lock().unwrap();
    let mut res = TwoConnResult { observations: 0, busy: 0, distinct: 0, saw_pre: false, saw_post: false };
    let mut distinct = std::collections::BTreeSet::new();
    for (i, o) in obs.iter().enumerate() {
        match o {
            None => res.busy += 1,
            Some(o) => {
                res.observations += 1;
                distinct.insert(o.0.clone());
                if *o == pre {
                    res.saw_pre = true;
                } else if *o == post {
                    res.saw_post = true;
                } else if o.0 == pre.0 || o.0 == post.0 {
                    return Err(format!(
                        "{} ({}): at writer step {} the second connection saw a database equal to the {} but a wallet summary that matches neither",
                        op.name,
                        if wal { "WAL" } else { "rollback journal" },
                        (i as u64 + 1) * period,
                        if o.0 == pre.0 { "pre-state" } else { "post-state" }
                    ));
                } else {
                    return Err(format!(
                        "{} ({}): at writer step {} a second connection reading inside one transaction saw a database that is neither the pre-state nor the post-state of the operation (result of the operation: {:?})",
                        op.name,
                        if wal { "WAL" } else { "rollback journal" },
                        (i as u64 + 1) * period,
                        r.as_ref().map(|_| "Ok").map_err(|e| e.clone())
                    ));
                }
            }
        }
    }
    res.distinct = distinct.len();
    Ok(res)
}

/// Class 5.
pub fn reader_interrupted(fx: &Fixture, pair: &mut Pair, op: &OpDef, at_step: u64) -> Result<String, String> {
    load(pair, &fx.pres[op.pre]);
    let wal = pair.wal;
    let pre = summary_of(&pair.reader, fx)?;
    let wrote: Arc<Mutex<Option<Result<String, String>>>> = Arc::new(Mutex::new(None));
    {
        let wrote = wrote.clone();
        let fxp = fx as *const Fixture as usize;
        let opp = op as *const OpDef as usize;
        let wp = &mut pair.w as *mut Wallet as usize;
        let n = AtomicU64::new(0);
        pair.reader.progress_handler(
            1,
            Some(move || {
                let k = n.fetch_add(1, Ordering::Relaxed) + 1;
                if k == at_step {
                    let fx: &Fixture = unsafe { &*(fxp as *const Fixture) };
                    let op: &OpDef = unsafe { &*(opp as *const OpDef) };
                    let w: &mut Wallet = unsafe { &mut *(wp as *mut Wallet) };
                    *wrote.lock().unwrap() = Some(run_op(op, w, fx));
                }
                false
            }),
        );
    }
    let got = summary_of(&pair.reader, fx);
    pair.reader.progress_handler(0, None::<fn() -> bool>);
    let wrote = wrote.lock().unwrap().clone();
    let Some(wres) = wrote else { return Ok("reader-finished-before-step".into()) };
    let post = summary_of(&pair.reader, fx)?;
    let got = got.map_err(|e| format!("{}: get_wallet_summary failed while the writer ran at its step {at_step}: {e}", op.name))?;
    if got == pre {
        Ok(if wres.is_ok() { "summary==pre,writer-ok".into() } else { "summary==pre,writer-blocked".into() })
    } else if got == post {
        Ok("summary==post".into())
    } else {
        Err(format!(
            "{} ({}): get_wallet_summary, interleaved with the writer's complete operation at the reader's VM step {at_step}, returned a mixture of the pre- and post-state (writer result {:?})",
            op.name,
            if wal { "WAL" } else { "rollback journal" },
            wres.as_ref().map(|_| "Ok").map_err(|e| e.clone())
        ))
    }
}

thread_local! {
    static STEP_NO: std::cell::Cell<u64> = const { std::cell::Cell::new(0) };
    static STMT_STARTS: std::cell::RefCell<Vec<u64>> = const { std::cell::RefCell::new(Vec::new()) };
}

fn stmt_trace(_sql: &str) {
    STMT_STARTS.with(|b| b.borrow_mut().push(STEP_NO.with(|n| n.get())));
}

/// Runs `read` on the (warm) reader connection counting VM steps; returns the number of steps and
/// the step numbers at which each SQL statement of the read starts (the statement boundaries: the
/// points where an autocommit statement's snapshot ends and the next one's begins).
#[allow(deprecated)]
fn count_steps(reader: &mut Connection, read: impl Fn(&Connection)) -> (u64, Vec<u64>) {
    // warm-up: the experiments interrupt a read on a connection that has already loaded the schema
    // and cached its prepared statements, so the measurement must be taken in that condition too
    read(reader);
    STEP_NO.with(|n| n.set(0));
    STMT_STARTS.with(|b| b.borrow_mut().clear());
    reader.progress_handler(
        1,
        Some(|| {
            STEP_NO.with(|n| n.set(n.get() + 1));
            false
        }),
    );
    reader.trace(Some(stmt_trace));
    read(reader);
    reader.trace(None);
    reader.progress_handler(0, None::<fn() -> bool>);
    (STEP_NO.with(|n| n.get()), STMT_STARTS.with(|b| b.borrow().clone()))
}

/// VM steps of an uninterrupted get_wallet_summary on the op's pre-state, and its statement boundaries.
pub fn reader_steps(fx: &Fixture, pair: &mut Pair, op: &OpDef) -> (u64, Vec<u64>) {
    load(pair, &fx.pres[op.pre]);
    count_steps(&mut pair.reader, |c| {
        let _ = summary_of(c, fx);
    })
}

/// The interruption points for a read of `steps` VM steps: every `stride`-th step, plus the steps
/// around every statement boundary (the last step of the previous statement through the second step of
/// the next one).
pub fn interruption_points(steps: u64, bounds: &[u64], stride: u64) -> Vec<u64> {
    let mut v: std::collections::BTreeSet<u64> = (0..).map(|i| 1 + i * stride).take_while(|k| *k <= steps).collect();
    for b in bounds {
        for k in b.saturating_sub(1)..=b + 2 {
            if k >= 1 && k <= steps {
                v.insert(k);
            }
        }
    }
    v.insert(steps.max(1));
    v.into_iter().collect()
}

// ------------------------------------------------------------------------------------------------
// Class 5 for the pool-migration snapshot reads (check_step_satisfiability, mined_height, ...)
// ------------------------------------------------------------------------------------------------

use super::migops::MigRead;
use zcash_client_backend::data_api::WalletWrite;

pub const MIG_WRITERS: [&str; 3] = ["scan_rest", "truncate", "truncate_below_spend"];

fn mig_writer(name: &str, w: &mut Wallet, fx: &Fixture) -> Result<String, String> {
    use zcash_protocol::consensus::BlockHeight;
    let first = crate::universes::FIRST;
    let r = mc_core::catch(|| match name {
        "scan_rest" => {
            let src = fx.u.source(0);
            let st = fx.u.state_before(0, first + 2).clone();
            zcash_client_backend::data_api::chain::scan_cached_blocks(&fx.u.network, &src, &mut w.db, BlockHeight::from_u32(first + 2), &st, 3).map(|_| String::new()).map_err(|e| format!("{e:?}"))
        }
        "truncate_below_spend" => w.db.truncate_to_height(BlockHeight::from_u32(first + 3)).map(|h| format!("{h:?}")).map_err(|e| format!("{e:?}")),
        _ => w.db.truncate_to_height(BlockHeight::from_u32(first)).map(|h| format!("{h:?}")).map_err(|e| format!("{e:?}")),
    });
    match r {
        Ok(x) => x,
        Err(p) => Err(format!("PANIC {p}")),
    }
}

fn mig_load(fx: &Fixture, pair: &mut Pair, rd: &MigRead) {
    load(pair, &fx.pres[rd.pre]);
    (rd.setup)(&mut pair.w, &fx.u);
}

pub fn mig_reader_steps(fx: &Fixture, pair: &mut Pair, rd: &MigRead) -> (u64, Vec<u64>) {
    mig_load(fx, pair, rd);
    let acct = pair.w.acct_a;
    count_steps(&mut pair.reader, |c| {
        let _ = (rd.read)(c, &fx.u, acct);
    })
}

pub fn mig_reader_interrupted(fx: &Fixture, pair: &mut Pair, rd: &MigRead, writer: &'static str, at_step: u64) -> Result<String, String> {
    mig_load(fx, pair, rd);
    let wal = pair.wal;
    let acct = pair.w.acct_a;
    let pre = (rd.read)(&pair.reader, &fx.u, acct).map_err(|e| format!("MACHINERY: {}: pre-state read failed: {e}", rd.name))?;
    let wrote: Arc<Mutex<Option<Result<String, String>>>> = Arc::new(Mutex::new(None));
    {
        let wrote = wrote.clone();
        let fxp = fx as *const Fixture as usize;
        let wp = &mut pair.w as *mut Wallet as usize;
        let n = AtomicU64::new(0);
        pair.reader.progress_handler(
            1,
            Some(move || {
                let k = n.fetch_add(1, Ordering::Relaxed) + 1;
                if k == at_step {
                    let fx: &Fixture = unsafe { &*(fxp as *const Fixture) };
                    let w: &mut Wallet = unsafe { &mut *(wp as *mut Wallet) };
                    *wrote.lock().unwrap() = Some(mig_writer(writer, w, fx));
                }
                false
            }),
        );
    }
    let got = (rd.read)(&pair.reader, &fx.u, acct);
    pair.reader.progress_handler(0, None::<fn() -> bool>);
    let wrote = wrote.lock().unwrap().clone();
    let Some(wres) = wrote else { return Ok("reader-finished-before-step".into()) };
    let post = (rd.read)(&pair.reader, &fx.u, acct).map_err(|e| format!("MACHINERY: {}: post-state read failed: {e}", rd.name))?;
    let got = got.map_err(|e| format!("{}: the read failed while the writer {writer} ran at its VM step {at_step}: {e}", rd.name))?;
    if got == pre {
        Ok(format!("answer==pre,writer-{}", if wres.is_ok() { "ok" } else { "blocked" }))
    } else if got == post {
        Ok("answer==post".into())
    } else {
        Err(format!(
            "{} ({}): interleaved with the complete writer operation {writer} at the reader's VM step {at_step}, the read answered {got:?}, which is neither its answer on the pre-state ({pre:?}) nor on the post-state ({post:?})",
            rd.name,
            if wal { "WAL" } else { "rollback journal" }
        ))
    }
}
