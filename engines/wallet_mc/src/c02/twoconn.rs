//! C02 classes 4 and 5: two connections on one file-backed database.
//!
//! Class 4: while the writer runs, a second connection takes — inside ONE read transaction — a full
//! dump plus `get_wallet_summary` at every p-th VM step of the writer. Every observation must equal
//! the pre-state or the post-state (SQLITE_BUSY = no observation).
//! Class 5: the reader (`get_wallet_summary`, which runs in one read transaction) is the one being
//! stepped; at every p-th VM step of the reader the complete writer operation runs on the other
//! connection. The reader's answer must equal its answer on the pre-state or on the post-state.
//!
//! Both connections are driven by one OS thread (the "other" side acts inside the progress handler
//! of the first), so the interleaving is the explorer's choice and reproducible.

use std::sync::atomic::{AtomicU64, Ordering};
use std::sync::{Arc, Mutex};

use rand_core::OsRng;
use rusqlite::Connection;
use zcash_client_backend::data_api::wallet::ConfirmationsPolicy;
use zcash_client_backend::data_api::WalletRead;
use zcash_client_sqlite::util::SystemClock;
use zcash_client_sqlite::WalletDb;

use super::ops::{Fixture, OpDef};
use super::{digest, run_op};
use crate::db::{self, Wallet};

fn db_path(conn: &Connection) -> String {
    conn.query_row("SELECT file FROM pragma_database_list WHERE name='main'", [], |r| r.get::<_, String>(0)).expect("database path")
}

fn summary_of(conn: &Connection, fx: &Fixture) -> Result<String, String> {
    let wdb = WalletDb::from_connection(conn, fx.u.network, SystemClock, OsRng);
    match mc_core::catch(|| wdb.get_wallet_summary(ConfirmationsPolicy::MIN)) {
        Err(p) => Err(format!("PANIC {p}")),
        Ok(Err(e)) => Err(format!("{e:?}")),
        Ok(Ok(s)) => Ok(match s {
            None => "None".to_string(),
            Some(s) => {
                let mut b: Vec<String> = s.account_balances().iter().map(|(k, v)| format!("{k:?}={v:?}")).collect();
                b.sort();
                format!("tip={:?} fully={:?} {}", s.chain_tip_height(), s.fully_scanned_height(), b.join(";"))
            }
        }),
    }
}

/// A consistent observation through the second connection: everything inside one transaction.
fn observe(reader: &Connection, fx: &Fixture) -> Option<(String, String)> {
    if reader.execute_batch("BEGIN").is_err() {
        return None;
    }
    // force the read snapshot now; BUSY here means the writer holds an exclusive lock
    let probe: Result<i64, _> = reader.query_row("SELECT count(*) FROM sqlite_master", [], |r| r.get(0));
    if probe.is_err() {
        let _ = reader.execute_batch("ROLLBACK");
        return None;
    }
    let d = mc_core::catch(|| digest(reader, false));
    let _ = reader.execute_batch("ROLLBACK");
    // get_wallet_summary opens its own read transaction (it cannot run inside ours); the writer is
    // paused inside its progress handler meanwhile, so both reads see the same instant.
    let s = summary_of(reader, fx);
    match (d, s) {
        (Ok(d), Ok(s)) => Some((d, s)),
        _ => None,
    }
}

pub struct TwoConnResult {
    pub observations: u64,
    pub busy: u64,
    pub distinct: usize,
    pub saw_pre: bool,
    pub saw_post: bool,
}

fn setup(fx: &Fixture, op: &OpDef, wal: bool) -> (Wallet, Connection) {
    let mut w = db::new_wallet(&fx.u, 4, true);
    db::restore(w.db.conn_mut(), &fx.pres[op.pre]);
    w.refresh_accounts();
    if wal {
        let mode: String = w.db.conn().query_row("PRAGMA journal_mode=WAL", [], |r| r.get(0)).expect("journal mode");
        assert_eq!(mode.to_lowercase(), "wal");
    }
    let path = db_path(w.db.conn());
    let reader = Connection::open(&path).expect("second connection");
    rusqlite::vtab::array::load_module(&reader).expect("array module");
    (w, reader)
}

/// Class 4.
pub fn writer_observed(fx: &Fixture, op: &OpDef, wal: bool, period: u64) -> Result<TwoConnResult, String> {
    let (mut w, reader) = setup(fx, op, wal);
    let pre = observe(&reader, fx).ok_or("cannot observe the pre-state")?;
    let obs: Arc<Mutex<Vec<Option<(String, String)>>>> = Arc::new(Mutex::new(vec![]));
    let reader = Arc::new(Mutex::new(reader));
    {
        let obs = obs.clone();
        let reader = reader.clone();
        // SAFETY of the raw pointer: the fixture outlives the handler, which is removed below.
        let fxp = fx as *const Fixture as usize;
        let n = AtomicU64::new(0);
        w.db.conn().progress_handler(
            1,
            Some(move || {
                let k = n.fetch_add(1, Ordering::Relaxed) + 1;
                if k % period == 0 {
                    let fx: &Fixture = unsafe { &*(fxp as *const Fixture) };
                    let r = reader.lock().unwrap();
                    obs.lock().unwrap().push(observe(&r, fx));
                }
                false
            }),
        );
    }
    let r = run_op(op, &mut w, fx);
    w.db.conn().progress_handler(0, None::<fn() -> bool>);
    let reader = reader.lock().unwrap();
    let post = observe(&reader, fx).ok_or("cannot observe the post-state")?;
    let obs = obs.lock().unwrap();
    let mut res = TwoConnResult { observations: 0, busy: 0, distinct: 0, saw_pre: false, saw_post: false };
    let mut distinct = std::collections::BTreeSet::new();
    for (i, o) in obs.iter().enumerate() {
        match o {
            None => res.busy += 1,
            Some(o) => {
                res.observations += 1;
                distinct.insert(o.0.clone());
                if *o == pre {
                    res.saw_pre = true;
                } else if *o == post {
                    res.saw_post = true;
                } else if o.0 == pre.0 || o.0 == post.0 {
                    return Err(format!(
                        "{} ({}): at writer step {} the second connection saw a database equal to the {} but a wallet summary that matches neither",
                        op.name,
                        if wal { "WAL" } else { "rollback journal" },
                        (i as u64 + 1) * period,
                        if o.0 == pre.0 { "pre-state" } else { "post-state" }
                    ));
                } else {
                    return Err(format!(
                        "{} ({}): at writer step {} a second connection reading inside one transaction saw a database that is neither the pre-state nor the post-state of the operation (result of the operation: {:?})",
                        op.name,
                        if wal { "WAL" } else { "rollback journal" },
                        (i as u64 + 1) * period,
                        r.as_ref().map(|_| "Ok").map_err(|e| e.clone())
                    ));
                }
            }
        }
    }
    res.distinct = distinct.len();
    Ok(res)
}

/// Class 5.
pub fn reader_interrupted(fx: &Fixture, op: &OpDef, wal: bool, at_step: u64) -> Result<String, String> {
    let (w, reader) = setup(fx, op, wal);
    let pre = summary_of(&reader, fx)?;
    let w = Arc::new(Mutex::new(w));
    let wrote: Arc<Mutex<Option<Result<String, String>>>> = Arc::new(Mutex::new(None));
    {
        let w = w.clone();
        let wrote = wrote.clone();
        let fxp = fx as *const Fixture as usize;
        let opp = op as *const OpDef as usize;
        let n = AtomicU64::new(0);
        reader.progress_handler(
            1,
            Some(move || {
                let k = n.fetch_add(1, Ordering::Relaxed) + 1;
                if k == at_step {
                    let fx: &Fixture = unsafe { &*(fxp as *const Fixture) };
                    let op: &OpDef = unsafe { &*(opp as *const OpDef) };
                    let mut w = w.lock().unwrap();
                    *wrote.lock().unwrap() = Some(run_op(op, &mut w, fx));
                }
                false
            }),
        );
    }
    let got = summary_of(&reader, fx);
    reader.progress_handler(0, None::<fn() -> bool>);
    let wrote = wrote.lock().unwrap().clone();
    let Some(wres) = wrote else { return Ok("reader-finished-before-step".into()) };
    let post = summary_of(&reader, fx)?;
    let got = got.map_err(|e| format!("{}: get_wallet_summary failed while the writer ran at its step {at_step}: {e}", op.name))?;
    if got == pre {
        Ok(if wres.is_ok() { "summary==pre,writer-ok".into() } else { "summary==pre,writer-blocked".into() })
    } else if got == post {
        Ok("summary==post".into())
    } else {
        Err(format!(
            "{} ({}): get_wallet_summary, interleaved with the writer's complete operation at the reader's VM step {at_step}, returned a mixture of the pre- and post-state (writer result {:?})",
            op.name,
            if wal { "WAL" } else { "rollback journal" },
            wres.as_ref().map(|_| "Ok").map_err(|e| e.clone())
        ))
    }
}

/// Number of VM steps of an uninterrupted get_wallet_summary on the op's pre-state.
pub fn reader_steps(fx: &Fixture, op: &OpDef) -> u64 {
    let (_w, reader) = setup(fx, op, false);
    let n = Arc::new(AtomicU64::new(0));
    let c = n.clone();
    reader.progress_handler(
        1,
        Some(move || {
            c.fetch_add(1, Ordering::Relaxed);
            false
        }),
    );
    let _ = summary_of(&reader, fx);
    reader.progress_handler(0, None::<fn() -> bool>);
    n.load(Ordering::Relaxed)
}

// ------------------------------------------------------------------------------------------------
// Class 5 for the pool-migration snapshot reads (check_step_satisfiability, mined_height, ...)
// ------------------------------------------------------------------------------------------------

use super::migops::MigRead;
use zcash_client_backend::data_api::WalletWrite;

pub const MIG_WRITERS: [&str; 2] = ["scan_rest", "truncate"];

fn mig_writer(name: &str, w: &mut Wallet, fx: &Fixture) -> Result<String, String> {
    use zcash_protocol::consensus::BlockHeight;
    let first = crate::universes::FIRST;
    let r = mc_core::catch(|| match name {
        "scan_rest" => {
            let src = fx.u.source(0);
            let st = fx.u.state_before(0, first + 2).clone();
            zcash_client_backend::data_api::chain::scan_cached_blocks(&fx.u.network, &src, &mut w.db, BlockHeight::from_u32(first + 2), &st, 3).map(|_| String::new()).map_err(|e| format!("{e:?}"))
        }
        _ => w.db.truncate_to_height(BlockHeight::from_u32(first)).map(|h| format!("{h:?}")).map_err(|e| format!("{e:?}")),
    });
    match r {
        Ok(x) => x,
        Err(p) => Err(format!("PANIC {p}")),
    }
}

fn mig_setup(fx: &Fixture, rd: &MigRead, wal: bool) -> (Wallet, Connection) {
    let mut w = db::new_wallet(&fx.u, 4, true);
    db::restore(w.db.conn_mut(), &fx.pres[1]);
    w.refresh_accounts();
    (rd.setup)(&mut w, &fx.u);
    if wal {
        let _: String = w.db.conn().query_row("PRAGMA journal_mode=WAL", [], |r| r.get(0)).expect("journal mode");
    }
    let reader = Connection::open(db_path(w.db.conn())).expect("second connection");
    rusqlite::vtab::array::load_module(&reader).expect("array module");
    (w, reader)
}

pub fn mig_reader_steps(fx: &Fixture, rd: &MigRead) -> u64 {
    let (w, reader) = mig_setup(fx, rd, false);
    let n = Arc::new(AtomicU64::new(0));
    let c = n.clone();
    reader.progress_handler(
        1,
        Some(move || {
            c.fetch_add(1, Ordering::Relaxed);
            false
        }),
    );
    let _ = (rd.read)(&reader, &fx.u, w.acct_a);
    reader.progress_handler(0, None::<fn() -> bool>);
    n.load(Ordering::Relaxed)
}

pub fn mig_reader_interrupted(fx: &Fixture, rd: &MigRead, writer: &'static str, wal: bool, at_step: u64) -> Result<String, String> {
    let (w, reader) = mig_setup(fx, rd, wal);
    let acct = w.acct_a;
    let pre = (rd.read)(&reader, &fx.u, acct).map_err(|e| format!("MACHINERY: {}: pre-state read failed: {e}", rd.name))?;
    let w = Arc::new(Mutex::new(w));
    let wrote: Arc<Mutex<Option<Result<String, String>>>> = Arc::new(Mutex::new(None));
    {
        let w = w.clone();
        let wrote = wrote.clone();
        let fxp = fx as *const Fixture as usize;
        let n = AtomicU64::new(0);
        reader.progress_handler(
            1,
            Some(move || {
                let k = n.fetch_add(1, Ordering::Relaxed) + 1;
                if k == at_step {
                    let fx: &Fixture = unsafe { &*(fxp as *const Fixture) };
                    let mut w = w.lock().unwrap();
                    *wrote.lock().unwrap() = Some(mig_writer(writer, &mut w, fx));
                }
                false
            }),
        );
    }
    let got = (rd.read)(&reader, &fx.u, acct);
    reader.progress_handler(0, None::<fn() -> bool>);
    let wrote = wrote.lock().unwrap().clone();
    let Some(wres) = wrote else { return Ok("reader-finished-before-step".into()) };
    let post = (rd.read)(&reader, &fx.u, acct).map_err(|e| format!("MACHINERY: {}: post-state read failed: {e}", rd.name))?;
    let got = got.map_err(|e| format!("{}: the read failed while the writer {writer} ran at its VM step {at_step}: {e}", rd.name))?;
    if got == pre {
        Ok(format!("answer==pre,writer-{}", if wres.is_ok() { "ok" } else { "blocked" }))
    } else if got == post {
        Ok("answer==post".into())
    } else {
        Err(format!(
            "{} ({}): interleaved with the complete writer operation {writer} at the reader's VM step {at_step}, the read answered {got:?}, which is neither its answer on the pre-state ({pre:?}) nor on the post-state ({post:?})",
            rd.name,
            if wal { "WAL" } else { "rollback journal" }
        ))
    }
}
