//! Pool-migration store writes (and snapshot reads) for the C02 fault enumeration.
//!
//! Every `MigOp::f` performs exactly ONE write of the SQLite pool-migration store
//! (`zcash_client_sqlite::pool_migration::orchard_ironwood::PoolMigrations`, or the wallet write that
//! rewrites stored migrations inside its own transaction) on a wallet that `setup` has brought from
//! the C02 "mid" pre-state (tip known, blocks FIRST..FIRST+1 of `universes::tiny()` scanned: a1
//! Sapling, a2 Orchard, b0 Sapling received; accounts A and B) into the operation's pre-state.
//! All `MigrationState` values are built deterministically with the public `from_parts`
//! constructors; nothing here draws randomness. The store itself draws one random value: the
//! `uuid` column of a NEWLY INSERTED `orchard_ironwood_migrations` row (`Uuid::new_v4`), which a
//! retry-vs-uninterrupted comparison has to mask like `accounts.uuid`.
//!
//! Covered store writes (public write surface of `PoolMigrations`):
//!   * `replace_migration`      — insert (no migration yet), in-place rewrite of a live record
//!                                (lifecycle advance, failure report), terminal persist with lock
//!                                release (supersede), successor beside retained history, a second
//!                                account's record, and the refused (`Unrepresentable`) state
//!   * `update_transaction`     — to Broadcast, to Mined, and the error path without a migration
//!   * `store_proved_transaction` — driven with `ProvedTransaction::from_parts` (test-dependencies);
//!                                for this store it is `apply` + `replace_migration`
//!   * `cancel_migration`       — live record holding a note lock, terminal record holding a note
//!                                lock (repair half), and no record at all
//!   * wallet `truncate_to_height` / `delete_account` with a stored migration (the wallet write
//!                                rewrites / cascades the migration rows in its own transaction)
//!
//! NOT covered, and why:
//!   * `take_transaction_for_broadcast`: it parses the stored PCZT, finalizes the spends and runs
//!     the Transaction Extractor, which re-verifies the Orchard/Ironwood proofs and signatures
//!     before anything is written, so it cannot be reached without a really proven and signed
//!     migration transaction (a full commit + prove pipeline with proving keys). Its only database
//!     write is `Store::replace_migration_with(state, |tx| store_transaction_to_be_sent + put_zip318_
//!     classification)`: ONE transaction whose first half is exactly the `replace_migration` body
//!     exercised here.
//!   * `commit_preparation` / `build_preparation_unsigned`: they need spend authority over real
//!     Orchard notes and build + sign every transaction first; their single store write is one
//!     `replace_migration(&state)` call at the very end (zcash_pool_migration/src/engine.rs, after
//!     `into_state`), i.e. the `mig_replace@none` / `mig_replace_successor@terminal` cases below.
//!   * `advance_migration` persists through `replace_migration` only (covered); it is an engine
//!     function, not a store write.

use std::sync::Arc;

use rusqlite::Connection;
use zcash_client_backend::data_api::{OutputLockStore, WalletWrite};
use zcash_client_backend::wallet::LockOwner;
use zcash_client_sqlite::pool_migration::orchard_ironwood::PoolMigrations;
use zcash_client_sqlite::util::SystemClock;
use zcash_client_sqlite::AccountUuid;
use zcash_pool_migration::denomination::DenominationPlan;
use zcash_pool_migration::engine::{
    MigrationLockOwner, MigrationState, MigrationStatus, MigrationTransaction, MigrationTransferId, MigrationTxKind, MigrationTxState,
    PoolMigrationRead, PoolMigrationWrite, ProvedTransaction,
};
use zcash_pool_migration::preparation::{PrepInput, PrepOutput, PrepTransaction, PreparationPlan};
use zcash_pool_migration::satisfiability::{ReorgSettleDepth, ReplanThreshold, UnsatisfiableKind};
use zcash_pool_migration::scheduling::AnchorBucketInterval;
use zcash_protocol::consensus::BlockHeight;
use zcash_protocol::local_consensus::LocalNetwork;
use zcash_protocol::value::Zatoshis;
use zcash_protocol::TxId;

use super::ops::oref;
use crate::db::Wallet;
use crate::universe::Universe;
use crate::universes::FIRST;

pub struct MigOp {
    pub name: String,
    /// Brings a wallet in the C02 "mid" pre-state into this operation's pre-state.
    pub setup: Arc<dyn Fn(&mut Wallet, &Universe) + Send + Sync>,
    /// The single store write under test.
    pub f: Arc<dyn Fn(&mut Wallet, &Universe) -> Result<String, String> + Send + Sync>,
}

pub struct MigRead {
    /// index of the wallet pre-state in `Fixture::pres` (1 = "mid", 2 = "full")
    pub pre: usize,
    /// the writers interleaved with this read (see twoconn::mig_writer)
    pub writers: Vec<&'static str>,
    pub name: String,
    pub setup: Arc<dyn Fn(&mut Wallet, &Universe) + Send + Sync>,
    pub read: Arc<dyn Fn(&Connection, &Universe, AccountUuid) -> Result<String, String> + Send + Sync>,
}

/// The lock-owner token the migration's proved transaction holds its input reservation under.
pub const MIG_OWNER: [u8; 32] = [0x4D; 32];

fn z(v: u64) -> Zatoshis {
    Zatoshis::const_from_u64(v)
}
fn bh(h: u32) -> BlockHeight {
    BlockHeight::from_u32(h)
}
fn tid(i: u32) -> MigrationTransferId {
    MigrationTransferId::new(i)
}

type Store<'c> = PoolMigrations<&'c mut Connection, LocalNetwork, SystemClock>;

fn store_for<'c>(w: &'c mut Wallet, u: &Universe, acct: AccountUuid) -> Result<Store<'c>, String> {
    PoolMigrations::for_account(u.network, SystemClock, w.db.conn_mut(), acct).map_err(|e| format!("for_account: {e}"))
}
fn store_a<'c>(w: &'c mut Wallet, u: &Universe) -> Result<Store<'c>, String> {
    let a = w.acct_a;
    store_for(w, u, a)
}

fn es<T, E: std::fmt::Display>(r: Result<T, E>) -> Result<T, String> {
    r.map_err(|e| e.to_string().chars().take(200).collect())
}

fn plans() -> (DenominationPlan, PreparationPlan) {
    let den = DenominationPlan::from_stored_parts(vec![z(20_000), z(30_000)], z(10_000), Some(z(1_234)), z(15_000), z(70_000), z(50_000)).expect("crossing + buffer in range");
    let prep = PreparationPlan::from_parts(
        vec![vec![PrepTransaction::from_parts(
            vec![PrepInput::Wallet { index: 0, value: z(70_000) }],
            vec![PrepOutput::Funding(z(30_000)), PrepOutput::Funding(z(40_000)), PrepOutput::Change(z(1_234))],
        )]],
        vec![],
    );
    (den, prep)
}

fn grid() -> AnchorBucketInterval {
    // The C02 wallets are created with an anchor retention interval of 4 blocks.
    AnchorBucketInterval::custom(std::num::NonZeroU32::new(4).unwrap())
}

/// The transaction that created note a2 (Orchard, account A) — mined at FIRST+1, inside the region
/// the "mid" wallet has scanned.
fn txid_a2(u: &Universe) -> TxId {
    TxId::from_bytes(u.note("a2").txid)
}
fn nf_a2(u: &Universe) -> [u8; 32] {
    let b = u.note("a2").nf.bytes();
    let mut out = [0u8; 32];
    out.copy_from_slice(&b);
    out
}

#[allow(clippy::too_many_arguments)]
fn mtx(
    id: u32,
    kind: MigrationTxKind,
    deps: Vec<u32>,
    txid: TxId,
    state: MigrationTxState,
    lock: Option<[u8; 32]>,
    mark: Option<(u32, UnsatisfiableKind)>,
    nullifiers: Vec<[u8; 32]>,
    report: Option<u32>,
) -> MigrationTransaction {
    MigrationTransaction::from_parts(
        tid(id),
        kind,
        vec![0x50, id as u8, 0x00, 0xFF],
        deps.into_iter().map(tid).collect(),
        bh(FIRST + 10 + 2 * id),
        bh(FIRST + 50 + id),
        match kind {
            MigrationTxKind::Transfer { .. } => Some(bh(FIRST - FIRST % 4)),
            MigrationTxKind::Preparation { .. } => None,
        },
        txid,
        state,
        lock.map(MigrationLockOwner::from_bytes),
        mark.map(|(h, k)| (bh(h), k)),
        nullifiers,
        report.map(bh),
    )
}

/// A live (InProgress) migration of account A: a preparation mined at FIRST+1 under the real txid
/// of a2's transaction, a proved transfer spending a2 and holding the note lock, and a signed
/// transfer marked unsatisfiable on evidence at FIRST+1 (the height a truncation to FIRST discards).
fn live(u: &Universe) -> MigrationState {
    let (den, prep) = plans();
    let t0 = txid_a2(u);
    MigrationState::from_parts(
        MigrationStatus::InProgress,
        den,
        prep,
        vec![
            mtx(0, MigrationTxKind::Preparation { layer: 0, index: 0 }, vec![], t0, MigrationTxState::Mined { txid: t0, height: bh(FIRST + 1) }, None, None, vec![[0x31; 32]], None),
            mtx(1, MigrationTxKind::Transfer { crossing: 0 }, vec![0], TxId::from_bytes([0xB1; 32]), MigrationTxState::Proved, Some(MIG_OWNER), None, vec![nf_a2(u)], None),
            mtx(2, MigrationTxKind::Transfer { crossing: 1 }, vec![0], TxId::from_bytes([0xB2; 32]), MigrationTxState::Signed, None, Some((FIRST + 1, UnsatisfiableKind::InputsSpent)), vec![[0x33; 32], [0x34; 32]], None),
        ],
        grid(),
        ReplanThreshold::DEFAULT,
    )
}

/// A different, small live migration (the successor / the other account's).
fn successor() -> MigrationState {
    let den = DenominationPlan::from_stored_parts(vec![z(5_000)], z(10_000), None, z(0), z(15_000), z(5_000)).expect("in range");
    MigrationState::from_parts(
        MigrationStatus::Committed,
        den,
        PreparationPlan::from_parts(vec![], vec![(0, z(15_000))]),
        vec![
            mtx(0, MigrationTxKind::Transfer { crossing: 0 }, vec![], TxId::from_bytes([0xC0; 32]), MigrationTxState::Signed, None, None, vec![[0x41; 32]], None),
            mtx(1, MigrationTxKind::Transfer { crossing: 0 }, vec![0], TxId::from_bytes([0xC1; 32]), MigrationTxState::AwaitingSignature, None, None, vec![[0x42; 32]], None),
        ],
        grid(),
        ReplanThreshold::new(37).expect("<= 100"),
    )
}

/// A Complete migration whose second transaction was mined at FIRST+1: a wallet truncation to
/// FIRST demotes it and reverts the status.
fn complete(u: &Universe) -> MigrationState {
    let (den, prep) = plans();
    let t0 = TxId::from_bytes(u.note("a1").txid);
    let t1 = txid_a2(u);
    MigrationState::from_parts(
        MigrationStatus::Complete,
        den,
        prep,
        vec![
            mtx(0, MigrationTxKind::Preparation { layer: 0, index: 0 }, vec![], t0, MigrationTxState::Mined { txid: t0, height: bh(FIRST) }, None, None, vec![], None),
            mtx(1, MigrationTxKind::Transfer { crossing: 0 }, vec![0], t1, MigrationTxState::Mined { txid: t1, height: bh(FIRST + 1) }, None, None, vec![[0x35; 32]], None),
        ],
        grid(),
        ReplanThreshold::DEFAULT,
    )
}

fn persist(w: &mut Wallet, u: &Universe, acct: AccountUuid, s: &MigrationState) {
    store_for(w, u, acct).expect("fixture store").replace_migration(s).expect("fixture persist");
}

/// Lock note a2 (Orchard, account A) under the migration's owner token, as proving would have.
fn lock_a2(w: &mut Wallet, u: &Universe) {
    let n = w.db.lock_outputs(&[oref(u, "a2")], LockOwner::new(MIG_OWNER), bh(FIRST + 30)).expect("fixture lock");
    assert_eq!(n, 1, "a2 locked");
}

fn setup_none() -> Arc<dyn Fn(&mut Wallet, &Universe) + Send + Sync> {
    Arc::new(|_, _| {})
}
fn setup_live() -> Arc<dyn Fn(&mut Wallet, &Universe) + Send + Sync> {
    Arc::new(|w, u| {
        let a = w.acct_a;
        persist(w, u, a, &live(u));
    })
}
fn setup_live_locked() -> Arc<dyn Fn(&mut Wallet, &Universe) + Send + Sync> {
    Arc::new(|w, u| {
        let a = w.acct_a;
        persist(w, u, a, &live(u));
        lock_a2(w, u);
    })
}

pub fn migration_ops() -> Vec<MigOp> {
    let mut ops: Vec<MigOp> = vec![];
    let mut add = |name: &str, setup: Arc<dyn Fn(&mut Wallet, &Universe) + Send + Sync>, f: Arc<dyn Fn(&mut Wallet, &Universe) -> Result<String, String> + Send + Sync>| {
        ops.push(MigOp { name: name.to_string(), setup, f })
    };

    // ---------------------------------------------------------------- replace_migration
    // Insert: the account has no migration yet (this is also commit_preparation's only write).
    add("mig_replace@none", setup_none(), Arc::new(|w, u| es(store_a(w, u)?.replace_migration(&live(u))).map(|_| "inserted".into())));
    // In-place rewrite of a live record after a lifecycle advance (broadcast recorded).
    add(
        "mig_replace_advance@live",
        setup_live(),
        Arc::new(|w, u| {
            let mut s = live(u);
            s.mark_broadcast(tid(1));
            es(store_a(w, u)?.replace_migration(&s)).map(|_| "rewritten".into())
        }),
    );
    // In-place rewrite recording a broadcast-failure report.
    add(
        "mig_replace_failure_report@live",
        setup_live(),
        Arc::new(|w, u| {
            let mut s = live(u);
            s.report_broadcast_failure(tid(1), bh(FIRST + 3));
            if s.transactions()[1].broadcast_failure_at().is_none() {
                return Err("fixture: the report was not recorded".into());
            }
            es(store_a(w, u)?.replace_migration(&s)).map(|_| "report persisted".into())
        }),
    );
    // Terminal persist (the consumer's response to Replan): the record enters history and the
    // reservation of its never-broadcast proved transaction is released, in one transaction.
    add(
        "mig_supersede@live_locked",
        setup_live_locked(),
        Arc::new(|w, u| {
            let mut s = live(u);
            s.mark_superseded();
            es(store_a(w, u)?.replace_migration(&s)).map(|_| "superseded".into())
        }),
    );
    // A successor beside a retained terminal record (a new row, new identity).
    add(
        "mig_replace_successor@terminal",
        Arc::new(|w, u| {
            let a = w.acct_a;
            let mut s = live(u);
            persist(w, u, a, &s);
            s.mark_superseded();
            persist(w, u, a, &s);
        }),
        Arc::new(|w, u| es(store_a(w, u)?.replace_migration(&successor())).map(|_| "successor inserted".into())),
    );
    // A replacement state written over a live record (children replaced wholesale, fewer rows).
    add("mig_replace_other@live", setup_live(), Arc::new(|w, u| es(store_a(w, u)?.replace_migration(&successor())).map(|_| "replaced".into())));
    // Account A's first record while account B already has a live one.
    add(
        "mig_replace@other_account_live",
        Arc::new(|w, u| {
            let b = w.acct_b;
            persist(w, u, b, &successor());
        }),
        Arc::new(|w, u| es(store_a(w, u)?.replace_migration(&live(u))).map(|_| "inserted beside B".into())),
    );
    // A state the store refuses (an empty preparation layer): must leave the record untouched.
    add(
        "mig_replace_unrepresentable@live",
        setup_live(),
        Arc::new(|w, u| {
            let s0 = live(u);
            let bad = MigrationState::from_parts(
                s0.status(),
                s0.denominations().clone(),
                PreparationPlan::from_parts(vec![vec![]], vec![]),
                s0.transactions().clone(),
                s0.anchor_bucket_interval(),
                s0.replan_threshold(),
            );
            es(store_a(w, u)?.replace_migration(&bad)).map(|_| "accepted".into())
        }),
    );

    // ---------------------------------------------------------------- update_transaction
    add(
        "mig_update_tx_broadcast@live",
        setup_live(),
        Arc::new(|w, u| es(store_a(w, u)?.update_transaction(tid(1), MigrationTxState::Broadcast { txid: TxId::from_bytes([0xB1; 32]) })).map(|_| "broadcast".into())),
    );
    add(
        "mig_update_tx_mined@live",
        setup_live(),
        Arc::new(|w, u| {
            es(store_a(w, u)?.update_transaction(tid(1), MigrationTxState::Mined { txid: TxId::from_bytes([0xB1; 32]), height: bh(FIRST + 1) })).map(|_| "mined".into())
        }),
    );
    // Error path: no migration to address.
    add("mig_update_tx@none", setup_none(), Arc::new(|w, u| es(store_a(w, u)?.update_transaction(tid(1), MigrationTxState::Proved)).map(|_| "updated".into())));

    // ---------------------------------------------------------------- store_proved_transaction
    add(
        "mig_store_proved@live",
        setup_live(),
        Arc::new(|w, u| {
            let mut s = live(u);
            let proven = ProvedTransaction::from_parts(tid(2), vec![0x70, 0x02, 0x00, 0x9A, 0x9B]);
            es(store_a(w, u)?.store_proved_transaction(&mut s, proven))?;
            Ok(format!("{:?}", s.transactions()[2].state()))
        }),
    );

    // ---------------------------------------------------------------- cancel_migration
    add("mig_cancel@live_locked", setup_live_locked(), Arc::new(|w, u| es(store_a(w, u)?.cancel_migration()).map(|o| format!("{o:?}"))));
    // Repair half: a terminal (failed) record whose proved transaction still holds a reservation.
    add(
        "mig_cancel_repair@failed_locked",
        Arc::new(|w, u| {
            let a = w.acct_a;
            let s0 = live(u);
            let failed = MigrationState::from_parts(
                MigrationStatus::Failed,
                s0.denominations().clone(),
                s0.preparation().clone(),
                s0.transactions().clone(),
                s0.anchor_bucket_interval(),
                s0.replan_threshold(),
            );
            persist(w, u, a, &failed);
            // after the terminal persist (which releases), as an older client would have left it
            lock_a2(w, u);
        }),
        Arc::new(|w, u| es(store_a(w, u)?.cancel_migration()).map(|o| format!("{o:?}"))),
    );
    add("mig_cancel@none", setup_none(), Arc::new(|w, u| es(store_a(w, u)?.cancel_migration()).map(|o| format!("{o:?}"))));

    // ---------------------------------------------------------------- wallet writes that rewrite stored migrations
    // The wallet's own truncation drives MigrationState::truncate_to_height for every stored
    // migration inside the same database transaction: the mark at FIRST+1 is cleared and the
    // transaction mined at FIRST+1 is demoted.
    add(
        "mig_wallet_truncate@live",
        setup_live_locked(),
        Arc::new(|w, _| w.db.truncate_to_height(bh(FIRST)).map(|h| format!("{h:?}")).map_err(|e| format!("{e:?}").chars().take(200).collect())),
    );
    // ... including retained Complete history, whose status reverts.
    add(
        "mig_wallet_truncate@complete",
        Arc::new(|w, u| {
            let a = w.acct_a;
            persist(w, u, a, &complete(u));
        }),
        Arc::new(|w, _| w.db.truncate_to_height(bh(FIRST)).map(|h| format!("{h:?}")).map_err(|e| format!("{e:?}").chars().take(200).collect())),
    );
    // Deleting the account removes its migration with it (ON DELETE CASCADE through every child table).
    add(
        "mig_delete_account@live",
        Arc::new(|w, u| {
            let (a, b) = (w.acct_a, w.acct_b);
            persist(w, u, a, &live(u));
            persist(w, u, b, &successor());
        }),
        Arc::new(|w, _| {
            let a = w.acct_a;
            w.db.delete_account(a).map(|_| "deleted".to_string()).map_err(|e| format!("{e:?}").chars().take(200).collect())
        }),
    );
    ops
}

fn reader<'c>(conn: &'c Connection, u: &Universe, acct: AccountUuid) -> Result<PoolMigrations<&'c Connection, LocalNetwork, SystemClock>, String> {
    PoolMigrations::for_account(u.network, SystemClock, conn, acct).map_err(|e| format!("for_account: {e}"))
}

fn render_state(s: &Option<MigrationState>) -> String {
    match s {
        None => "None".into(),
        Some(s) => format!("{s:?}"),
    }
}

/// Reads that run inside ONE database transaction by construction (documented as answering from a
/// single snapshot: `check_step_satisfiability`, `mined_height`) or are a single SQL statement
/// (`list_migrations`): the answer under an interleaved writer must equal the answer on the
/// writer's pre-state or on its post-state.
pub fn migration_reads() -> Vec<MigRead> {
    let settle = ReorgSettleDepth::new(10);
    let mut v: Vec<MigRead> = vec![];
    // Transfer 1 of `live` spends a2, which the "mid" wallet knows as an unspent Orchard note; a
    // scan of FIRST+2.. (where a2 is spent) turns the answer into InputsSpent.
    v.push(MigRead {
        pre: 1,
        writers: vec!["scan_rest", "truncate"],
        name: "mig_read_satisfiability_a2@live".into(),
        setup: setup_live(),
        read: Arc::new(move |c, u, a| {
            let tx = live(u).transactions()[1].clone();
            es(reader(c, u, a)?.check_step_satisfiability(&tx, settle)).map(|r| format!("{r:?}"))
        }),
    });
    // The same question to a fully scanned wallet, where a2's spend (FIRST+4) lies inside the scanned
    // region: InputsSpent as of the tip. A rollback below the spend (truncate_to_height(FIRST+3))
    // un-mines it AND lowers the fully-scanned height, so the oracle's two reads - the observation
    // height and the observations - disagree unless they come from one snapshot.
    v.push(MigRead {
        pre: 2,
        writers: vec!["truncate_below_spend", "truncate"],
        name: "mig_read_satisfiability_a2@live-full".into(),
        setup: setup_live(),
        read: Arc::new(move |c, u, a| {
            let tx = live(u).transactions()[1].clone();
            es(reader(c, u, a)?.check_step_satisfiability(&tx, settle)).map(|r| format!("{r:?}"))
        }),
    });
    // A known-unspent input beside one the wallet has never seen (NotYetSatisfiable until a spend
    // of the first is scanned).
    v.push(MigRead {
        pre: 1,
        writers: vec!["scan_rest", "truncate"],
        name: "mig_read_satisfiability_a2+unknown@live".into(),
        setup: setup_live(),
        read: Arc::new(move |c, u, a| {
            let tx = mtx(7, MigrationTxKind::Transfer { crossing: 0 }, vec![], TxId::from_bytes([0xB7; 32]), MigrationTxState::Signed, None, None, vec![[0x77; 32], nf_a2(u)], None);
            es(reader(c, u, a)?.check_step_satisfiability(&tx, settle)).map(|r| format!("{r:?}"))
        }),
    });
    // Asked through account B's store: a2 is not B's note.
    v.push(MigRead {
        pre: 1,
        writers: vec!["scan_rest", "truncate"],
        name: "mig_read_satisfiability_a2_as_other_account@live".into(),
        setup: setup_live(),
        read: Arc::new(move |c, u, _a| {
            let b: Vec<u8> = c.query_row("SELECT uuid FROM accounts ORDER BY id LIMIT 1 OFFSET 1", [], |r| r.get(0)).map_err(|e| e.to_string())?;
            let b = AccountUuid::from_uuid(uuid::Uuid::from_slice(&b).map_err(|e| e.to_string())?);
            let tx = live(u).transactions()[1].clone();
            es(reader(c, u, b)?.check_step_satisfiability(&tx, settle)).map(|r| format!("{r:?}"))
        }),
    });
    // Inclusion of a transaction inside the scanned region ...
    v.push(MigRead {
        pre: 1,
        writers: vec!["scan_rest", "truncate"],
        name: "mig_read_mined_height_a2@live".into(),
        setup: setup_live(),
        read: Arc::new(|c, u, a| es(reader(c, u, a)?.mined_height(txid_a2(u))).map(|r| format!("{r:?}"))),
    });
    // ... and of one the wallet has not scanned yet (a5's transaction, FIRST+3): None until a scan
    // reaches it; a truncation takes the first one away again.
    v.push(MigRead {
        pre: 1,
        writers: vec!["scan_rest", "truncate"],
        name: "mig_read_mined_height_a5@live".into(),
        setup: setup_live(),
        read: Arc::new(|c, u, a| es(reader(c, u, a)?.mined_height(TxId::from_bytes(u.note("a5").txid))).map(|r| format!("{r:?}"))),
    });
    // One SQL statement projecting every record of the account.
    v.push(MigRead {
        pre: 1,
        writers: vec!["scan_rest", "truncate"],
        name: "mig_read_list_migrations@live".into(),
        setup: setup_live(),
        read: Arc::new(|c, u, a| {
            es(reader(c, u, a)?.list_migrations()).map(|l| {
                l.iter()
                    // the record uuid is random per database; everything else is rendered
                    .map(|m| format!("{:?}/{:?}/tx{}/mined{}/inflight{}/unsat{}/migrated{:?}", m.status(), m.committed_height(), m.transaction_count(), m.mined_count(), m.in_flight_count(), m.unsatisfiable_count(), m.value_migrated()))
                    .collect::<Vec<_>>()
                    .join(";")
            })
        }),
    });
    v
}

/// Reads that make NO snapshot claim: `get_migration` / `latest_migration` /
/// `migration_lock_owners` issue several autocommit statements (parent row, then each child table)
/// without an enclosing transaction, so a writer committing in between can legitimately be seen
/// half-way by them (typically as a `Corrupt` error or a state mixing two records). They are
/// provided so the experiment can MEASURE that, not as C02 obligations: the property's snapshot
/// clause names reads made "within one read transaction (as the wallet summary and the migration
/// oracles do)".
pub fn migration_reads_without_snapshot_claim() -> Vec<MigRead> {
    vec![
        MigRead {
            pre: 1,
            writers: vec!["scan_rest", "truncate"],
            name: "mig_read_get_migration@live".into(),
            setup: setup_live(),
            read: Arc::new(|c, u, a| es(reader(c, u, a)?.get_migration()).map(|s| render_state(&s))),
        },
        MigRead {
            pre: 1,
            writers: vec!["scan_rest", "truncate"],
            name: "mig_read_latest_migration@live".into(),
            setup: setup_live(),
            read: Arc::new(|c, u, a| es(reader(c, u, a)?.latest_migration()).map(|s| render_state(&s))),
        },
        MigRead {
            pre: 1,
            writers: vec!["scan_rest", "truncate"],
            name: "mig_read_lock_owners@live".into(),
            setup: setup_live(),
            read: Arc::new(|c, u, a| es(reader(c, u, a)?.migration_lock_owners()).map(|s| format!("{s:?}"))),
        },
    ]
}
