//! Deterministic block universe with generation-time ground truth.
//!
//! A universe is a set of *chains* (main chain + alternative branches that share a prefix with
//! it). Every block is produced through the repository's public `TestFvk` builders, so the
//! compact outputs are really encrypted to the wallet's keys, and the harness records, at
//! generation time: which note goes to which account / pool / scope / value / tree position,
//! which notes each transaction spends, and the note-commitment frontier of every pool after every
//! block (the ground truth for tree roots).

use std::collections::BTreeMap;
use std::convert::Infallible;

use incrementalmerkletree::frontier::Frontier;
use orchard::tree::MerkleHashOrchard;
use rand_chacha::ChaChaRng;
use rand_core::{RngCore, SeedableRng};
use zcash_client_backend::data_api::chain::{error::Error as ChainError, BlockSource, ChainState};
use zcash_client_backend::data_api::testing::{AddressType, IronwoodFvk, TestFvk};
use zcash_client_backend::proto::compact_formats::{ChainMetadata, CompactBlock, CompactTx};
use zcash_keys::keys::{UnifiedFullViewingKey, UnifiedSpendingKey};
use zcash_primitives::block::BlockHash;
use zcash_protocol::consensus::BlockHeight;
use zcash_protocol::local_consensus::LocalNetwork;
use zcash_protocol::value::Zatoshis;

pub const SEED_WALLET: [u8; 32] = [0u8; 32];
pub const SEED_FOREIGN: [u8; 32] = [7u8; 32];

#[derive(Clone, Copy, Debug, PartialEq, Eq, PartialOrd, Ord, Hash)]
pub enum Pool {
    Sapling,
    Orchard,
    Ironwood,
}
pub const POOLS: [Pool; 3] = [Pool::Sapling, Pool::Orchard, Pool::Ironwood];

impl Pool {
    pub fn prefix(self) -> &'static str {
        match self {
            Pool::Sapling => "sapling",
            Pool::Orchard => "orchard",
            Pool::Ironwood => "ironwood",
        }
    }
}

#[derive(Clone, Copy, Debug, PartialEq, Eq, PartialOrd, Ord, Hash)]
pub enum Owner {
    A,
    B,
    Foreign,
}

#[derive(Clone, Copy, Debug, PartialEq, Eq, PartialOrd, Ord, Hash)]
pub enum Scope {
    External,
    Diversified,
    Internal,
}

#[derive(Clone, Debug)]
pub enum Item {
    Out { owner: Owner, pool: Pool, scope: Scope, value: u64 },
    /// Spend the note with this universe-wide label.
    Spend { label: &'static str },
}

#[derive(Clone, Debug, Default)]
pub struct TxSpec {
    pub items: Vec<Item>,
    /// Labels given to the `Out` items of this transaction, in order (None = unlabeled).
    pub labels: Vec<Option<&'static str>>,
    /// Instead of new items: the transaction of chain 0 that created the note with this label, mined
    /// again here (same txid, same outputs) - what a reorg does to a transaction that stays valid.
    /// Its notes get new ground-truth records (new height and tree positions; for Sapling a new
    /// nullifier, which depends on the position).
    pub remine_of: Option<&'static str>,
}

/// The transaction that created `label` on chain 0, mined again.
pub fn remine(label: &'static str) -> TxSpec {
    TxSpec { remine_of: Some(label), ..Default::default() }
}

pub fn tx(items: Vec<(Option<&'static str>, Item)>) -> TxSpec {
    let mut t = TxSpec::default();
    for (l, i) in items {
        if matches!(i, Item::Out { .. }) {
            t.labels.push(l);
        }
        t.items.push(i);
    }
    t
}
pub fn out(label: &'static str, owner: Owner, pool: Pool, scope: Scope, value: u64) -> (Option<&'static str>, Item) {
    (Some(label), Item::Out { owner, pool, scope, value })
}
pub fn foreign(pool: Pool, value: u64) -> (Option<&'static str>, Item) {
    (None, Item::Out { owner: Owner::Foreign, pool, scope: Scope::External, value })
}
pub fn spend(label: &'static str) -> (Option<&'static str>, Item) {
    (None, Item::Spend { label })
}

#[derive(Clone, Debug, Default)]
pub struct BlockSpec {
    pub txs: Vec<TxSpec>,
}

#[derive(Clone, Debug)]
pub enum Nf {
    Sapling(sapling::Nullifier),
    Orchard(orchard::note::Nullifier),
}
impl Nf {
    pub fn bytes(&self) -> Vec<u8> {
        match self {
            Nf::Sapling(n) => n.0.to_vec(),
            Nf::Orchard(n) => n.to_bytes().to_vec(),
        }
    }
}

/// Ground truth about one note created in the universe.
#[derive(Clone, Debug)]
pub struct NoteInfo {
    pub id: usize,
    pub label: Option<&'static str>,
    pub owner: Owner,
    pub pool: Pool,
    pub scope: Scope,
    pub value: u64,
    pub height: u32,
    pub txid: [u8; 32],
    /// index of the output among the outputs of this pool in its transaction
    pub output_index: usize,
    /// position in the pool's note commitment tree
    pub position: u64,
    pub nf: Nf,
    /// note commitment (cmu / cmx), 32 bytes
    pub cm: [u8; 32],
    /// for the record of a re-mined note: the id of the record of its first mining
    pub remine_of: Option<usize>,
}

#[derive(Clone, Debug)]
pub struct TxRec {
    pub txid: [u8; 32],
    pub created: Vec<usize>,
    pub spent: Vec<usize>,
}

#[derive(Clone, Debug)]
pub enum ShardRoot {
    Sapling(sapling::Node),
    Orchard(MerkleHashOrchard),
}

#[derive(Clone)]
pub struct BlockRec {
    /// shards (pool, shard index, root) completed by a commitment of this block
    pub completed: Vec<(Pool, u64, ShardRoot)>,
    pub height: u32,
    pub cb: CompactBlock,
    pub state_after: ChainState,
    pub txs: Vec<TxRec>,
    /// (sapling, orchard, ironwood) commitments appended by this block
    pub n_commitments: [usize; 3],
}

#[derive(Clone)]
pub struct Chain {
    /// Height of the last block shared with chain 0 (== last height for chain 0 itself).
    pub fork_height: u32,
    pub blocks: BTreeMap<u32, BlockRec>,
}

impl Chain {
    pub fn tip(&self) -> u32 {
        *self.blocks.keys().next_back().unwrap()
    }
}

#[derive(Clone)]
pub struct Keys {
    pub usk_a: UnifiedSpendingKey,
    pub usk_b: UnifiedSpendingKey,
    pub usk_f: UnifiedSpendingKey,
    pub ufvk_a: UnifiedFullViewingKey,
    pub ufvk_b: UnifiedFullViewingKey,
    pub ufvk_f: UnifiedFullViewingKey,
}

#[derive(Clone)]
pub struct Universe {
    pub network: LocalNetwork,
    pub keys: Keys,
    /// Chain state as of the end of block `birthday - 1` (the account birthday's prior state).
    pub genesis: ChainState,
    /// First generated height.
    pub first: u32,
    pub chains: Vec<Chain>,
    pub notes: Vec<NoteInfo>,
    pub labels: BTreeMap<&'static str, usize>,
    /// Segment boundaries: segment i covers heights seg_start[i] .. seg_start[i+1]-1.
    pub seg_start: Vec<u32>,
}

pub fn network(nu6_3: Option<u32>) -> LocalNetwork {
    let h = Some(BlockHeight::from_u32(100_000));
    LocalNetwork {
        overwinter: Some(BlockHeight::from_u32(1)),
        sapling: h,
        blossom: h,
        heartwood: h,
        canopy: h,
        nu5: h,
        nu6: h,
        nu6_1: h,
        nu6_2: h,
        nu6_3: nu6_3.map(BlockHeight::from_u32),
    }
}

fn usk(net: &LocalNetwork, seed: &[u8; 32], account: u32) -> UnifiedSpendingKey {
    UnifiedSpendingKey::from_seed(net, seed, zip32::AccountId::try_from(account).unwrap()).expect("usk derivation")
}

struct Gen<'a> {
    net: LocalNetwork,
    keys: &'a Keys,
    rng: ChaChaRng,
}

fn addr_type(s: Scope) -> AddressType {
    match s {
        Scope::External => AddressType::DefaultExternal,
        Scope::Diversified => AddressType::DiversifiedExternal(zip32::DiversifierIndex::from(5u32)),
        Scope::Internal => AddressType::Internal,
    }
}

impl Universe {
    /// `genesis_sizes`: initial (sapling, orchard) tree sizes of the pre-birthday frontier.
    pub fn new(nu6_3: Option<u32>, first: u32, genesis_sizes: (u64, u64), seed: u64) -> Universe {
        let net = network(nu6_3);
        let usk_a = usk(&net, &SEED_WALLET, 0);
        let usk_b = usk(&net, &SEED_WALLET, 1);
        let usk_f = usk(&net, &SEED_FOREIGN, 0);
        let keys = Keys {
            ufvk_a: usk_a.to_unified_full_viewing_key(),
            ufvk_b: usk_b.to_unified_full_viewing_key(),
            ufvk_f: usk_f.to_unified_full_viewing_key(),
            usk_a,
            usk_b,
            usk_f,
        };
        let mut rng = ChaChaRng::seed_from_u64(seed ^ 0x5eed);
        let mk_s = |rng: &mut ChaChaRng, n: u64| -> Frontier<sapling::Node, 32> {
            if n == 0 {
                Frontier::empty()
            } else {
                Frontier::random_with_prior_subtree_roots(rng, n, std::num::NonZeroU8::new(16).unwrap()).1
            }
        };
        let mk_o = |rng: &mut ChaChaRng, n: u64| -> Frontier<MerkleHashOrchard, 32> {
            if n == 0 {
                Frontier::empty()
            } else {
                Frontier::random_with_prior_subtree_roots(rng, n, std::num::NonZeroU8::new(16).unwrap()).1
            }
        };
        let s = mk_s(&mut rng, genesis_sizes.0);
        let o = mk_o(&mut rng, genesis_sizes.1);
        let mut h = [0u8; 32];
        rng.fill_bytes(&mut h);
        let genesis = ChainState::new(BlockHeight::from_u32(first - 1), BlockHash(h), s, o, Frontier::empty());
        Universe {
            network: net,
            keys,
            genesis,
            first,
            chains: vec![],
            notes: vec![],
            labels: BTreeMap::new(),
            seg_start: vec![first],
        }
    }

    pub fn state_before(&self, chain: usize, height: u32) -> &ChainState {
        if height == self.first {
            &self.genesis
        } else {
            &self.chains[chain].blocks[&(height - 1)].state_after
        }
    }

    /// Append blocks to chain `chain` (creating it, as a fork of chain 0 after `fork_height`, if it
    /// does not exist yet).
    pub fn extend(&mut self, chain: usize, fork_height: Option<u32>, specs: &[BlockSpec], seed: u64) {
        if chain == self.chains.len() {
            let mut c = Chain { fork_height: 0, blocks: BTreeMap::new() };
            if let Some(f) = fork_height {
                c.fork_height = f;
                for (h, b) in self.chains[0].blocks.range(..=f) {
                    c.blocks.insert(*h, b.clone());
                }
            }
            self.chains.push(c);
        }
        let keys_ptr: *const Keys = &self.keys;
        // SAFETY: keys are never mutated after construction.
        let keys: &Keys = unsafe { &*keys_ptr };
        let mut g = Gen { net: self.network, keys, rng: ChaChaRng::seed_from_u64(seed) };
        for spec in specs {
            let height = if self.chains[chain].blocks.is_empty() { self.first } else { self.chains[chain].tip() + 1 };
            let prev = self.state_before(chain, height).clone();
            let rec = g.block(self, height, &prev, spec);
            self.chains[chain].blocks.insert(height, rec);
            if chain == 0 {
                self.chains[0].fork_height = height;
            }
        }
    }

    /// Mark the start of a new segment at the current tip of chain 0 + 1.
    pub fn segment_break(&mut self) {
        let next = self.chains[0].tip() + 1;
        if *self.seg_start.last().unwrap() != next {
            self.seg_start.push(next);
        }
    }

    pub fn note(&self, label: &str) -> &NoteInfo {
        &self.notes[self.labels[label]]
    }

    /// Ids of the note records created by the transactions of the given blocks of a chain (a
    /// transaction mined on several branches has one record per place it is mined at).
    pub fn notes_created_in(&self, chain: usize, heights: impl Iterator<Item = u32>) -> std::collections::BTreeSet<usize> {
        let mut r = std::collections::BTreeSet::new();
        for h in heights {
            if let Some(b) = self.chains[chain].blocks.get(&h) {
                for t in &b.txs {
                    r.extend(t.created.iter().copied());
                }
            }
        }
        r
    }

    pub fn source(&self, chain: usize) -> ChainSource<'_> {
        ChainSource { chain: &self.chains[chain] }
    }
}

impl<'a> Gen<'a> {
    fn block(&mut self, u: &mut Universe, height: u32, prev: &ChainState, spec: &BlockSpec) -> BlockRec {
        let bh = BlockHeight::from_u32(height);
        let mut sap = prev.final_sapling_tree().clone();
        let mut orc = prev.final_orchard_tree().clone();
        let mut iron = prev.final_ironwood_tree().clone();
        let mut vtx = vec![];
        let mut txrecs = vec![];
        let mut ncomm = [0usize; 3];
        let mut completed = vec![];
        for (ti, t) in spec.txs.iter().enumerate() {
            let mut ctx = CompactTx::default();
            let mut txid = [0u8; 32];
            let mut created = vec![];
            let mut spent = vec![];
            if let Some(label) = t.remine_of {
                // copy the compact transaction from chain 0 and record its notes at their new place
                let first = u.notes[*u.labels.get(label).unwrap_or_else(|| panic!("unknown note label {label}"))].clone();
                let (orig_ctx, orig_rec) = {
                    let b = &u.chains[0].blocks[&first.height];
                    let i = b.txs.iter().position(|r| r.txid == first.txid).expect("transaction of the labelled note");
                    (b.cb.vtx[i].clone(), b.txs[i].clone())
                };
                ctx = orig_ctx;
                ctx.index = (ti + 1) as u64;
                txid = orig_rec.txid;
                spent = orig_rec.spent.clone();
                for oid in &orig_rec.created {
                    let o = u.notes[*oid].clone();
                    let base = match o.pool {
                        Pool::Sapling => sap.tree_size(),
                        Pool::Orchard => orc.tree_size(),
                        Pool::Ironwood => iron.tree_size(),
                    };
                    let position = base + o.output_index as u64;
                    let nf = match (&o.nf, o.pool, o.owner) {
                        (Nf::Sapling(old), Pool::Sapling, owner) if owner != Owner::Foreign => {
                            let dfvk = self.ufvk(owner).sapling().unwrap().clone();
                            let zscope = if matches!(o.scope, Scope::Internal) { zip32::Scope::Internal } else { zip32::Scope::External };
                            let cod: sapling::note_encryption::CompactOutputDescription = (&ctx.outputs[o.output_index]).try_into().expect("compact output");
                            let pivk = sapling::keys::PreparedIncomingViewingKey::new(&dfvk.to_ivk(zscope));
                            match sapling::note_encryption::try_sapling_compact_note_decryption(&pivk, &cod, sapling::note_encryption::Zip212Enforcement::On) {
                                Some((note, _)) => Nf::Sapling(note.nf(&dfvk.to_nk(zscope), position)),
                                None => Nf::Sapling(*old),
                            }
                        }
                        (other, _, _) => other.clone(),
                    };
                    let id = u.notes.len();
                    u.notes.push(NoteInfo { id, label: None, height, position, nf, remine_of: Some(o.id), ..o });
                    created.push(id);
                }
            } else {
                self.rng.fill_bytes(&mut txid);
                ctx.txid = txid.to_vec();
                ctx.index = (ti + 1) as u64; // index 0 is the coinbase by convention
            }
            let mut li = 0usize;
            for item in &t.items {
                match item {
                    Item::Spend { label } => {
                        let n = u.notes[*u.labels.get(label).unwrap_or_else(|| panic!("unknown note label {label}"))].clone();
                        let ufvk = self.ufvk(n.owner).clone();
                        match (&n.nf, n.pool) {
                            (Nf::Sapling(nf), Pool::Sapling) => ufvk.sapling().unwrap().add_spend(&mut ctx, *nf, &mut self.rng),
                            (Nf::Orchard(nf), Pool::Orchard) => ufvk.orchard().unwrap().add_spend(&mut ctx, *nf, &mut self.rng),
                            (Nf::Orchard(nf), Pool::Ironwood) => IronwoodFvk(ufvk.orchard().unwrap().clone()).add_spend(&mut ctx, *nf, &mut self.rng),
                            _ => unreachable!(),
                        }
                        spent.push(n.id);
                    }
                    Item::Out { owner, pool, scope, value } => {
                        let label = t.labels[li];
                        li += 1;
                        let ufvk = self.ufvk(*owner).clone();
                        let v = Zatoshis::from_u64(*value).unwrap();
                        let at = addr_type(*scope);
                        let (nf, output_index, position) = match pool {
                            Pool::Sapling => {
                                let idx = ctx.outputs.len();
                                let init = sap.tree_size() as u32;
                                let dfvk = ufvk.sapling().unwrap();
                                let _helper_nf = dfvk.add_output(&mut ctx, &self.net, bh, None, at, v, init, &mut self.rng);
                                // Ground-truth nullifier, computed independently of the test helper
                                // (whose returned value uses the external nk even for internal
                                // receivers): decrypt the compact output with the scope's IVK and
                                // derive the nullifier with the scope's nk at the true position.
                                let zscope = if matches!(scope, Scope::Internal) { zip32::Scope::Internal } else { zip32::Scope::External };
                                let position = sap.tree_size() + idx as u64;
                                let cod: sapling::note_encryption::CompactOutputDescription = (&ctx.outputs[idx]).try_into().expect("compact output");
                                let pivk = sapling::keys::PreparedIncomingViewingKey::new(&dfvk.to_ivk(zscope));
                                let (note, _) = sapling::note_encryption::try_sapling_compact_note_decryption(&pivk, &cod, sapling::note_encryption::Zip212Enforcement::On)
                                    .expect("generated output decrypts under the intended key and scope");
                                assert_eq!(note.value().inner(), *value);
                                let nf = note.nf(&dfvk.to_nk(zscope), position);
                                (Nf::Sapling(nf), idx, position)
                            }
                            Pool::Orchard => {
                                let idx = ctx.actions.len();
                                let fvk = ufvk.orchard().unwrap();
                                let nf = fvk.add_output(&mut ctx, &self.net, bh, None, at, v, 0, &mut self.rng);
                                (Nf::Orchard(nf), idx, orc.tree_size() + idx as u64)
                            }
                            Pool::Ironwood => {
                                let idx = ctx.ironwood_actions.len();
                                let fvk = IronwoodFvk(ufvk.orchard().unwrap().clone());
                                let nf = fvk.add_output(&mut ctx, &self.net, bh, None, at, v, 0, &mut self.rng);
                                (Nf::Orchard(nf), idx, iron.tree_size() + idx as u64)
                            }
                        };
                        let id = u.notes.len();
                        let cm: [u8; 32] = match pool {
                            Pool::Sapling => ctx.outputs[output_index].cmu.clone().try_into().unwrap(),
                            Pool::Orchard => ctx.actions[output_index].cmx.clone().try_into().unwrap(),
                            Pool::Ironwood => ctx.ironwood_actions[output_index].cmx.clone().try_into().unwrap(),
                        };
                        u.notes.push(NoteInfo { id, label, owner: *owner, pool: *pool, scope: *scope, value: *value, height, txid, output_index, position, nf, cm, remine_of: None });
                        if let Some(l) = label {
                            assert!(u.labels.insert(l, id).is_none(), "duplicate label {l}");
                        }
                        created.push(id);
                    }
                }
            }
            // Fix up positions: outputs created through spends (Orchard dummy actions) also occupy
            // tree positions, so positions are recomputed from the final per-tx layout below.
            // (For Orchard, `add_spend` pushes a dummy action *before* later outputs; indices above
            // were taken at push time, so they are already the action indices.)
            let lvl = incrementalmerkletree::Level::from(16);
            for o in &ctx.outputs {
                sap.append(sapling::Node::from_cmu(&o.cmu().unwrap()));
                ncomm[0] += 1;
                if sap.tree_size() % (1 << 16) == 0 {
                    completed.push((Pool::Sapling, sap.tree_size() / (1 << 16) - 1, ShardRoot::Sapling(sap.value().unwrap().root(Some(lvl)))));
                }
            }
            for a in &ctx.actions {
                orc.append(MerkleHashOrchard::from_cmx(&a.cmx().unwrap()));
                ncomm[1] += 1;
                if orc.tree_size() % (1 << 16) == 0 {
                    completed.push((Pool::Orchard, orc.tree_size() / (1 << 16) - 1, ShardRoot::Orchard(orc.value().unwrap().root(Some(lvl)))));
                }
            }
            for a in &ctx.ironwood_actions {
                iron.append(MerkleHashOrchard::from_cmx(&a.cmx().unwrap()));
                ncomm[2] += 1;
                if iron.tree_size() % (1 << 16) == 0 {
                    completed.push((Pool::Ironwood, iron.tree_size() / (1 << 16) - 1, ShardRoot::Orchard(iron.value().unwrap().root(Some(lvl)))));
                }
            }
            txrecs.push(TxRec { txid, created, spent });
            vtx.push(ctx);
        }
        let mut hash = [0u8; 32];
        self.rng.fill_bytes(&mut hash);
        let cb = CompactBlock {
            hash: hash.to_vec(),
            height: height as u64,
            prev_hash: prev.block_hash().0.to_vec(),
            time: 1_700_000_000 + height,
            vtx,
            chain_metadata: Some(ChainMetadata {
                sapling_commitment_tree_size: sap.tree_size() as u32,
                orchard_commitment_tree_size: orc.tree_size() as u32,
                ironwood_commitment_tree_size: iron.tree_size() as u32,
            }),
            ..Default::default()
        };
        let state_after = ChainState::new(bh, BlockHash(hash), sap, orc, iron);
        BlockRec { completed, height, cb, state_after, txs: txrecs, n_commitments: ncomm }
    }

    fn ufvk(&self, o: Owner) -> &UnifiedFullViewingKey {
        match o {
            Owner::A => &self.keys.ufvk_a,
            Owner::B => &self.keys.ufvk_b,
            Owner::Foreign => &self.keys.ufvk_f,
        }
    }
}

/// In-memory `BlockSource` over one chain of the universe.
pub struct ChainSource<'a> {
    pub chain: &'a Chain,
}

impl<'a> BlockSource for ChainSource<'a> {
    type Error = Infallible;
    fn with_blocks<F, WalletErrT>(&self, from_height: Option<BlockHeight>, limit: Option<usize>, mut with_block: F) -> Result<(), ChainError<WalletErrT, Infallible>>
    where
        F: FnMut(CompactBlock) -> Result<(), ChainError<WalletErrT, Infallible>>,
    {
        let from = from_height.map(u32::from).unwrap_or(0);
        for (_, b) in self.chain.blocks.range(from..).take(limit.unwrap_or(usize::MAX)) {
            with_block(b.cb.clone())?;
        }
        Ok(())
    }
}

/// Empty blocks.
pub fn empties(n: usize) -> Vec<BlockSpec> {
    vec![BlockSpec::default(); n]
}
pub fn block(txs: Vec<TxSpec>) -> BlockSpec {
    BlockSpec { txs }
}
