//! The block universes explored by the wallet checks (see DESIGN.md "Shared wallet universe").
//!
//! Symbols and the code shortcut each one is there for:
//!  * spend of a note in a later segment than its receipt -> scanning the spend first exercises
//!    `nullifier_map` / `detect_*_spend`;
//!  * internal (change) vs external vs diversified receipts, three pools, a second account and
//!    foreign traffic -> one comparison each in `get_wallet_summary` / `find_received`;
//!  * dust values 4_999 / 5_000 (== marginal fee) -> the `value <= MARGINAL_FEE` split;
//!  * multi-transaction blocks -> tree positions = prior size + index in block;
//!  * stretches of > 100 empty blocks -> PRUNING_DEPTH, NULLIFIER_MAP_RETENTION_BLOCKS, the
//!    40-block default expiry of un-mined transactions, checkpoint pruning;
//!  * an alternative branch after a fork point -> rewind + different continuation;
//!  * NU6.3 activating inside the universe and a short anchor-retention interval -> retained grid
//!    checkpoints, including on blocks without any commitment;
//!  * the genesis frontier two leaves below a 2^16 shard boundary -> notes straddle a shard.

use crate::universe::Owner::*;
use crate::universe::Pool::*;
use crate::universe::Scope::*;
use crate::universe::*;

pub const FIRST: u32 = 100_100;
pub const SHARD: u64 = 1 << 16;

fn seg(u: &mut Universe, chain: usize, fork: Option<u32>, blocks: Vec<BlockSpec>, seed: u64) {
    u.extend(chain, fork, &blocks, seed);
    if chain == 0 {
        u.segment_break();
    }
}

/// 5 segments (4 segments of 5 blocks + a 102-block empty stretch), forks after S1 and after S0, NU6.3 at FIRST+2:
/// the quick-tier universe.
pub fn tiny() -> Universe {
    tiny_with(empties(102))
}

/// `tiny` with a 160-block stretch of foreign Orchard traffic instead of the empty one (every 13th
/// block is empty): more than 100 checkpoints off the retained grid (which pruning skips) are
/// created while the non-empty Sapling and Ironwood pools receive nothing - checkpoint pruning of
/// idle pools. Used by the tree check (C06).
pub fn tiny_trees() -> Universe {
    tiny_with(traffic_in(Orchard, 160, 13))
}

fn tiny_with(stretch: Vec<BlockSpec>) -> Universe {
    let mut u = Universe::new(Some(FIRST + 2), FIRST, (SHARD - 2, SHARD - 2), 10);
    seg(&mut u, 0, None, vec![block(vec![tx(vec![out("a1", A, Sapling, External, 60_000), foreign(Sapling, 11_111)])])], 100);
    seg(
        &mut u,
        0,
        None,
        vec![block(vec![tx(vec![foreign(Orchard, 22_222), out("a2", A, Orchard, External, 70_000)]), tx(vec![out("b0", B, Sapling, External, 30_000)])])],
        101,
    );
    seg(
        &mut u,
        0,
        None,
        vec![block(vec![
            tx(vec![spend("a1"), out("a3", A, Sapling, Internal, 40_000), foreign(Sapling, 15_000)]),
            tx(vec![out("d1", A, Orchard, External, 5_000), out("a4", A, Ironwood, External, 50_000), out("d2", A, Sapling, Diversified, 5_001)]),
        ])],
        102,
    );
    // S3: spends of an Orchard note received two segments earlier and of an Ironwood note received in
    // the previous block (a scan of S2..S3 receives and spends it inside one batch)
    seg(
        &mut u,
        0,
        None,
        vec![
            // an Ironwood-only block in the interior of the S3 batch, off the retention grid
            block(vec![tx(vec![spend("a4"), out("a6", A, Ironwood, Internal, 45_000)])]),
            // ... and of the change note a3 of S2's spend: scanning S3 before S2 sees the spend of a
            // CHANGE note before its receipt (chained spends)
            block(vec![tx(vec![spend("a2"), out("a5", A, Orchard, Internal, 60_000)]), tx(vec![spend("a3"), out("a7", A, Sapling, Internal, 30_000)])]),
        ],
        103,
    );
    // S4: the stretch (> 100 blocks): scanning it before an earlier segment moves the maximum scanned
    // height more than PRUNING_DEPTH / NULLIFIER_MAP_RETENTION_BLOCKS (100) above the spends in S2 and
    // S3 while the fully-scanned height stays behind.
    seg(&mut u, 0, None, stretch, 104);
    u.extend(
        1,
        Some(FIRST + 1),
        // (the branch starts the Ironwood tree with OTHER commitments than the main chain does at the
        // same height: a rewind to the fork point lands on an empty-tree Ironwood checkpoint)
        &[
            block(vec![tx(vec![out("x3", A, Orchard, External, 45_000), out("x2i", A, Ironwood, External, 12_000)])]),
            block(vec![tx(vec![spend("a1"), out("x4", A, Sapling, Internal, 55_000)])]),
            BlockSpec::default(),
        ],
        204,
    );
    // second alternative branch, forking after S0 - inside Orchard shard 0, which both branches then
    // complete (at position 2^16 - 1) with different leaves, and continue into shard 1
    u.extend(
        2,
        Some(FIRST),
        &[
            block(vec![tx(vec![out("y2", A, Orchard, External, 33_000), foreign(Orchard, 9_999)])]),
            // ... and on which two transactions of the abandoned branch are mined again, later and at
            // shifted tree positions: a2's (Orchard, main 100101) after y3, b0's (Sapling, to account
            // B; its nullifier depends on the position) after a foreign Sapling output
            block(vec![tx(vec![out("y3", A, Orchard, External, 44_000), foreign(Sapling, 8_888)]), remine("a2"), remine("b0")]),
            BlockSpec::default(),
        ],
        304,
    );
    u
}

/// 6 segments (7 blocks), fork after S3, NU6.3 at FIRST+4.
pub fn small() -> Universe {
    let mut u = Universe::new(Some(FIRST + 4), FIRST, (SHARD - 2, SHARD - 2), 11);
    // S0
    seg(&mut u, 0, None, vec![block(vec![tx(vec![out("a1", A, Sapling, External, 60_000), foreign(Sapling, 11_111)])])], 100);
    // S1: two transactions in one block
    seg(
        &mut u,
        0,
        None,
        vec![block(vec![
            tx(vec![foreign(Orchard, 22_222), out("a2", A, Orchard, External, 70_000)]),
            tx(vec![out("b0", B, Sapling, External, 30_000)]),
        ])],
        101,
    );
    // S2: spend a1 -> change a3 + foreign payment
    seg(&mut u, 0, None, vec![block(vec![tx(vec![spend("a1"), out("a3", A, Sapling, Internal, 40_000), foreign(Sapling, 15_000)])])], 102);
    // S3: empty block
    seg(&mut u, 0, None, empties(1), 103);
    // S4 (NU6.3 active): Ironwood receipt + dust on both sides of the marginal fee
    seg(
        &mut u,
        0,
        None,
        vec![block(vec![tx(vec![
            out("a4", A, Ironwood, External, 50_000),
            out("d1", A, Orchard, External, 5_000),
            out("d2", A, Sapling, Diversified, 4_999),
            out("d3", A, Sapling, External, 5_001),
        ])])],
        104,
    );
    // S5: spend a2 -> change a5; receipt to B; then an empty block
    seg(
        &mut u,
        0,
        None,
        vec![block(vec![tx(vec![spend("a2"), out("a5", A, Orchard, Internal, 60_000)]), tx(vec![out("b1", B, Orchard, External, 20_000)])]), BlockSpec::default()],
        105,
    );
    // alternative branch after S3
    u.extend(
        1,
        Some(FIRST + 3),
        &[
            block(vec![tx(vec![out("x4", A, Orchard, External, 45_000)])]),
            block(vec![tx(vec![spend("a3"), out("x5", A, Sapling, Internal, 30_000), foreign(Sapling, 5_000)])]),
            BlockSpec::default(),
        ],
        204,
    );
    u
}

/// `small` followed by a 165-block stretch and two more segments; second fork after S6.
pub fn mid() -> Universe {
    let mut u = small();
    // S6: stretch of 165 blocks of foreign Orchard-only traffic (> PRUNING_DEPTH checkpoints while
    // Sapling and Ironwood stay idle, > nullifier retention, > expiry delta); every 13th block is
    // empty so that some grid boundaries fall on commitment-free blocks.
    seg(&mut u, 0, None, traffic_in(Orchard, 165, 13), 106);
    // S7: spend a4 (Ironwood) and a3; receive a6
    seg(
        &mut u,
        0,
        None,
        vec![block(vec![tx(vec![spend("a4"), out("a6", A, Ironwood, Internal, 44_000)]), tx(vec![spend("a3"), out("a7", A, Sapling, Internal, 33_000)])])],
        107,
    );
    // S8: tail
    seg(&mut u, 0, None, vec![block(vec![tx(vec![out("a8", A, Orchard, Diversified, 12_345)])]), BlockSpec::default()], 108);
    // extend the alternative branch with its own stretch so that orphans of a rewind can expire
    u.extend(1, None, &traffic(45), 205);
    u.extend(1, None, &[block(vec![tx(vec![spend("x4"), out("x6", A, Orchard, Internal, 40_000)])])], 206);
    u
}

/// `n` blocks of foreign traffic cycling through the pools; every 7th block is empty.
pub fn traffic(n: usize) -> Vec<BlockSpec> {
    (0..n)
        .map(|i| {
            if i % 7 == 6 {
                BlockSpec::default()
            } else {
                block(vec![tx(vec![foreign([Sapling, Orchard, Ironwood][i % 3], 1_000 + i as u64)])])
            }
        })
        .collect()
}

/// `n` blocks of foreign traffic in one pool; every `every`-th block is empty.
pub fn traffic_in(pool: Pool, n: usize, every: usize) -> Vec<BlockSpec> {
    (0..n).map(|i| if i % every == every - 1 { BlockSpec::default() } else { block(vec![tx(vec![foreign(pool, 1_000 + i as u64)])]) }).collect()
}
