//! Wallet construction, snapshot/restore and canonical dumps of the real SQLite wallet.

use std::num::NonZeroU32;

use rusqlite::backup::Backup;
use rusqlite::types::ValueRef;
use rusqlite::Connection;
use secrecy::SecretVec;
use zcash_client_backend::data_api::anchor_retention::AnchorRetentionInterval;
use zcash_client_backend::data_api::testing::DataStoreFactory;
use zcash_client_backend::data_api::{AccountBirthday, WalletWrite};
use zcash_client_sqlite::testing::db::{TestDb, TestDbFactory};
use zcash_client_sqlite::AccountUuid;

use crate::universe::{Universe, SEED_WALLET};

pub struct Wallet {
    pub db: TestDb,
    pub acct_a: AccountUuid,
    pub acct_b: AccountUuid,
}

/// A fresh wallet with all migrations applied and accounts A and B created at the universe's
/// birthday (both before anything is scanned).
pub fn new_wallet(u: &Universe, retention: u32, file_backed: bool) -> Wallet {
    let factory = if file_backed { TestDbFactory::file_backed() } else { TestDbFactory::default() };
    let mut db = factory
        .new_data_store(u.network, Some(AnchorRetentionInterval::custom(NonZeroU32::new(retention).unwrap())), None)
        .expect("wallet creation");
    let birthday = AccountBirthday::from_parts(u.genesis.clone(), None);
    let seed = SecretVec::new(SEED_WALLET.to_vec());
    let (acct_a, usk_a) = db.create_account("A", &seed, &birthday, None).expect("account A");
    let (acct_b, usk_b) = db.create_account("B", &seed, &birthday, None).expect("account B");
    assert_eq!(usk_a.to_bytes(zcash_keys::keys::Era::Orchard), u.keys.usk_a.to_bytes(zcash_keys::keys::Era::Orchard));
    assert_eq!(usk_b.to_bytes(zcash_keys::keys::Era::Orchard), u.keys.usk_b.to_bytes(zcash_keys::keys::Era::Orchard));
    Wallet { db, acct_a, acct_b }
}

impl Wallet {
    /// Account ids are random (`Uuid::new_v4`), so after restoring another wallet's snapshot into
    /// this connection they must be re-read: A is the first created account, B the second.
    pub fn refresh_accounts(&mut self) {
        let ids: Vec<Vec<u8>> = {
            let mut st = self.db.conn().prepare("SELECT uuid FROM accounts ORDER BY id").unwrap();
            let r = st.query_map([], |r| r.get::<_, Vec<u8>>(0)).unwrap().map(|x| x.unwrap()).collect();
            r
        };
        let mk = |b: &Vec<u8>| AccountUuid::from_uuid(uuid::Uuid::from_slice(b).expect("uuid blob"));
        self.acct_a = mk(&ids[0]);
        self.acct_b = mk(&ids[1]);
    }
}

/// Snapshot of a wallet database: an in-memory SQLite copy.
pub struct Snapshot(pub std::sync::Mutex<Connection>);

pub fn snapshot(conn: &Connection) -> Snapshot {
    let mut dst = Connection::open_in_memory().expect("open snapshot");
    {
        let b = Backup::new(conn, &mut dst).expect("backup init");
        b.run_to_completion(1 << 20, std::time::Duration::from_millis(0), None).expect("backup");
    }
    Snapshot(std::sync::Mutex::new(dst))
}

/// Size of a snapshot's database image in bytes.
pub fn snapshot_bytes(snap: &Snapshot) -> u64 {
    let c = snap.0.lock().unwrap();
    let pages: u64 = c.query_row("PRAGMA page_count", [], |r| r.get(0)).unwrap_or(0);
    let size: u64 = c.query_row("PRAGMA page_size", [], |r| r.get(0)).unwrap_or(4096);
    pages * size
}

pub fn restore(conn: &mut Connection, snap: &Snapshot) {
    conn.flush_prepared_statement_cache();
    let src = snap.0.lock().unwrap();
    let b = Backup::new(&src, conn).expect("restore init");
    b.run_to_completion(1 << 20, std::time::Duration::from_millis(0), None).expect("restore");
}

fn render(v: ValueRef<'_>) -> String {
    match v {
        ValueRef::Null => "NULL".into(),
        ValueRef::Integer(i) => i.to_string(),
        ValueRef::Real(f) => format!("{f:?}"),
        ValueRef::Text(t) => format!("'{}'", String::from_utf8_lossy(t)),
        ValueRef::Blob(b) => format!("x{}", hex::encode(b)),
    }
}

pub fn table_names(conn: &Connection) -> Vec<String> {
    let mut st = conn.prepare("SELECT name FROM sqlite_master WHERE type='table' AND name NOT LIKE 'sqlite_%' ORDER BY name").unwrap();
    let r = st.query_map([], |r| r.get::<_, String>(0)).unwrap().map(|x| x.unwrap()).collect();
    r
}

/// Raw dump of one table: rows rendered and sorted. Used by the all-or-nothing checks (C02), where
/// surrogate ids matter (pre == post must be exact).
pub fn dump_table(conn: &Connection, table: &str) -> Vec<String> {
    let mut st = conn.prepare(&format!("SELECT * FROM \"{table}\"")).unwrap();
    let n = st.column_count();
    let mut rows = st.query([]).unwrap();
    let mut out = vec![];
    while let Some(r) = rows.next().unwrap() {
        let mut s = String::new();
        for i in 0..n {
            if i > 0 {
                s.push('|');
            }
            s.push_str(&render(r.get_ref(i).unwrap()));
        }
        out.push(s);
    }
    out.sort();
    out
}

/// Exact dump of every table (sorted rows). `skip` lists tables left out.
pub fn dump_all(conn: &Connection, skip: &[&str]) -> Vec<(String, Vec<String>)> {
    table_names(conn).into_iter().filter(|t| !skip.contains(&t.as_str())).map(|t| { let d = dump_table(conn, &t); (t, d) }).collect()
}

pub fn dump_digest(conn: &Connection, skip: &[&str]) -> String {
    use sha2::{Digest, Sha256};
    let mut h = Sha256::new();
    for (t, rows) in dump_all(conn, skip) {
        h.update(t.as_bytes());
        h.update([0]);
        for r in rows {
            h.update(r.as_bytes());
            h.update([1]);
        }
    }
    hex::encode(h.finalize())
}

/// Run a query and render each row as a `|`-joined string (sorted).
pub fn query_rows(conn: &Connection, sql: &str) -> Vec<String> {
    let mut st = conn.prepare(sql).unwrap_or_else(|e| panic!("prepare {sql}: {e}"));
    let n = st.column_count();
    let mut rows = st.query([]).unwrap();
    let mut out = vec![];
    while let Some(r) = rows.next().unwrap() {
        let mut s = String::new();
        for i in 0..n {
            if i > 0 {
                s.push('|');
            }
            s.push_str(&render(r.get_ref(i).unwrap()));
        }
        out.push(s);
    }
    out.sort();
    out
}

pub fn schema(conn: &Connection) -> Vec<String> {
    let mut st = conn.prepare("SELECT type, name, sql FROM sqlite_master ORDER BY type, name").unwrap();
    let r = st
        .query_map([], |r| Ok(format!("{} {}: {}", r.get::<_, String>(0)?, r.get::<_, String>(1)?, r.get::<_, Option<String>>(2)?.unwrap_or_default())))
        .unwrap()
        .map(|x| x.unwrap())
        .collect();
    r
}
