//! Reference model of the C08 exploration (plain maps), the operations, and their execution on the
//! real wallet. The model is fed by the explorer's own actions and the generation-time ground
//! truth of the universe / pending transactions; it never reads the wallet's tables.

use std::collections::{BTreeMap, BTreeSet};

use serde::{Deserialize, Serialize};
use zcash_client_backend::data_api::error::LockError;
use zcash_client_backend::data_api::{OutputLockStore, WalletWrite};
use zcash_client_backend::wallet::OutputRef;
use zcash_protocol::consensus::BlockHeight;

use crate::db::{self, Wallet};
use crate::universe::{Owner, Pool, Scope};

use super::chain::{owner, ChainDesc, Env, NoteKey};
use super::oracle::{self, Req};
use super::uni;

#[derive(Clone, Debug, PartialEq, Eq, Hash, Serialize, Deserialize)]
pub struct Model {
    pub chain: ChainDesc,
    /// wallet chain tip == last scanned height
    pub tip: u32,
    /// unscanned interval inside F..=tip (the `gap` start state, until `FillGap`)
    pub gap: Option<(u32, u32)>,
    /// notes whose received-note row exists in the wallet (their block was scanned at some point,
    /// or they are outputs of a stored pending transaction)
    pub seen: BTreeSet<NoteKey>,
    /// lock table: note -> (owner index, expiry height); expired locks stay until released/overwritten
    pub locks: BTreeMap<NoteKey, (u8, u32)>,
    /// pending transactions stored through store_transactions_to_be_sent
    pub stored: BTreeSet<usize>,
    /// transparent coins whose transaction a rewind un-mined in the wallet (nothing re-mines them:
    /// compact blocks carry no transparent data and the explorer does not put them again)
    pub utxo_unmined: BTreeSet<usize>,
}

#[derive(Clone, Debug, PartialEq, Eq, Hash, PartialOrd, Ord, Serialize, Deserialize)]
pub enum Op {
    /// lock_outputs(set, owner, tip + 1 | tip + 50)
    Lock { owner: u8, set: usize, far: bool },
    /// unlock_output(note, owner)
    Unlock { owner: u8, note: NoteKey },
    /// clear_locked_outputs(account A | B)
    Clear { acct_b: bool },
    /// store_transactions_to_be_sent(pending p)
    Store { p: usize },
    /// update_chain_tip + scan of the next k blocks of the chain (empty blocks beyond the universe)
    Advance { k: u32 },
    /// a block containing pending transaction p is mined and scanned
    Mine { p: usize },
    /// truncate_to_height(tip - back)
    Rewind { back: u32 },
    /// scan the blocks that the `gap` start state left out
    FillGap,
    /// put_received_transparent_utxo for a coin the wallet was not told about in the start state
    PutUtxo { i: usize },
    /// a proposal with `lock_inputs: Some(..)` (writes locks)
    Propose { req: Req },
}

/// The note sets offered to `Lock` (by label).
pub const LOCK_SETS: [&[&str]; 5] = [&["s60"], &["s70", "o200", "t80"], &["o1m"], &["s60", "b1"], &["i50", "s40", "e10", "tb"]];

pub fn lock_set(env: &Env, i: usize) -> Vec<NoteKey> {
    LOCK_SETS[i].iter().map(|l| env.u.labels.get(l).map(|i| NoteKey::U(*i)).unwrap_or_else(|| NoteKey::T(env.utxos.iter().position(|t| t.label == *l).expect("lock set label")))).collect()
}

/// Ground-truth view of one transparent coin in a model state.
#[derive(Clone, Debug)]
pub struct UtxoView {
    pub key: NoteKey,
    pub owner: Owner,
    pub value: u64,
    pub hash: [u8; 32],
    /// the wallet was told about it
    pub known: bool,
    /// mined (as far as the wallet was told and no rewind went below it)
    pub mined: Option<u32>,
    /// spent by a pending transaction mined in a scanned block of the current chain
    pub spent_on_chain: bool,
    /// spent by a stored pending transaction that is not mined (in scanned blocks) and not expired
    pub pending_spent: bool,
    pub lock: Option<(u8, u32)>,
}

/// Ground-truth view of one wallet note in a model state.
#[derive(Clone, Debug)]
pub struct NoteView {
    pub key: NoteKey,
    pub owner: Owner,
    pub pool: Pool,
    pub scope: Scope,
    pub value: u64,
    pub txid: [u8; 32],
    pub out_index: usize,
    /// height at which it is mined on the scanned part of the current chain
    pub mined: Option<u32>,
    pub position: Option<u64>,
    pub cm: [u8; 32],
    /// spent by a transaction in a scanned block of the current chain
    pub spent_on_chain: bool,
    /// spent by a stored pending transaction that is not mined (in scanned blocks) and not expired
    pub pending_spent: bool,
    pub lock: Option<(u8, u32)>,
    /// for a note produced by a shielding transaction: the maximum height at which a transparent
    /// input of that transaction was received
    pub shield_input_height: Option<u32>,
}

impl Model {
    pub fn start(env: &Env, i: usize) -> Model {
        let (_, _, gap, tip) = &env.starts[i];
        let mut m = Model { chain: ChainDesc { base_upto: uni::T0, dynb: vec![] }, tip: *tip, gap: *gap, seen: BTreeSet::new(), locks: BTreeMap::new(), stored: BTreeSet::new(), utxo_unmined: BTreeSet::new() };
        for (i, t) in env.utxos.iter().enumerate() {
            if t.height <= *tip && !t.late {
                m.seen.insert(NoteKey::T(i));
            }
        }
        match gap {
            None => m.mark_seen(env, uni::F, *tip),
            Some((a, b)) => {
                m.mark_seen(env, uni::F, a - 1);
                m.mark_seen(env, b + 1, *tip);
            }
        }
        m
    }

    pub fn target(&self) -> u32 {
        self.tip + 1
    }

    fn mark_seen(&mut self, env: &Env, from: u32, to: u32) {
        for n in &env.u.notes {
            if n.owner != Owner::Foreign && n.height >= from && n.height <= to && n.height <= self.chain.base_upto {
                self.seen.insert(NoteKey::U(n.id));
            }
        }
        for (p, pd) in env.pend.iter().enumerate() {
            if let Some(h) = self.chain.mined_at(p) {
                if h >= from && h <= to {
                    for o in pd.outs.iter().filter(|o| o.owner == Owner::A) {
                        self.seen.insert(NoteKey::D(p, o.index));
                    }
                }
            }
        }
    }

    fn scanned(&self, h: u32) -> bool {
        h >= uni::F && h <= self.tip && !self.gap.is_some_and(|(a, b)| a <= h && h <= b)
    }

    /// Is pending transaction p stored, un-mined (as far as scanned blocks go) and unexpired?
    pub fn pending_active(&self, env: &Env, p: usize) -> bool {
        self.stored.contains(&p) && !self.chain.mined_at(p).is_some_and(|h| self.scanned(h)) && env.pend[p].expiry >= self.target()
    }

    pub fn ledger(&self, env: &Env) -> Vec<NoteView> {
        let u = &env.u;
        let mut spent: BTreeSet<usize> = BTreeSet::new();
        for (h, b) in u.chains[0].blocks.range(..=self.chain.base_upto) {
            if self.scanned(*h) {
                for t in &b.txs {
                    spent.extend(t.spent.iter().copied());
                }
            }
        }
        let mut pend_spent: BTreeSet<usize> = BTreeSet::new();
        for (p, pd) in env.pend.iter().enumerate() {
            if self.chain.mined_at(p).is_some_and(|h| self.scanned(h)) {
                spent.extend(pd.spends.iter().copied());
            } else if self.pending_active(env, p) {
                pend_spent.extend(pd.spends.iter().copied());
            }
        }
        let mut v = vec![];
        for n in &u.notes {
            if n.owner == Owner::Foreign {
                continue;
            }
            let key = NoteKey::U(n.id);
            let mined = (n.height <= self.chain.base_upto && self.scanned(n.height)).then_some(n.height);
            v.push(NoteView {
                key,
                owner: n.owner,
                pool: n.pool,
                scope: n.scope,
                value: n.value,
                txid: n.txid,
                out_index: n.output_index,
                mined,
                position: Some(n.position),
                cm: n.cm,
                spent_on_chain: spent.contains(&n.id),
                pending_spent: pend_spent.contains(&n.id),
                lock: self.locks.get(&key).copied(),
                shield_input_height: None,
            });
        }
        for (p, pd) in env.pend.iter().enumerate() {
            let mh = self.chain.mined_at(p).filter(|h| self.scanned(*h));
            for o in pd.outs.iter().filter(|o| o.owner == Owner::A) {
                let key = NoteKey::D(p, o.index);
                if !self.seen.contains(&key) {
                    continue;
                }
                let position = mh.map(|h| env.sapling_size_after(&self.chain, h - 1) + o.index as u64);
                v.push(NoteView {
                    key,
                    owner: Owner::A,
                    pool: Pool::Sapling,
                    scope: o.scope,
                    value: o.value,
                    txid: pd.txid,
                    out_index: o.index,
                    mined: mh,
                    position,
                    cm: o.cm,
                    spent_on_chain: false,
                    pending_spent: false,
                    lock: self.locks.get(&key).copied(),
                    shield_input_height: pd.utxo_spends.iter().map(|i| env.utxos[*i].height).max(),
                });
            }
        }
        v
    }

    pub fn utxo_views(&self, env: &Env) -> Vec<UtxoView> {
        env.utxos
            .iter()
            .enumerate()
            .map(|(i, t)| {
                let key = NoteKey::T(i);
                let known = self.seen.contains(&key);
                let spent_on_chain = env.pend.iter().enumerate().any(|(p, pd)| pd.utxo_spends.contains(&i) && self.chain.mined_at(p).is_some_and(|h| self.scanned(h)));
                let pending_spent = !spent_on_chain && env.pend.iter().enumerate().any(|(p, pd)| pd.utxo_spends.contains(&i) && self.pending_active(env, p));
                UtxoView {
                    key,
                    owner: t.owner,
                    value: t.value,
                    hash: t.hash,
                    known,
                    mined: (known && !self.utxo_unmined.contains(&i) && t.height <= self.tip).then_some(t.height),
                    spent_on_chain,
                    pending_spent,
                    lock: self.locks.get(&key).copied(),
                }
            })
            .collect()
    }

    /// Notes currently locked for selection (documented: `lock_expiry_height >= target_height`).
    pub fn locked_now(&self, env: &Env, acct: Owner) -> BTreeSet<NoteKey> {
        let t = self.target();
        self.locks.iter().filter(|(k, (_, e))| *e >= t && note_owner(env, **k) == acct).map(|(k, _)| *k).collect()
    }
}

pub fn note_owner(env: &Env, k: NoteKey) -> Owner {
    match k {
        NoteKey::U(i) => env.u.notes[i].owner,
        NoteKey::D(..) => Owner::A,
        NoteKey::T(i) => env.utxos[i].owner,
    }
}

pub struct Alphabet {
    pub locks: Vec<(u8, usize, bool)>,
    pub advance: Vec<u32>,
    pub rewind: Vec<u32>,
    pub proposals: Vec<Req>,
    pub clear_b: bool,
    pub unlock_all: bool,
    /// offer Mine for the pending transaction that spends a transparent coin
    pub mine_transparent_pending: bool,
}

pub fn enabled(env: &Env, al: &Alphabet, m: &Model) -> Vec<Op> {
    let mut ops = vec![];
    for (o, s, far) in &al.locks {
        ops.push(Op::Lock { owner: *o, set: *s, far: *far });
    }
    for (k, grp) in &m.locks {
        // quick alphabet: one representative note (the smallest key) per group of notes locked
        // together (same owner and expiry); thorough: every note holding a lock row
        if !al.unlock_all && m.locks.iter().any(|(k2, g2)| g2 == grp && k2 < k) {
            continue;
        }
        for o in [0u8, 1] {
            ops.push(Op::Unlock { owner: o, note: *k });
        }
    }
    ops.push(Op::Clear { acct_b: false });
    if al.clear_b {
        ops.push(Op::Clear { acct_b: true });
    }
    let ledger = m.ledger(env);
    let view = |i: usize| ledger.iter().find(|v| v.key == NoteKey::U(i)).unwrap();
    let coins = m.utxo_views(env);
    for (p, pd) in env.pend.iter().enumerate() {
        let t = m.target();
        // shielded inputs must be known, mined and unspent; a transparent input only has to be
        // unspent on chain and in existence (the wallet may not have been told about the coin yet:
        // a transaction made by another device sharing the seed)
        let inputs_live = pd.spends.iter().all(|i| {
            let v = view(*i);
            v.mined.is_some() && !v.spent_on_chain
        }) && pd.utxo_spends.iter().all(|i| !coins[*i].spent_on_chain && env.utxos[*i].height <= m.tip);
        if !m.stored.contains(&p) && pd.build_target <= t && t <= pd.expiry && inputs_live && pd.spends.iter().all(|i| !view(*i).pending_spent) && pd.utxo_spends.iter().all(|i| !coins[*i].pending_spent) {
            ops.push(Op::Store { p });
        }
        if m.stored.contains(&p) && m.chain.mined_at(p).is_none() && t <= pd.expiry && inputs_live && m.gap.is_none() && (pd.utxo_spends.is_empty() || al.mine_transparent_pending) {
            ops.push(Op::Mine { p });
        }
    }
    for (i, t) in env.utxos.iter().enumerate() {
        // the address-UTXO query reports a coin only while it is unspent on chain
        if t.late && !m.seen.contains(&NoteKey::T(i)) && t.height <= m.tip && !coins[i].spent_on_chain {
            ops.push(Op::PutUtxo { i });
        }
    }
    for k in &al.advance {
        ops.push(Op::Advance { k: *k });
    }
    for b in &al.rewind {
        if m.tip >= uni::F + *b && !m.gap.is_some_and(|(_, e)| m.tip - *b <= e) {
            ops.push(Op::Rewind { back: *b });
        }
    }
    if m.gap.is_some() {
        ops.push(Op::FillGap);
    }
    for r in &al.proposals {
        ops.push(Op::Propose { req: r.clone() });
    }
    ops
}

/// Raw lock columns of all four received-output tables (observation of the subject, used for the
/// all-or-nothing clause of `lock_outputs` and of failed lock-taking proposals).
pub fn lock_rows(conn: &rusqlite::Connection) -> Vec<String> {
    let mut out = vec![];
    for (t, idx) in [("sapling_received_notes", "output_index"), ("orchard_received_notes", "action_index"), ("ironwood_received_notes", "action_index"), ("transparent_received_outputs", "output_index")] {
        out.extend(
            db::query_rows(conn, &format!("SELECT '{t}', hex(t.txid), rn.{idx}, rn.lock_expiry_height, hex(rn.lock_owner) FROM {t} rn JOIN transactions t ON t.id_tx = rn.transaction_id WHERE rn.lock_expiry_height IS NOT NULL OR rn.lock_owner IS NOT NULL")),
        );
    }
    out
}

/// `get_locked_outputs` of both accounts must equal the model's currently-locked sets.
pub fn check_locked_outputs(env: &Env, w: &mut Wallet, m: &Model) -> Result<(), String> {
    for (acct, id) in [(Owner::A, w.acct_a), (Owner::B, w.acct_b)] {
        let got = match mc_core::catch(|| w.db.get_locked_outputs(id)) {
            Err(p) => return Err(format!("panic in get_locked_outputs: {p}")),
            Ok(Err(e)) => return Err(format!("get_locked_outputs failed: {e:?}")),
            Ok(Ok(v)) => v,
        };
        let got: BTreeSet<OutputRef> = got.into_iter().collect();
        let want: BTreeSet<OutputRef> = m.locked_now(env, acct).into_iter().map(|k| env.note_ref(k)).collect();
        if got != want {
            let names = |s: &BTreeSet<OutputRef>| -> Vec<String> {
                s.iter().map(|r| m.seen.iter().chain(m.locks.keys()).find(|k| env.note_ref(**k) == *r).map(|k| env.label(*k)).unwrap_or(format!("{r:?}"))).collect()
            };
            return Err(format!("get_locked_outputs({acct:?}) = {:?} but the reference lock table (target height {}) says {:?}", names(&got), m.target(), names(&want)));
        }
    }
    Ok(())
}

pub enum Step {
    /// the operation was performed; new model; outcome labels
    Done(Model, Vec<String>),
    /// the operation was (correctly) refused and left the wallet unchanged
    Refused(Vec<String>),
}

/// Execute `op` on the real wallet `w` (which holds the state described by `m`).
pub fn apply(env: &Env, w: &mut Wallet, m: &Model, op: &Op) -> Result<Step, String> {
    let mut n = m.clone();
    let mut outs = vec![];
    match op {
        Op::Lock { owner: o, set, far } => {
            let keys = lock_set(env, *set);
            let refs: Vec<OutputRef> = keys.iter().map(|k| env.note_ref(*k)).collect();
            let expiry = m.tip + if *far { 50 } else { 1 };
            // documented acquisition rule: no lock, lock expired as of the chain tip, or same owner
            let blockers: Vec<NoteKey> = keys.iter().copied().filter(|k| !m.seen.contains(k) || m.locks.get(k).is_some_and(|(lo, le)| *lo != *o && *le > m.tip)).collect();
            let before = lock_rows(w.db.conn());
            let r = mc_core::catch(|| w.db.lock_outputs(&refs, owner(*o), BlockHeight::from_u32(expiry)));
            let r = r.map_err(|p| format!("panic in lock_outputs: {p}"))?;
            match (r, blockers.is_empty()) {
                (Ok(cnt), true) => {
                    if cnt != refs.len() {
                        return Err(format!("lock_outputs locked {cnt} rows for {} references", refs.len()));
                    }
                    let relock = keys.iter().any(|k| m.locks.get(k).is_some_and(|(lo, le)| *lo == *o && *le > m.tip));
                    let over_expired = keys.iter().any(|k| m.locks.get(k).is_some_and(|(lo, le)| *lo != *o && *le <= m.tip));
                    for k in keys {
                        n.locks.insert(k, (*o, expiry));
                    }
                    outs.push(if relock { "lock:ok:same-owner-relock" } else if over_expired { "lock:ok:over-expired-foreign-lock" } else { "lock:ok" }.to_string());
                }
                (Err(LockError::LockFailure(r)), false) => {
                    if !blockers.iter().any(|k| env.note_ref(*k) == r) {
                        return Err(format!("lock_outputs failed naming {r:?}, which is lockable; the outputs that are not: {:?}", blockers.iter().map(|k| env.label(*k)).collect::<Vec<_>>()));
                    }
                    let after = lock_rows(w.db.conn());
                    if before != after {
                        return Err(format!("lock_outputs failed (conflict on {:?}) but lock state changed: before {before:?} after {after:?}", blockers.iter().map(|k| env.label(*k)).collect::<Vec<_>>()));
                    }
                    outs.push(if blockers.iter().any(|k| !m.seen.contains(k)) { "lock:refused:unknown-output" } else { "lock:refused:foreign-active-lock" }.to_string());
                    return Ok(Step::Refused(outs));
                }
                (Ok(_), false) => {
                    return Err(format!(
                        "lock_outputs by owner {} succeeded although {:?} is held by an unexpired lock of another owner (or unknown); locks: {:?}, tip {}",
                        o,
                        blockers.iter().map(|k| env.label(*k)).collect::<Vec<_>>(),
                        m.locks,
                        m.tip
                    ))
                }
                (Err(e), true) => return Err(format!("lock_outputs by owner {o} failed ({e:?}) although every output is unlocked, expired as of the tip {} or held by the same owner; locks: {:?}", m.tip, m.locks)),
                (Err(e), false) => return Err(format!("lock_outputs failed with a storage error: {e:?}")),
            }
        }
        Op::Unlock { owner: o, note } => {
            let want = m.locks.get(note).is_some_and(|(lo, _)| lo == o);
            let r = mc_core::catch(|| w.db.unlock_output(&env.note_ref(*note), owner(*o))).map_err(|p| format!("panic in unlock_output: {p}"))?;
            let got = r.map_err(|e| format!("unlock_output failed: {e:?}"))?;
            if got != want {
                return Err(format!("unlock_output({}, owner {o}) returned {got}, reference lock table says {want} (locks {:?})", env.label(*note), m.locks));
            }
            if !got {
                outs.push("unlock:not-owner".into());
                return Ok(Step::Refused(outs));
            }
            n.locks.remove(note);
            outs.push("unlock:ok".into());
        }
        Op::Clear { acct_b } => {
            let (acct, id) = if *acct_b { (Owner::B, w.acct_b) } else { (Owner::A, w.acct_a) };
            let want: Vec<NoteKey> = m.locks.keys().copied().filter(|k| note_owner(env, *k) == acct).collect();
            let r = mc_core::catch(|| w.db.clear_locked_outputs(id)).map_err(|p| format!("panic in clear_locked_outputs: {p}"))?;
            let got = r.map_err(|e| format!("clear_locked_outputs failed: {e:?}"))?;
            if got != want.len() {
                return Err(format!("clear_locked_outputs({acct:?}) released {got} outputs, reference lock table holds {} for that account", want.len()));
            }
            if want.is_empty() {
                outs.push("clear:nothing".into());
                return Ok(Step::Refused(outs));
            }
            for k in want {
                n.locks.remove(&k);
            }
            outs.push("clear:ok".into());
        }
        Op::Store { p } => {
            env.store_pending(w, *p)?;
            n.stored.insert(*p);
            // documented release path: outputs recorded as spent are unlocked
            for i in &env.pend[*p].spends {
                if n.locks.remove(&NoteKey::U(*i)).is_some() {
                    outs.push("store:unlocked-spent-input".into());
                }
            }
            for i in &env.pend[*p].utxo_spends {
                if m.seen.contains(&NoteKey::T(*i)) {
                    outs.push("store:spends-known-coin".into());
                    if n.locks.remove(&NoteKey::T(*i)).is_some() {
                        outs.push("store:unlocked-spent-input".into());
                    }
                } else {
                    outs.push("store:spends-coin-not-yet-known".into());
                }
            }
            for o in env.pend[*p].outs.iter().filter(|o| o.owner == Owner::A) {
                n.seen.insert(NoteKey::D(*p, o.index));
            }
            outs.push("store:ok".into());
        }
        Op::Advance { k } => {
            let to = m.tip + k;
            while n.chain.end() < to {
                n.chain.dynb.push(None);
            }
            env.scan(w, &n.chain, m.tip + 1, to, true)?;
            n.tip = to;
            n.mark_seen(env, m.tip + 1, to);
            outs.push("advance".into());
        }
        Op::Mine { p } => {
            if m.tip < n.chain.base_upto {
                // fork off the universe chain here
                n.chain.base_upto = m.tip;
                n.chain.dynb.clear();
            }
            n.chain.dynb.truncate((m.tip - n.chain.base_upto) as usize);
            n.chain.dynb.push(Some(*p));
            let h = m.tip + 1;
            env.scan(w, &n.chain, h, h, true)?;
            n.tip = h;
            n.mark_seen(env, h, h);
            outs.push("mine".into());
        }
        Op::Rewind { back } => {
            let h = m.tip - back;
            let r = mc_core::catch(|| w.db.truncate_to_height(BlockHeight::from_u32(h))).map_err(|p| format!("panic in truncate_to_height({h}): {p}"))?;
            match r {
                Err(e) => {
                    outs.push(format!("rewind:refused:{}", oracle::err_kind(&format!("{e:?}"))));
                    return Ok(Step::Refused(outs));
                }
                Ok(r) => {
                    let r = u32::from(r);
                    if r > h || r < uni::F || m.gap.is_some_and(|(_, e)| r <= e) {
                        return Err(format!("truncate_to_height({h}) reported truncation to {r}"));
                    }
                    n.tip = r;
                    for (i, t) in env.utxos.iter().enumerate() {
                        if t.height > r && m.seen.contains(&NoteKey::T(i)) {
                            n.utxo_unmined.insert(i);
                        }
                    }
                    if r <= n.chain.base_upto {
                        n.chain.dynb.clear();
                    } else {
                        n.chain.dynb.truncate((r - n.chain.base_upto) as usize);
                    }
                    outs.push(if r == h { "rewind:exact".into() } else { "rewind:lower".into() });
                }
            }
        }
        Op::PutUtxo { i } => {
            env.put_utxo(w, *i)?;
            n.seen.insert(NoteKey::T(*i));
            n.utxo_unmined.remove(i);
            let spender_stored = env.pend.iter().enumerate().any(|(p, pd)| pd.utxo_spends.contains(i) && m.stored.contains(&p));
            outs.push(if spender_stored { "pututxo:spender-stored-before-coin" } else { "pututxo:coin-first" }.into());
        }
        Op::FillGap => {
            let (a, b) = m.gap.expect("FillGap is enabled only while the gap is open");
            env.scan(w, &m.chain, a, b, false)?;
            n.gap = None;
            n.mark_seen(env, a, b);
            outs.push("fillgap".into());
        }
        Op::Propose { req } => {
            let ledger = m.ledger(env);
            let before = lock_rows(w.db.conn());
            let mut cache = oracle::WitnessCache::default();
            let res = oracle::run_request(env, w, m, &ledger, req, &mut cache)?;
            outs.extend(res.outcomes.iter().map(|o| format!("lockprop:{o}")));
            match res.inputs {
                None => {
                    let after = lock_rows(w.db.conn());
                    if before != after {
                        return Err(format!("proposal with a lock request failed ({}) but lock state changed: before {before:?} after {after:?}", res.outcomes.join(",")));
                    }
                    return Ok(Step::Refused(outs));
                }
                Some(inputs) => {
                    let (o, for_blocks) = req.lock.expect("Propose ops carry a lock request");
                    let expiry = m.target() + for_blocks;
                    for k in inputs {
                        // documented: every selected input is locked on behalf of the owner until target + for_blocks
                        if let Some((lo, le)) = m.locks.get(&k) {
                            if *lo != o && *le > m.tip {
                                return Err(format!("proposal locked {} for owner {o} although it is held by an unexpired lock of owner {lo}", env.label(k)));
                            }
                        }
                        n.locks.insert(k, (o, expiry));
                    }
                }
            }
        }
    }
    Ok(Step::Done(n, outs))
}
