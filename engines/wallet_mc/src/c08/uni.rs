//! The block universe of the C08 exploration.
//!
//! Account A holds, at the universe tip `T0`, notes on each side of every comparison in the
//! spendability predicates (`zcash_client_sqlite/src/wallet/common.rs`):
//!
//!  * pools: Sapling, Orchard, Ironwood (pool preference / `permits_shielded`);
//!  * values: 5_000 (== MARGINAL_FEE, `value > :min_value` is false), 5_001 (just above), ordinary
//!    values 20_000..200_000 and one 1_200_000 Orchard note (covers the canonical ZIP 318
//!    denomination 1_000_000, so the bucketed-anchor branch of `propose_transfer` is reachable);
//!  * canonical ZIP 318 denominations 1_000_000 / 2_000_000 / 5_000_000 to an Orchard receiver are
//!    each covered by exactly one oldest single Orchard note: `o1m` (mined long before the bucketed
//!    anchor boundary), `o2b` (mined exactly at it) and `o5r` (mined after it, yet confirmed for the
//!    ordinary policy) -- one symbol on each side of `t.block <= :anchor_height` for the bucketed
//!    anchor of `propose_transfer`'s canonical-crossing attempt;
//!  * confirmations at `T0` (target `T0 + 1`): external notes with exactly 10 and exactly 9
//!    confirmations, internal (change) notes with exactly 3 and exactly 2, and an external note
//!    received in the tip block (1 confirmation) -- both sides of `trusted = 3` / `untrusted = 10`;
//!  * ownership: one note of account B in the same block as a note of A, foreign outputs;
//!  * one note of A already spent on chain (spend in a later block than the receipt);
//!  * NU6.3 activates at `N63` so that a wallet scanned to `SHORT_TIP` proposes for a pre-NU6.3
//!    target height and one scanned to `T0` for a post-NU6.3 one;
//!  * the genesis frontiers end two leaves below a 2^16 shard boundary, so the first notes of A
//!    sit in shard 0 and the rest in shard 1 (`v_*_shards_scan_state` gating is per shard); `s25` is
//!    the second leaf of Sapling shard 1 and is followed by the blocks the `gap` start state leaves
//!    unscanned.

use crate::universe::Owner::*;
use crate::universe::Pool::*;
use crate::universe::Scope::*;
use crate::universe::*;

pub const F: u32 = 100_100;
pub const SHARD: u64 = 1 << 16;
/// Tip of the wallet in the `short` start state (target height F+5 < N63).
pub const SHORT_TIP: u32 = F + 4;
/// NU6.3 activation height.
pub const N63: u32 = F + 6;
/// Last block of the universe.
pub const T0: u32 = F + 18;
/// The `gap` start state scans F..GAP.0-1 and GAP.1+1..T0; blocks GAP.0..=GAP.1 are scanned later
/// by `FillGap`. The gap lies inside shard 1, after the receipt of `s25` (whose Merkle path then needs
/// commitments of unscanned blocks) and before the receipts of F+6..T0 (whose paths do not).
pub const GAP: (u32, u32) = (F + 2, F + 5);
/// Anchor retention interval of the wallets (also the ZIP 318 anchor bucket grid).
pub const RETENTION: u32 = 4;

pub fn build() -> Universe {
    let mut u = Universe::new(Some(N63), F, (SHARD - 2, SHARD - 2), 0xc08);
    let mut blocks: Vec<BlockSpec> = vec![];
    // F+0
    blocks.push(block(vec![tx(vec![out("s60", A, Sapling, External, 60_000), foreign(Sapling, 11_111)])]));
    // F+1: two transactions; B's note next to A's
    blocks.push(block(vec![
        tx(vec![foreign(Orchard, 22_222), out("o70", A, Orchard, External, 70_000)]),
        tx(vec![out("b1", B, Sapling, External, 30_000), out("s25", A, Sapling, External, 25_000), out("b2", B, Orchard, External, 33_000)]),
    ]));
    // F+2: the note that is spent on chain at F+5, and the big Orchard note
    blocks.push(block(vec![tx(vec![out("sx", A, Sapling, External, 45_000), out("o1m", A, Orchard, External, 1_200_000)])]));
    // F+3
    blocks.push(block(vec![tx(vec![out("s70", A, Sapling, External, 70_000), out("o200", A, Orchard, Internal, 200_000)])]));
    // F+4 = SHORT_TIP: change-scoped note and dust on both sides of the marginal fee
    blocks.push(block(vec![tx(vec![
        out("s40", A, Sapling, Internal, 40_000),
        out("d5", A, Sapling, External, 5_000),
        out("d5o", A, Orchard, Diversified, 5_001),
    ])]));
    // F+5: spend sx -> change sxc + foreign payment
    blocks.push(block(vec![tx(vec![spend("sx"), out("sxc", A, Sapling, Internal, 35_000), foreign(Sapling, 5_000)])]));
    // F+6 = N63: Ironwood receipt
    blocks.push(block(vec![tx(vec![out("i50", A, Ironwood, External, 50_000), foreign(Ironwood, 7_777)])]));
    // F+7, F+8 empty
    blocks.extend(empties(2));
    // F+9 = T0-9: external note with exactly 10 confirmations at T0
    blocks.push(block(vec![tx(vec![out("e10", A, Sapling, External, 20_000)])]));
    // F+10 = T0-8: external note with exactly 9 confirmations at T0
    blocks.push(block(vec![tx(vec![out("e9", A, Sapling, External, 21_000)])]));
    // F+11 empty
    blocks.extend(empties(1));
    // F+12 = 100_112: a retained grid boundary (interval 4) and, for target heights T0-2..=T0+1, the
    // *bucketed* anchor of a canonical ZIP 318 crossing (one interval below the most recent
    // boundary at or below the ordinary anchor). `o2b` is mined exactly AT that boundary.
    blocks.push(block(vec![tx(vec![out("o2b", A, Orchard, Internal, 2_200_000)])]));
    // F+13 empty
    blocks.extend(empties(1));
    // F+14: `o5r` is mined AFTER the bucketed boundary but has the 3 (trusted) / 1 (MIN)
    // confirmations the caller's ordinary policy asks for at T0: it is the oldest single Orchard
    // note covering 5_000_000, and is not in the tree at the bucketed anchor.
    blocks.push(block(vec![tx(vec![out("o5r", A, Orchard, Internal, 5_500_000)])]));
    // F+15 empty
    blocks.extend(empties(1));
    // F+16 = T0-2: change note with exactly 3 confirmations at T0
    blocks.push(block(vec![tx(vec![out("c3", A, Sapling, Internal, 22_000)])]));
    // F+17 = T0-1: change note with exactly 2 confirmations at T0
    blocks.push(block(vec![tx(vec![out("c2", A, Orchard, Internal, 23_000)])]));
    // F+18 = T0: received in the tip block
    blocks.push(block(vec![tx(vec![out("fresh", A, Sapling, External, 24_000), foreign(Orchard, 1_234)])]));
    assert_eq!(blocks.len() as u32, T0 - F + 1);
    u.extend(0, None, &blocks, 0xc08_0001);
    u.segment_break();
    u
}
