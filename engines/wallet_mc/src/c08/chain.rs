//! Environment of the C08 exploration: the universe, the pre-built pending transactions and the
//! *dynamic chain* (universe blocks up to some height, followed by blocks created by the explorer:
//! empty ones and ones containing a pending transaction), with its ground truth (block hashes,
//! note-commitment frontiers after every block).

use std::convert::Infallible;

use incrementalmerkletree::frontier::Frontier;
use orchard::tree::MerkleHashOrchard;
use serde::{Deserialize, Serialize};
use sha2::{Digest, Sha256};
use zcash_client_backend::address::Address;
use zcash_client_backend::data_api::chain::{error::Error as ChainError, scan_cached_blocks, BlockSource, ChainState};
use zcash_client_backend::data_api::wallet::{create_proposed_transactions, propose_standard_transfer_to_address, ConfirmationsPolicy, SpendingKeys};
use zcash_client_backend::data_api::{OutputLockStore, WalletRead, WalletWrite};
use zcash_client_backend::fees::StandardFeeRule;
use zcash_client_backend::proto::compact_formats::{ChainMetadata, CompactBlock, CompactTx};
use zcash_client_backend::wallet::{LockOwner, OutputRef, OvkPolicy};
use zcash_keys::keys::UnifiedAddressRequest;
use zcash_primitives::block::BlockHash;
use zcash_primitives::transaction::{Transaction, TxId};
use zcash_protocol::consensus::BlockHeight;
use zcash_protocol::value::Zatoshis;
use zcash_protocol::{PoolType, ShieldedPool};
use zcash_transparent::address::TransparentAddress;

use crate::db::{self, Snapshot, Wallet};
use crate::universe::{Nf, Owner, Pool, Scope, Universe};

use super::uni;

#[derive(Clone, Copy, Debug, PartialEq, Eq, PartialOrd, Ord, Hash, Serialize, Deserialize)]
pub enum NoteKey {
    /// note of the universe (index into `Universe::notes`)
    U(usize),
    /// Sapling output `.1` of pending transaction `.0`
    D(usize, usize),
    /// transparent UTXO (index into `Env::utxos`)
    T(usize),
}

/// A transparent coin the wallet is told about through `put_received_transparent_utxo` (compact
/// blocks carry no transparent data). Ground truth: received at the default transparent address
/// of `owner` in a transaction mined at `height`; never spent.
pub struct Utxo {
    pub label: &'static str,
    pub owner: Owner,
    pub value: u64,
    pub height: u32,
    pub hash: [u8; 32],
    /// not reported in the start states: the explorer reports it with the `PutUtxo` operation
    pub late: bool,
    /// spent by pending transaction 2 (the shielding transaction)
    pub p2: bool,
}

/// Which blocks make up the current chain: universe blocks F..=base_upto, then `dynb`.
#[derive(Clone, Debug, PartialEq, Eq, Hash, Serialize, Deserialize)]
pub struct ChainDesc {
    pub base_upto: u32,
    /// block at height base_upto+1+i: None = empty block, Some(p) = block containing pending tx p
    pub dynb: Vec<Option<usize>>,
}

impl ChainDesc {
    pub fn end(&self) -> u32 {
        self.base_upto + self.dynb.len() as u32
    }
    /// Height at which pending transaction `p` is mined on this chain, if at all.
    pub fn mined_at(&self, p: usize) -> Option<u32> {
        self.dynb.iter().position(|b| *b == Some(p)).map(|i| self.base_upto + 1 + i as u32)
    }
}

/// One output of a pending transaction (ground truth established by trial decryption with the
/// keys of the universe when the transaction was built).
#[derive(Clone)]
pub struct PendOut {
    pub index: usize,
    pub owner: Owner,
    pub scope: Scope,
    pub value: u64,
    pub cm: [u8; 32],
    pub note: sapling::Note,
}

pub struct Pending {
    pub tx: Transaction,
    pub txid: [u8; 32],
    pub ctx: CompactTx,
    pub build_target: u32,
    pub expiry: u32,
    /// universe notes spent
    pub spends: Vec<usize>,
    /// transparent coins spent (indices into `Env::utxos`)
    pub utxo_spends: Vec<usize>,
    /// real outputs (padding outputs that decrypt under no key of the universe are left out)
    pub outs: Vec<PendOut>,
    pub fee: u64,
}

pub struct Env {
    pub u: Universe,
    pub pend: Vec<Pending>,
    pub addr_sapling: Address,
    pub addr_unified: Address,
    pub addr_transparent: Address,
    pub addr_tex: Address,
    pub utxos: Vec<Utxo>,
    pub taddr_a: TransparentAddress,
    pub taddr_b: TransparentAddress,
    /// Start-state snapshots: (name, snapshot, unscanned gap, tip)
    pub starts: Vec<(&'static str, Snapshot, Option<(u32, u32)>, u32)>,
}

pub const OWNER_X: LockOwner = LockOwner::new([0x11; 32]);
pub const OWNER_Y: LockOwner = LockOwner::new([0x22; 32]);
pub const OWNER_Z: LockOwner = LockOwner::new([0x33; 32]);

pub fn owner(i: u8) -> LockOwner {
    match i {
        0 => OWNER_X,
        1 => OWNER_Y,
        _ => OWNER_Z,
    }
}

pub fn pool_type(p: Pool) -> PoolType {
    PoolType::Shielded(shielded(p))
}
pub fn shielded(p: Pool) -> ShieldedPool {
    match p {
        Pool::Sapling => ShieldedPool::Sapling,
        Pool::Orchard => ShieldedPool::Orchard,
        Pool::Ironwood => ShieldedPool::Ironwood,
    }
}
pub fn pool_of(p: ShieldedPool) -> Pool {
    match p {
        ShieldedPool::Sapling => Pool::Sapling,
        ShieldedPool::Orchard => Pool::Orchard,
        ShieldedPool::Ironwood => Pool::Ironwood,
    }
}

/// `BlockSource` over an explicit list of blocks.
pub struct VecSource(pub Vec<CompactBlock>);

impl BlockSource for VecSource {
    type Error = Infallible;
    fn with_blocks<F, WalletErrT>(&self, from_height: Option<BlockHeight>, limit: Option<usize>, mut with_block: F) -> Result<(), ChainError<WalletErrT, Infallible>>
    where
        F: FnMut(CompactBlock) -> Result<(), ChainError<WalletErrT, Infallible>>,
    {
        let from = from_height.map(u32::from).unwrap_or(0) as u64;
        for b in self.0.iter().filter(|b| b.height >= from).take(limit.unwrap_or(usize::MAX)) {
            with_block(b.clone())?;
        }
        Ok(())
    }
}

type Frontiers = (Frontier<sapling::Node, 32>, Frontier<MerkleHashOrchard, 32>, Frontier<MerkleHashOrchard, 32>);

impl Env {
    pub fn note_ref(&self, k: NoteKey) -> OutputRef {
        match k {
            NoteKey::U(i) => {
                let n = &self.u.notes[i];
                OutputRef::new(TxId::from_bytes(n.txid), pool_type(n.pool), n.output_index as u32)
            }
            NoteKey::D(p, i) => OutputRef::new(TxId::from_bytes(self.pend[p].txid), PoolType::SAPLING, i as u32),
            NoteKey::T(i) => OutputRef::new(TxId::from_bytes(self.utxos[i].hash), PoolType::TRANSPARENT, 0),
        }
    }

    /// Tell the wallet about every transparent coin mined at or below `tip`.
    fn put_utxos(&self, w: &mut Wallet, tip: u32) {
        for i in 0..self.utxos.len() {
            if self.utxos[i].height <= tip && !self.utxos[i].late {
                self.put_utxo(w, i).expect("put_received_transparent_utxo");
            }
        }
    }

    /// `put_received_transparent_utxo` for coin `i` (the address-UTXO-query path: the coin is
    /// reported as a member of the UTXO set, mined at its height).
    pub fn put_utxo(&self, w: &mut Wallet, i: usize) -> Result<(), String> {
        use zcash_client_backend::wallet::WalletTransparentOutput;
        use zcash_transparent::bundle::{OutPoint, TxOut};
        use zcash_transparent::keys::TransparentKeyScope;
        let t = &self.utxos[i];
        let (addr, acct) = if t.owner == Owner::A { (&self.taddr_a, w.acct_a) } else { (&self.taddr_b, w.acct_b) };
        let out = WalletTransparentOutput::from_parts(
            OutPoint::new(t.hash, 0),
            TxOut::new(Zatoshis::from_u64(t.value).unwrap(), addr.script().into()),
            Some(BlockHeight::from_u32(t.height)),
            Some(acct),
            Some(TransparentKeyScope::EXTERNAL),
            None,
        )
        .expect("p2pkh output");
        match mc_core::catch(|| w.db.put_received_transparent_utxo(&out)) {
            Err(p) => Err(format!("panic in put_received_transparent_utxo({}): {p}", t.label)),
            Ok(Err(e)) => Err(format!("put_received_transparent_utxo({}) failed: {e:?}", t.label)),
            Ok(Ok(_)) => Ok(()),
        }
    }

    pub fn label(&self, k: NoteKey) -> String {
        match k {
            NoteKey::U(i) => self.u.notes[i].label.map(|s| s.to_string()).unwrap_or(format!("u{i}")),
            NoteKey::D(p, i) => format!("P{p}.out{i}"),
            NoteKey::T(i) => self.utxos[i].label.to_string(),
        }
    }

    fn uni_block(&self, h: u32) -> &crate::universe::BlockRec {
        &self.u.chains[0].blocks[&h]
    }

    pub fn hash_at(&self, c: &ChainDesc, h: u32) -> [u8; 32] {
        if h + 1 == self.u.first {
            return self.u.genesis.block_hash().0;
        }
        if h <= c.base_upto {
            return self.uni_block(h).cb.hash.clone().try_into().unwrap();
        }
        let mut d = Sha256::new();
        d.update(b"c08-dyn");
        d.update(c.base_upto.to_le_bytes());
        d.update(h.to_le_bytes());
        for b in &c.dynb[..(h - c.base_upto) as usize] {
            d.update([b.map(|p| p as u8 + 1).unwrap_or(0)]);
        }
        d.finalize().into()
    }

    fn frontiers_after(&self, c: &ChainDesc, h: u32) -> Frontiers {
        let base = if h + 1 == self.u.first { &self.u.genesis } else { &self.uni_block(h.min(c.base_upto)).state_after };
        let mut f: Frontiers = (base.final_sapling_tree().clone(), base.final_orchard_tree().clone(), base.final_ironwood_tree().clone());
        if h > c.base_upto {
            for b in c.dynb[..(h - c.base_upto) as usize].iter().flatten() {
                self.append_tx(&mut f, *b);
            }
        }
        f
    }

    fn append_tx(&self, f: &mut Frontiers, p: usize) {
        let ctx = &self.pend[p].ctx;
        for o in &ctx.outputs {
            f.0.append(sapling::Node::from_cmu(&o.cmu().expect("cmu")));
        }
        for a in &ctx.actions {
            f.1.append(MerkleHashOrchard::from_cmx(&a.cmx().expect("cmx")));
        }
        for a in &ctx.ironwood_actions {
            f.2.append(MerkleHashOrchard::from_cmx(&a.cmx().expect("cmx")));
        }
    }

    /// Chain state (block hash and frontiers of all pools) after block `h` of chain `c`.
    pub fn state_after(&self, c: &ChainDesc, h: u32) -> ChainState {
        let f = self.frontiers_after(c, h);
        ChainState::new(BlockHeight::from_u32(h), BlockHash(self.hash_at(c, h)), f.0, f.1, f.2)
    }

    /// True note-commitment-tree root of `pool` after block `h`.
    pub fn truth_root(&self, c: &ChainDesc, pool: Pool, h: u32) -> [u8; 32] {
        let f = self.frontiers_after(c, h);
        match pool {
            Pool::Sapling => f.0.root().to_bytes(),
            Pool::Orchard => f.1.root().to_bytes(),
            Pool::Ironwood => f.2.root().to_bytes(),
        }
    }

    /// Tree size of the Sapling tree after block `h`.
    pub fn sapling_size_after(&self, c: &ChainDesc, h: u32) -> u64 {
        self.frontiers_after(c, h).0.tree_size()
    }

    pub fn block(&self, c: &ChainDesc, h: u32) -> CompactBlock {
        if h <= c.base_upto {
            return self.uni_block(h).cb.clone();
        }
        let content = c.dynb[(h - c.base_upto - 1) as usize];
        let f = self.frontiers_after(c, h);
        let mut vtx = vec![];
        if let Some(p) = content {
            let mut ctx = self.pend[p].ctx.clone();
            ctx.index = 1;
            vtx.push(ctx);
        }
        CompactBlock {
            hash: self.hash_at(c, h).to_vec(),
            height: h as u64,
            prev_hash: self.hash_at(c, h - 1).to_vec(),
            time: 1_700_000_000 + h,
            vtx,
            chain_metadata: Some(ChainMetadata {
                sapling_commitment_tree_size: f.0.tree_size() as u32,
                orchard_commitment_tree_size: f.1.tree_size() as u32,
                ironwood_commitment_tree_size: f.2.tree_size() as u32,
            }),
            ..Default::default()
        }
    }

    /// update_chain_tip(to) (if `with_tip`) then scan_cached_blocks(from..=to) of chain `c`.
    pub fn scan(&self, w: &mut Wallet, c: &ChainDesc, from: u32, to: u32, with_tip: bool) -> Result<(), String> {
        if with_tip {
            match mc_core::catch(|| w.db.update_chain_tip(BlockHeight::from_u32(to))) {
                Err(p) => return Err(format!("panic in update_chain_tip({to}): {p}")),
                Ok(Err(e)) => return Err(format!("update_chain_tip({to}) failed: {e:?}")),
                Ok(Ok(())) => {}
            }
        }
        let src = VecSource((from..=to).map(|h| self.block(c, h)).collect());
        let st = self.state_after(c, from - 1);
        let r = mc_core::catch(|| scan_cached_blocks(&self.u.network, &src, &mut w.db, BlockHeight::from_u32(from), &st, (to - from + 1) as usize));
        match r {
            Err(p) => Err(format!("panic in scan_cached_blocks({from}..={to}): {p}")),
            Ok(Err(e)) => Err(format!("scan_cached_blocks({from}..={to}) on a well-formed connected chain failed: {e:?}")),
            Ok(Ok(s)) => {
                let got = (u32::from(s.scanned_range().start), u32::from(s.scanned_range().end));
                if got != (from, to + 1) {
                    return Err(format!("scan summary range {got:?} != requested {from}..{}", to + 1));
                }
                Ok(())
            }
        }
    }

    /// Store pending transaction `p` through the documented path for transactions created by the
    /// wallet (`WalletWrite::store_transactions_to_be_sent`).
    pub fn store_pending(&self, w: &mut Wallet, p: usize) -> Result<(), String> {
        self.store_pending_batch(w, &[p])
    }

    /// One `store_transactions_to_be_sent` call for the pending transactions `ps` (a multi-step
    /// proposal stores its transactions as one batch).
    pub fn store_pending_batch(&self, w: &mut Wallet, ps: &[usize]) -> Result<(), String> {
        use zcash_client_backend::data_api::{SentTransaction, SentTransactionOutput};
        use zcash_client_backend::wallet::{Note, Recipient};
        let acct = w.acct_a;
        let outputs: Vec<Vec<SentTransactionOutput<_>>> = ps
            .iter()
            .map(|p| {
                self.pend[*p]
                    .outs
                    .iter()
                    .map(|o| {
                        let recipient = match o.owner {
                            Owner::A => Recipient::InternalShielded { receiving_account: acct, external_address: None, note: Box::new(Note::Sapling(o.note.clone())) },
                            _ => Recipient::External { recipient_address: self.addr_sapling.to_zcash_address(&self.u.network), output_pool: PoolType::SAPLING },
                        };
                        SentTransactionOutput::from_parts(o.index, recipient, Zatoshis::from_u64(o.value).unwrap(), None)
                    })
                    .collect()
            })
            .collect();
        let created = time::OffsetDateTime::from_unix_timestamp(1_740_441_600).unwrap();
        let outpoints: Vec<Vec<zcash_transparent::bundle::OutPoint>> = ps.iter().map(|p| self.pend[*p].utxo_spends.iter().map(|i| zcash_transparent::bundle::OutPoint::new(self.utxos[*i].hash, 0)).collect()).collect();
        let sent: Vec<SentTransaction<_>> = ps
            .iter()
            .zip(outputs.iter().zip(outpoints.iter()))
            .map(|(p, (outs, spent))| {
                let pd = &self.pend[*p];
                SentTransaction::new(&pd.tx, created, BlockHeight::from_u32(pd.build_target).into(), acct, outs, Zatoshis::from_u64(pd.fee).unwrap(), spent)
            })
            .collect();
        match mc_core::catch(|| w.db.store_transactions_to_be_sent(&sent)) {
            Err(pn) => Err(format!("panic in store_transactions_to_be_sent(P{ps:?}): {pn}")),
            Ok(Err(e)) => Err(format!("store_transactions_to_be_sent(P{ps:?}) failed: {e:?}")),
            Ok(Ok(())) => Ok(()),
        }
    }

    /// `Err` = the scratch proposals from which the pending transactions are built already violate
    /// the property (reported as a violation by the caller, not as a harness failure).
    pub fn build() -> Result<Env, String> {
        let u = uni::build();
        let net = u.network;
        let addr_sapling = Address::Sapling(u.keys.ufvk_f.sapling().unwrap().default_address().1);
        let addr_unified = Address::Unified(u.keys.ufvk_f.default_address(UnifiedAddressRequest::AllAvailableKeys).expect("foreign UA").0);
        let addr_transparent = Address::Transparent(TransparentAddress::PublicKeyHash([7u8; 20]));
        let addr_tex = Address::Tex([9u8; 20]);
        let mut w = db::new_wallet(&u, uni::RETENTION, false);
        let taddr = |w: &Wallet, id| *w.db.get_last_generated_address_matching(id, UnifiedAddressRequest::AllAvailableKeys).expect("address lookup").expect("default address").transparent().expect("transparent receiver");
        let (taddr_a, taddr_b) = (taddr(&w, w.acct_a), taddr(&w, w.acct_b));
        let utxos = vec![
            Utxo { label: "t80", owner: Owner::A, value: 80_000, height: uni::F + 3, hash: [0x80; 32], late: false, p2: false },
            Utxo { label: "t7", owner: Owner::A, value: 7_000, height: uni::SHORT_TIP, hash: [0x07; 32], late: false, p2: false },
            Utxo { label: "tb", owner: Owner::B, value: 50_000, height: uni::F + 3, hash: [0xb0; 32], late: false, p2: false },
            // reported late (PutUtxo); pending transaction 2 spends it
            Utxo { label: "t60", owner: Owner::A, value: 60_000, height: uni::F + 3, hash: [0x60; 32], late: true, p2: true },
            // a recent coin, shielded by pending transaction 2 together with the old coin t60: the
            // note that shielding produces is aged by the NEWEST shielded coin (ConfirmationsPolicy docs)
            Utxo { label: "t9n", owner: Owner::A, value: 90_000, height: uni::T0 - 2, hash: [0x90; 32], late: false, p2: true },
        ];
        let mut env = Env { u, pend: vec![], addr_sapling, addr_unified, addr_transparent, addr_tex, utxos, taddr_a, taddr_b, starts: vec![] };
        let base = ChainDesc { base_upto: uni::T0, dynb: vec![] };

        // start state 0: everything scanned in order
        env.scan(&mut w, &base, uni::F, uni::T0, true).expect("start state full");
        env.put_utxos(&mut w, uni::T0);
        env.starts.push(("full", db::snapshot(w.db.conn()), None, uni::T0));
        // start state 1: tip known, the newest blocks scanned first, then the oldest; GAP unscanned
        let mut wg = db::new_wallet(&env.u, uni::RETENTION, false);
        env.scan(&mut wg, &base, uni::GAP.1 + 1, uni::T0, true).expect("start state gap (recent part)");
        env.scan(&mut wg, &base, uni::F, uni::GAP.0 - 1, false).expect("start state gap (old part)");
        env.put_utxos(&mut wg, uni::T0);
        env.starts.push(("gap", db::snapshot(wg.db.conn()), Some(uni::GAP), uni::T0));
        // start state 2: scanned to SHORT_TIP only (target height below NU6.3 activation)
        let mut ws = db::new_wallet(&env.u, uni::RETENTION, false);
        env.scan(&mut ws, &base, uni::F, uni::SHORT_TIP, true).expect("start state short");
        env.put_utxos(&mut ws, uni::SHORT_TIP);
        env.starts.push(("short", db::snapshot(ws.db.conn()), None, uni::SHORT_TIP));

        // Pending transaction 0: built at target T0+1, spends what a 30_000 payment selects.
        let p0 = build_pending(&env, &mut w, uni::T0 + 1, 30_000, &[])?;
        env.pend.push(p0);
        // Pending transaction 1: built at target T0+2 (one empty block later) with the inputs of
        // pending 0 locked away, so that it spends a disjoint set; 90_000 needs two notes.
        db::restore(w.db.conn_mut(), &env.starts[0].1);
        w.refresh_accounts();
        let c1 = ChainDesc { base_upto: uni::T0, dynb: vec![None] };
        env.scan(&mut w, &c1, uni::T0 + 1, uni::T0 + 1, true).expect("scratch advance");
        let lock: Vec<NoteKey> = env.pend[0].spends.iter().map(|i| NoteKey::U(*i)).collect();
        let p1 = build_pending(&env, &mut w, uni::T0 + 2, 90_000, &lock)?;
        env.pend.push(p1);
        let (a, b) = (&env.pend[0].spends, &env.pend[1].spends);
        assert!(a.iter().all(|x| !b.contains(x)), "pending transactions spend disjoint note sets");
        // Pending transaction 2: a shielding transaction built at target T0+1 that spends the late
        // coin t60 only (the other coins of A are locked away on the scratch wallet) and returns
        // the value to account A as a Sapling note.
        db::restore(w.db.conn_mut(), &env.starts[0].1);
        w.refresh_accounts();
        let p2 = build_pending_shield(&env, &mut w, uni::T0 + 1)?;
        env.pend.push(p2);
        let _ = net;
        Ok(env)
    }
}

/// Build a real transaction on the scratch wallet `w` (whose target height must be
/// `expect_target`): propose a standard transfer of `amount` to the foreign Sapling address and
/// create it with the repository's builder (Sapling mock provers: proofs are not in scope here).
fn build_pending(env: &Env, w: &mut Wallet, expect_target: u32, amount: u64, locked: &[NoteKey]) -> Result<Pending, String> {
    use sapling::prover::mock::{MockOutputProver, MockSpendProver};
    let u = &env.u;
    if !locked.is_empty() {
        let refs: Vec<OutputRef> = locked.iter().map(|k| env.note_ref(*k)).collect();
        w.db.lock_outputs(&refs, OWNER_Z, BlockHeight::from_u32(expect_target + 1000)).expect("scratch lock");
    }
    let acct = w.acct_a;
    let proposal = propose_standard_transfer_to_address::<_, _, Infallible>(
        w.db.db_mut(),
        &u.network,
        StandardFeeRule::Zip317,
        acct,
        ConfirmationsPolicy::MIN,
        &env.addr_sapling,
        Zatoshis::from_u64(amount).unwrap(),
        None,
        None,
        ShieldedPool::Sapling,
        None,
        None,
    )
    .map_err(|e| format!("setup: a standard transfer of {amount} from the fully scanned wallet (target height {expect_target}) is refused: {e:?}"))?;
    if u32::from(proposal.min_target_height()) != expect_target {
        return Err(format!("setup: proposal target height {} != chain tip + 1 = {expect_target}", u32::from(proposal.min_target_height())));
    }
    let step = proposal.steps().first();
    let fee = u64::from(step.balance().fee_required());
    // the same ground-truth clauses the exploration applies, in the setup state (everything
    // scanned, no locks except the scratch lock, nothing pending)
    for n in step.shielded_inputs().iter().flat_map(|s| s.notes().iter()) {
        let txid: [u8; 32] = *n.txid().as_ref();
        let pool = pool_of(n.note().pool());
        let idx = n.output_index() as usize;
        let t = u.notes.iter().find(|t| t.txid == txid && t.pool == pool && t.output_index == idx).ok_or_else(|| format!("setup: selected input {}:{pool:?}:{idx} is not a note of the ground truth", hex::encode(txid)))?;
        let name = t.label.unwrap_or("?");
        if t.owner != Owner::A {
            return Err(format!("setup: selected input {name} belongs to account {:?}, not to the requested account A", t.owner));
        }
        if u.chains[0].blocks.values().any(|b| b.txs.iter().any(|x| x.spent.contains(&t.id))) {
            return Err(format!("setup: selected input {name} is spent on chain"));
        }
        if locked.contains(&NoteKey::U(t.id)) {
            return Err(format!("setup: selected input {name} is locked by another owner"));
        }
    }
    let txids = create_proposed_transactions::<_, _, Infallible, _, Infallible, _>(
        w.db.db_mut(),
        &u.network,
        &MockSpendProver,
        &MockOutputProver,
        &SpendingKeys::from_unified_spending_key(u.keys.usk_a.clone()),
        OvkPolicy::Sender,
        &proposal,
        None,
    )
    .map_err(|e| format!("setup: create_proposed_transactions failed on the wallet's own proposal: {e:?}"))?;
    extract_pending(env, w, *txids.first(), expect_target, fee, vec![])
}

/// Build the shielding transaction that spends the late coin.
fn build_pending_shield(env: &Env, w: &mut Wallet, expect_target: u32) -> Result<Pending, String> {
    use sapling::prover::mock::{MockOutputProver, MockSpendProver};
    use zcash_client_backend::data_api::wallet::input_selection::GreedyInputSelector;
    use zcash_client_backend::data_api::wallet::propose_shielding;
    use zcash_client_backend::data_api::CoinbaseFilter;
    use zcash_client_backend::fees::zip317::SingleOutputChangeStrategy;
    use zcash_client_backend::fees::DustOutputPolicy;
    let u = &env.u;
    let late: Vec<usize> = (0..env.utxos.len()).filter(|i| env.utxos[*i].p2).collect();
    for i in late.iter().filter(|i| env.utxos[**i].late) {
        env.put_utxo(w, *i)?;
    }
    let others: Vec<OutputRef> = (0..env.utxos.len()).filter(|i| !env.utxos[*i].p2 && env.utxos[*i].owner == Owner::A).map(|i| env.note_ref(NoteKey::T(i))).collect();
    w.db.lock_outputs(&others, OWNER_Z, BlockHeight::from_u32(expect_target + 1000)).expect("scratch lock of the other coins");
    let acct = w.acct_a;
    type Db = zcash_client_sqlite::WalletDb<rusqlite::Connection, zcash_protocol::local_consensus::LocalNetwork, zcash_client_sqlite::util::testing::FixedClock, rand_chacha::ChaChaRng>;
    let sel = GreedyInputSelector::<Db>::new();
    let cs = SingleOutputChangeStrategy::<StandardFeeRule, Db>::new(StandardFeeRule::Zip317, None, ShieldedPool::Sapling, DustOutputPolicy::default());
    let proposal = propose_shielding::<_, _, _, _, Infallible>(w.db.db_mut(), &u.network, &sel, &cs, Zatoshis::const_from_u64(10_000), &[env.taddr_a], acct, ConfirmationsPolicy::MIN, CoinbaseFilter::AllTransparentOutputs, None)
        .map_err(|e| format!("setup: shielding the late coin from the fully scanned wallet (target height {expect_target}) is refused: {e:?}"))?;
    let step = proposal.steps().first();
    let fee = u64::from(step.balance().fee_required());
    let mut spent = vec![];
    for t in step.transparent_inputs() {
        let i = env.utxos.iter().position(|x| x.hash == *t.outpoint().hash()).ok_or_else(|| format!("setup: shielding selected {:?}, not a coin of the ground truth", t.outpoint()))?;
        if !env.utxos[i].p2 {
            return Err(format!("setup: shielding selected coin {}, which is locked by another owner (or belongs to another account)", env.utxos[i].label));
        }
        spent.push(i);
    }
    spent.sort();
    if spent != late {
        return Err(format!("setup: shielding selected coins {spent:?}, expected the unlocked coins {late:?}"));
    }
    let txids = create_proposed_transactions::<_, _, Infallible, _, Infallible, Infallible>(
        w.db.db_mut(),
        &u.network,
        &MockSpendProver,
        &MockOutputProver,
        &SpendingKeys::from_unified_spending_key(u.keys.usk_a.clone()),
        OvkPolicy::Sender,
        &proposal,
        None,
    )
    .map_err(|e| format!("setup: create_proposed_transactions failed on the wallet's own shielding proposal: {e:?}"))?;
    extract_pending(env, w, *txids.first(), expect_target, fee, spent)
}

/// Read the created transaction back and establish its ground truth by trial decryption.
fn extract_pending(env: &Env, w: &mut Wallet, txid: TxId, expect_target: u32, fee: u64, utxo_spends: Vec<usize>) -> Result<Pending, String> {
    use sapling::note_encryption::{try_sapling_note_decryption, PreparedIncomingViewingKey, Zip212Enforcement};
    let u = &env.u;
    let tx = w.db.get_transaction(txid).expect("get_transaction").expect("created transaction is stored");
    let bundle = tx.sapling_bundle().expect("pending transactions are Sapling transactions");
    assert!(tx.orchard_bundle().is_none() && tx.ironwood_bundle().is_none(), "pending transaction has no Orchard/Ironwood bundle");
    let n_vin = tx.transparent_bundle().map(|b| b.vin.len()).unwrap_or(0);
    assert_eq!(n_vin, utxo_spends.len(), "transparent inputs of the pending transaction");
    assert!(tx.transparent_bundle().map(|b| b.vout.is_empty()).unwrap_or(true), "pending transaction has no transparent output");
    let mut ctx = CompactTx { index: 1, txid: txid.as_ref().to_vec(), ..Default::default() };
    let mut spends = vec![];
    for s in bundle.shielded_spends() {
        ctx.spends.push(s.into());
        let nf = s.nullifier().0.to_vec();
        let n = u.notes.iter().find(|n| matches!(&n.nf, Nf::Sapling(x) if x.0.to_vec() == nf)).expect("pending tx spends a universe note");
        assert_eq!(n.owner, Owner::A);
        spends.push(n.id);
    }
    let keys: Vec<(Owner, Scope, PreparedIncomingViewingKey)> = vec![
        (Owner::A, Scope::Internal, PreparedIncomingViewingKey::new(&u.keys.ufvk_a.sapling().unwrap().to_ivk(zip32::Scope::Internal))),
        (Owner::A, Scope::External, PreparedIncomingViewingKey::new(&u.keys.ufvk_a.sapling().unwrap().to_ivk(zip32::Scope::External))),
        (Owner::Foreign, Scope::External, PreparedIncomingViewingKey::new(&u.keys.ufvk_f.sapling().unwrap().to_ivk(zip32::Scope::External))),
    ];
    let mut outs = vec![];
    for (i, o) in bundle.shielded_outputs().iter().enumerate() {
        ctx.outputs.push(o.into());
        let mut found = None;
        for (owner, scope, ivk) in &keys {
            if let Some((note, _, _)) = try_sapling_note_decryption(ivk, o, Zip212Enforcement::On) {
                found = Some(PendOut { index: i, owner: *owner, scope: *scope, value: note.value().inner(), cm: o.cmu().to_bytes(), note });
                break;
            }
        }
        // an output that decrypts under no key of the universe is builder padding (value 0)
        if let Some(f) = found {
            outs.push(f);
        }
    }
    let in_total: u64 = spends.iter().map(|i| u.notes[*i].value).sum::<u64>() + utxo_spends.iter().map(|i| env.utxos[*i].value).sum::<u64>();
    let out_total: u64 = outs.iter().map(|o| o.value).sum();
    assert_eq!(in_total, out_total + fee, "pending transaction balances");
    Ok(Pending { txid: txid.as_ref().clone(), ctx, build_target: expect_target, expiry: u32::from(tx.expiry_height()), spends, utxo_spends, outs, fee, tx })
}
