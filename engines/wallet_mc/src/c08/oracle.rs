//! The request lattice, the calls into the real proposal functions, and the C08 oracle.

use std::collections::{BTreeSet, HashMap};
use std::convert::Infallible;
use std::num::NonZeroUsize;

use incrementalmerkletree::Position;
use orchard::tree::MerkleHashOrchard;
use rand_chacha::ChaChaRng;
use serde::{Deserialize, Serialize};
use zcash_client_backend::address::Address;
use zcash_client_backend::data_api::wallet::input_selection::{GreedyInputSelector, LockedInputPolicy, NonEmptyBTreeSet, SpendPolicy, TransparentSpendPolicy};
use zcash_client_backend::data_api::wallet::{propose_send_max_transfer, propose_shielding, propose_standard_transfer_to_address, propose_transfer, ConfirmationsPolicy, LockRequest};
use zcash_client_backend::data_api::{CoinbaseFilter, MaxSpendMode, WalletCommitmentTrees};
use zcash_client_backend::fees::zip317::{MultiOutputChangeStrategy, SingleOutputChangeStrategy};
use zcash_client_backend::fees::{DustOutputPolicy, SplitPolicy, StandardFeeRule};
use zcash_client_backend::proposal::{Proposal, StepOutputIndex};
use zcash_client_backend::zip321::{Payment, TransactionRequest};
use zcash_client_sqlite::util::testing::FixedClock;
use zcash_client_sqlite::{ReceivedNoteId, WalletDb};
use zcash_protocol::consensus::BlockHeight;
use zcash_protocol::local_consensus::LocalNetwork;
use zcash_protocol::value::Zatoshis;
use zcash_protocol::ShieldedPool;

use crate::db::Wallet;
use crate::universe::{Owner, Pool, Scope};

use super::chain::{owner, pool_of, Env, NoteKey, OWNER_X, OWNER_Y};
use super::model::{Model, NoteView, UtxoView};

type Db = WalletDb<rusqlite::Connection, LocalNetwork, FixedClock, ChaChaRng>;
type Prop = Proposal<StandardFeeRule, ReceivedNoteId>;
type ShieldProp = Proposal<StandardFeeRule, Infallible>;

pub enum AnyProp {
    Notes(Prop),
    Shield(ShieldProp),
}
type TreeErr = shardtree::error::ShardTreeError<zcash_client_sqlite::wallet::commitment_tree::Error>;

pub static CALL_NS: std::sync::atomic::AtomicU64 = std::sync::atomic::AtomicU64::new(0);
pub static CALLS: std::sync::atomic::AtomicU64 = std::sync::atomic::AtomicU64::new(0);
pub static EVAL_NS: std::sync::atomic::AtomicU64 = std::sync::atomic::AtomicU64::new(0);
pub const MIN_FEE: u64 = 10_000; // ZIP 317: marginal fee 5_000 x grace actions 2

#[derive(Clone, Copy, Debug, PartialEq, Eq, Hash, PartialOrd, Ord, Serialize, Deserialize)]
pub enum Entry {
    Transfer,
    Standard,
    SendMax,
    /// propose_shielding from A's transparent address into account A; `amt` is the shielding threshold
    Shield,
}
#[derive(Clone, Copy, Debug, PartialEq, Eq, Hash, PartialOrd, Ord, Serialize, Deserialize)]
pub enum Amt {
    Fixed(u64),
    /// reference upper bound of spendable value minus x
    UbMinus(u64),
    UbPlus(u64),
    /// the amount a send-max proposal for the same recipient/policies pays, plus x
    MaxPlus(u64),
}
#[derive(Clone, Copy, Debug, PartialEq, Eq, Hash, PartialOrd, Ord, Serialize, Deserialize)]
pub enum Rcpt {
    Sapling,
    Unified,
    Transparent,
    Tex,
}
#[derive(Clone, Copy, Debug, PartialEq, Eq, Hash, PartialOrd, Ord, Serialize, Deserialize)]
pub enum Conf {
    Min,
    Default,
    /// trusted 1 / untrusted 2, zero-conf shielding NOT allowed (transparent coins then need
    /// `untrusted` confirmations)
    NoZeroConf,
    /// trusted 1 / untrusted 10 (zero-conf shielding allowed): the anchor is the tip while third-party
    /// receipts -- and notes produced by shielding third-party coins -- still need 10 confirmations
    T1U10,
}
#[derive(Clone, Copy, Debug, PartialEq, Eq, Hash, PartialOrd, Ord, Serialize, Deserialize)]
pub enum LockPol {
    Exclude,
    PreferUnlockedX,
    PreferLockedX,
    PreferUnlockedXY,
}
#[derive(Clone, Copy, Debug, PartialEq, Eq, Hash, PartialOrd, Ord, Serialize, Deserialize)]
pub enum Chg {
    Single,
    Split,
}
#[derive(Clone, Copy, Debug, PartialEq, Eq, Hash, PartialOrd, Ord, Serialize, Deserialize)]
pub enum Pools {
    All,
    SaplingOnly,
    /// all shielded pools plus the account's transparent coins (TransparentSpendPolicy::any_account_addr)
    AllPlusTransparent,
}

/// Lock policy configured on the `GreedyInputSelector` *instance* (`with_locked_input_policy`).
/// Documented to govern shielding only; a transfer is governed by the per-call
/// `SpendPolicy::locked_input_policy`, so for `propose_transfer` this dimension must be inert.
#[derive(Clone, Copy, Debug, Default, PartialEq, Eq, Hash, PartialOrd, Ord, Serialize, Deserialize)]
pub enum SelPol {
    #[default]
    Default,
    PreferUnlockedX,
    PreferLockedX,
}

/// Address allow list of the `TransparentSpendPolicy` (transfers that may spend transparent coins):
/// none (`any_account_addr`), the account's own address, an address of the OTHER wallet account,
/// or both. Documented: the policy names which of *the account's* transparent UTXOs may be spent.
#[derive(Clone, Copy, Debug, Default, PartialEq, Eq, Hash, PartialOrd, Ord, Serialize, Deserialize)]
pub enum Allow {
    #[default]
    Any,
    Own,
    Other,
    Both,
}

#[derive(Clone, Debug, PartialEq, Eq, Hash, PartialOrd, Ord, Serialize, Deserialize)]
pub struct Req {
    pub entry: Entry,
    pub amt: Amt,
    pub rcpt: Rcpt,
    pub conf: Conf,
    pub lockpol: LockPol,
    pub chg: Chg,
    pub pools: Pools,
    /// send-max mode Everything (else MaxSpendable)
    pub everything: bool,
    /// lock request: (owner index, for_blocks)
    pub lock: Option<(u8, u32)>,
    /// selector-instance lock policy (propose_transfer only)
    #[serde(default)]
    pub selpol: SelPol,
    /// transparent address allow list (propose_transfer with transparent spending permitted)
    #[serde(default)]
    pub allow: Allow,
}

impl Req {
    pub fn key(&self) -> String {
        format!(
            "{:?}/{:?}/{:?}/{:?}/{:?}/{:?}/{:?}{}{}{}",
            self.entry,
            self.amt,
            self.rcpt,
            self.conf,
            self.lockpol,
            self.chg,
            self.pools,
            if self.everything { "/everything" } else { "" },
            self.lock.map(|(o, b)| format!("/lock({o},{b})")).unwrap_or_default(),
            if self.selpol == SelPol::Default { String::new() } else { format!("/selector:{:?}", self.selpol) }
        ) + &(if self.allow == Allow::Any { String::new() } else { format!("/allow:{:?}", self.allow) })
    }
}

fn conf_policy(c: Conf) -> ConfirmationsPolicy {
    match c {
        Conf::Min => ConfirmationsPolicy::MIN,
        Conf::Default => ConfirmationsPolicy::default(),
        Conf::NoZeroConf => ConfirmationsPolicy::new_unchecked(1, 2, false),
        Conf::T1U10 => ConfirmationsPolicy::new_unchecked(1, 10, true),
    }
}

fn lock_policy(l: LockPol) -> LockedInputPolicy {
    let set = |v: &[zcash_client_backend::wallet::LockOwner]| NonEmptyBTreeSet::from_set(v.iter().copied().collect()).unwrap();
    match l {
        LockPol::Exclude => LockedInputPolicy::Exclude,
        LockPol::PreferUnlockedX => LockedInputPolicy::PreferUnlocked(set(&[OWNER_X])),
        LockPol::PreferLockedX => LockedInputPolicy::PreferLocked(set(&[OWNER_X])),
        LockPol::PreferUnlockedXY => LockedInputPolicy::PreferUnlocked(set(&[OWNER_X, OWNER_Y])),
    }
}

fn permitted(p: Pools) -> Vec<ShieldedPool> {
    match p {
        Pools::All | Pools::AllPlusTransparent => vec![ShieldedPool::Sapling, ShieldedPool::Orchard, ShieldedPool::Ironwood],
        Pools::SaplingOnly => vec![ShieldedPool::Sapling],
    }
}

fn recipient(env: &Env, r: Rcpt) -> &Address {
    match r {
        Rcpt::Sapling => &env.addr_sapling,
        Rcpt::Unified => &env.addr_unified,
        Rcpt::Transparent => &env.addr_transparent,
        Rcpt::Tex => &env.addr_tex,
    }
}

/// Confirmations required by the documentation of `ConfirmationsPolicy` (ZIP 315): outputs
/// produced by the wallet itself (received under the internal key scope) are trusted, receipts
/// from third parties are untrusted. No transaction of the universe is marked trusted by the user
/// and none shields transparent funds.
fn required_confs(scope: Scope, pol: &ConfirmationsPolicy) -> u32 {
    match scope {
        Scope::Internal => u32::from(pol.trusted()),
        _ => u32::from(pol.untrusted()),
    }
}

/// (reference height, confirmations required) of a note. Ordinary notes are aged from their own
/// mining height. A note produced by a wallet-internal shielding transaction is treated "as though
/// the original transparent UTXOs had instead been received as untrusted shielded outputs"
/// (ConfirmationsPolicy docs): it is aged from "the maximum height at which any transparent input
/// to that transaction was received" (confirmations_until_spendable docs) and needs `untrusted`
/// confirmations (no coin of the universe is user-trusted).
fn conf_rule(v: &NoteView, pol: &ConfirmationsPolicy) -> Option<(u32, u32)> {
    let own = v.mined?;
    Some(match v.shield_input_height {
        Some(hs) => (hs, u32::from(pol.untrusted())),
        None => (own, required_confs(v.scope, pol)),
    })
}

fn confirmed(v: &NoteView, target: u32, pol: &ConfirmationsPolicy) -> bool {
    conf_rule(v, pol).is_some_and(|(h, need)| target.saturating_sub(h) >= need)
}

/// Leading identifiers of a Debug rendering: `NoteSelection(Balance(Overflow))` -> `NoteSelection:Balance`.
pub fn err_kind(dbg: &str) -> String {
    let ident = |s: &str| -> String { s.chars().take_while(|c| c.is_alphanumeric() || *c == '_').collect() };
    let a = ident(dbg);
    let rest = &dbg[a.len()..];
    let b = rest.strip_prefix('(').map(ident).unwrap_or_default();
    if b.is_empty() || b.chars().next().is_some_and(|c| !c.is_uppercase()) {
        a
    } else {
        format!("{a}:{b}")
    }
}

/// Per-state cache of witness verdicts, backed by a process-wide memo keyed by the byte-identical
/// content of the pool's tree tables (shards, cap, checkpoints, removed marks, retained
/// checkpoints) and the chain description: `witness_at_checkpoint_id` is a deterministic function
/// of those tables, the position and the checkpoint id, and most operations of the exploration
/// (locks, pending transactions, proposals) do not touch them.
#[derive(Default)]
pub struct WitnessCache(HashMap<(NoteKey, u32), Result<(), String>>, [Option<u128>; 3]);

type WitMemo = std::sync::Mutex<HashMap<(u128, NoteKey, u32), Result<(), String>>>;
fn wit_memo() -> &'static WitMemo {
    static M: std::sync::OnceLock<WitMemo> = std::sync::OnceLock::new();
    M.get_or_init(Default::default)
}
pub static WIT_NS: std::sync::atomic::AtomicU64 = std::sync::atomic::AtomicU64::new(0);
pub static WIT_N: std::sync::atomic::AtomicU64 = std::sync::atomic::AtomicU64::new(0);

fn tree_digest(conn: &rusqlite::Connection, pool: Pool, m: &Model) -> u128 {
    let t = pool.prefix();
    let mut out = format!("{:?}\n", m.chain);
    for sql in [
        format!("SELECT shard_index, subtree_end_height, hex(root_hash), hex(shard_data), contains_marked FROM {t}_tree_shards"),
        format!("SELECT cap_id, hex(cap_data) FROM {t}_tree_cap"),
        format!("SELECT * FROM {t}_tree_checkpoints"),
        format!("SELECT * FROM {t}_tree_checkpoint_marks_removed"),
        format!("SELECT * FROM {t}_tree_retained_checkpoints"),
    ] {
        for r in crate::db::query_rows(conn, &sql) {
            out.push_str(&r);
            out.push('\n');
        }
        out.push_str("--\n");
    }
    mc_core::key128(out.as_bytes())
}

fn witness_root(w: &mut Wallet, pool: Pool, position: u64, cm: &[u8; 32], anchor: u32) -> Result<Option<[u8; 32]>, String> {
    let id = BlockHeight::from_u32(anchor);
    let pos = Position::from(position);
    let r = mc_core::catch(|| -> Result<Option<[u8; 32]>, TreeErr> {
        match pool {
            Pool::Sapling => w.db.with_sapling_tree_mut(|t| {
                let leaf = Option::<sapling::Node>::from(sapling::Node::from_bytes(*cm)).expect("cmu");
                Ok::<_, TreeErr>(t.witness_at_checkpoint_id(pos, &id).ok().flatten().map(|p| p.root(leaf).to_bytes()))
            }),
            Pool::Orchard => w.db.with_orchard_tree_mut(|t| {
                let leaf = Option::<MerkleHashOrchard>::from(MerkleHashOrchard::from_bytes(cm)).expect("cmx");
                Ok::<_, TreeErr>(t.witness_at_checkpoint_id(pos, &id).ok().flatten().map(|p| p.root(leaf).to_bytes()))
            }),
            Pool::Ironwood => w
                .db
                .with_ironwood_tree_mut(|t| {
                    let leaf = Option::<MerkleHashOrchard>::from(MerkleHashOrchard::from_bytes(cm)).expect("cmx");
                    Ok::<_, TreeErr>(t.witness_at_checkpoint_id(pos, &id).ok().flatten().map(|p| p.root(leaf).to_bytes()))
                })
                .map(|o| o.flatten()),
        }
    });
    match r {
        Err(p) => Err(format!("panic while computing a witness in the {pool:?} tree: {p}")),
        Ok(Err(e)) => Err(format!("{pool:?} tree access failed: {e:?}")),
        Ok(Ok(v)) => Ok(v),
    }
}

impl WitnessCache {
    /// The wallet can produce a Merkle path for the note at checkpoint `anchor`, and the path's root
    /// is the chain's true note commitment tree root after block `anchor`.
    fn check(&mut self, env: &Env, w: &mut Wallet, m: &Model, v: &NoteView, anchor: u32) -> Result<(), String> {
        if let Some(r) = self.0.get(&(v.key, anchor)) {
            return r.clone();
        }
        let pi = match v.pool {
            Pool::Sapling => 0,
            Pool::Orchard => 1,
            Pool::Ironwood => 2,
        };
        let digest = *self.1[pi].get_or_insert_with(|| tree_digest(w.db.conn(), v.pool, m));
        if let Some(r) = wit_memo().lock().unwrap().get(&(digest, v.key, anchor)) {
            self.0.insert((v.key, anchor), r.clone());
            return r.clone();
        }
        let tw = std::time::Instant::now();
        let r = (|| {
            let pos = v.position.ok_or_else(|| format!("{} has no tree position (not mined)", env.label(v.key)))?;
            match witness_root(w, v.pool, pos, &v.cm, anchor)? {
                None => Err(format!("the wallet cannot produce a Merkle path for {} ({:?} position {pos}, mined at {:?}) at the proposal's anchor height {anchor}", env.label(v.key), v.pool, v.mined)),
                Some(root) => {
                    let truth = env.truth_root(&m.chain, v.pool, anchor);
                    if root == truth {
                        Ok(())
                    } else {
                        Err(format!("the Merkle path of {} at anchor {anchor} yields root {} but the chain's {:?} root at that height is {}", env.label(v.key), hex::encode(root), v.pool, hex::encode(truth)))
                    }
                }
            }
        })();
        WIT_NS.fetch_add(tw.elapsed().as_nanos() as u64, std::sync::atomic::Ordering::Relaxed);
        WIT_N.fetch_add(1, std::sync::atomic::Ordering::Relaxed);
        wit_memo().lock().unwrap().insert((digest, v.key, anchor), r.clone());
        self.0.insert((v.key, anchor), r.clone());
        r
    }
}

/// Is the note selectable as far as the ground truth goes (strong form used for the upper bound
/// and for the skip statistics)?
fn eligible(v: &NoteView, target: u32, pol: &ConfirmationsPolicy, overridable: &BTreeSet<u8>, pools: &[ShieldedPool]) -> bool {
    v.owner == Owner::A
        && confirmed(v, target, pol)
        && !v.spent_on_chain
        && !v.pending_spent
        && !v.lock.is_some_and(|(o, e)| e >= target && !overridable.contains(&o))
        && pools.iter().any(|p| pool_of(*p) == v.pool)
}

/// Transparent coins: spendable with zero confirmations when the policy allows zero-conf shielding
/// (ConfirmationsPolicy::confirmations_until_spendable, Transparent arm), else `untrusted`
/// confirmations (coins of the universe are third-party receipts at an external address).
fn utxo_eligible(t: &UtxoView, target: u32, pol: &ConfirmationsPolicy, overridable: &BTreeSet<u8>) -> bool {
    t.owner == Owner::A && t.known && !t.spent_on_chain && !t.pending_spent && (pol.allow_zero_conf_shielding() || t.mined.is_some_and(|h| target - h >= u32::from(pol.untrusted()))) && !t.lock.is_some_and(|(o, e)| e >= target && !overridable.contains(&o))
}

fn overridable(l: LockPol) -> BTreeSet<u8> {
    match l {
        LockPol::Exclude => BTreeSet::new(),
        LockPol::PreferUnlockedX | LockPol::PreferLockedX => [0u8].into_iter().collect(),
        LockPol::PreferUnlockedXY => [0u8, 1].into_iter().collect(),
    }
}

pub struct ReqResult {
    pub outcomes: Vec<String>,
    /// Some(inputs) when a proposal was returned
    pub inputs: Option<Vec<NoteKey>>,
    /// total paid to the recipient (for MaxPlus follow-ups)
    pub paid: Option<u64>,
}

fn call(env: &Env, w: &mut Wallet, req: &Req, amount: u64) -> Result<Result<AnyProp, String>, String> {
    let acct = w.acct_a;
    let net = env.u.network;
    let pol = conf_policy(req.conf);
    let lpol = lock_policy(req.lockpol);
    let lock = req.lock.map(|(o, b)| LockRequest::new(owner(o), b));
    let to = recipient(env, req.rcpt);
    let db: &mut Db = w.db.db_mut();
    let r = mc_core::catch(|| -> Result<AnyProp, String> {
        if req.entry == Entry::Shield {
            let sel = GreedyInputSelector::<Db>::new().with_locked_input_policy(lpol.clone());
            let cs = SingleOutputChangeStrategy::<StandardFeeRule, Db>::new(StandardFeeRule::Zip317, None, ShieldedPool::Sapling, DustOutputPolicy::default());
            return propose_shielding::<_, _, _, _, Infallible>(db, &net, &sel, &cs, Zatoshis::from_u64(amount).unwrap(), &[env.taddr_a], acct, pol, CoinbaseFilter::AllTransparentOutputs, lock)
                .map(AnyProp::Shield)
                .map_err(|e| format!("{e:?}"));
        }
        (match req.entry {
            Entry::Shield => unreachable!(),
            Entry::Standard => propose_standard_transfer_to_address::<_, _, Infallible>(db, &net, StandardFeeRule::Zip317, acct, pol, to, Zatoshis::from_u64(amount).unwrap(), None, None, ShieldedPool::Sapling, lock, None)
                .map_err(|e| format!("{e:?}")),
            Entry::SendMax => propose_send_max_transfer::<_, _, _, Infallible>(
                db,
                &net,
                acct,
                &permitted(req.pools),
                &StandardFeeRule::Zip317,
                to.to_zcash_address(&net),
                None,
                if req.everything { MaxSpendMode::Everything } else { MaxSpendMode::MaxSpendable },
                pol,
                &lpol,
                lock,
            )
            .map_err(|e| format!("{e:?}")),
            Entry::Transfer => {
                let request = TransactionRequest::new(vec![Payment::new(to.to_zcash_address(&net), Some(Zatoshis::from_u64(amount).unwrap()), None, None, None, vec![]).map_err(|e| format!("Payment({e:?})"))?]).map_err(|e| format!("Zip321({e:?})"))?;
                let mut sp = SpendPolicy::shielded_pools(permitted(req.pools)).with_locked_input_policy(lpol.clone());
                if req.pools == Pools::AllPlusTransparent {
                    sp = sp.with_transparent(match req.allow {
                        Allow::Any => TransparentSpendPolicy::any_account_addr(),
                        Allow::Own => TransparentSpendPolicy::from_one_address(env.taddr_a),
                        Allow::Other => TransparentSpendPolicy::from_one_address(env.taddr_b),
                        Allow::Both => TransparentSpendPolicy::from_addresses(nonempty::NonEmpty::from((env.taddr_a, vec![env.taddr_b]))),
                    });
                }
                let sel = match req.selpol {
                    SelPol::Default => GreedyInputSelector::<Db>::new(),
                    SelPol::PreferUnlockedX => GreedyInputSelector::<Db>::new().with_locked_input_policy(lock_policy(LockPol::PreferUnlockedX)),
                    SelPol::PreferLockedX => GreedyInputSelector::<Db>::new().with_locked_input_policy(lock_policy(LockPol::PreferLockedX)),
                };
                match req.chg {
                    Chg::Single => {
                        let cs = SingleOutputChangeStrategy::<StandardFeeRule, Db>::new(StandardFeeRule::Zip317, None, ShieldedPool::Sapling, DustOutputPolicy::default());
                        propose_transfer::<_, _, _, _, Infallible>(db, &net, acct, &sel, &cs, request, pol, &sp, lock, None).map_err(|e| format!("{e:?}"))
                    }
                    Chg::Split => {
                        let cs = MultiOutputChangeStrategy::<StandardFeeRule, Db>::new(
                            StandardFeeRule::Zip317,
                            None,
                            ShieldedPool::Sapling,
                            DustOutputPolicy::default(),
                            SplitPolicy::with_min_output_value(NonZeroUsize::new(16).unwrap(), Zatoshis::const_from_u64(10_000)),
                        );
                        propose_transfer::<_, _, _, _, Infallible>(db, &net, acct, &sel, &cs, request, pol, &sp, lock, None).map_err(|e| format!("{e:?}"))
                    }
                }
            }
        })
        .map(AnyProp::Notes)
    });
    r.map_err(|p| format!("panic in the proposal function: {p}"))
}

/// Run one request on the wallet `w` (holding the state described by `m`) and evaluate the oracle.
/// `Err` = violation.
pub fn run_request(env: &Env, w: &mut Wallet, m: &Model, ledger: &[NoteView], req: &Req, cache: &mut WitnessCache) -> Result<ReqResult, String> {
    run_request_with(env, w, m, ledger, req, cache, None)
}

pub fn run_request_with(env: &Env, w: &mut Wallet, m: &Model, ledger: &[NoteView], req: &Req, cache: &mut WitnessCache, max_paid: Option<u64>) -> Result<ReqResult, String> {
    let target = m.target();
    let pol = conf_policy(req.conf);
    let ovr = if req.entry == Entry::Standard { BTreeSet::new() } else { overridable(req.lockpol) };
    let pools = if req.entry == Entry::Standard { permitted(Pools::All) } else { permitted(req.pools) };
    let utxos = m.utxo_views(env);
    let ub_t: u64 = utxos.iter().filter(|t| utxo_eligible(t, target, &pol, &ovr)).map(|t| t.value).sum();
    let ub_s: u64 = ledger.iter().filter(|v| eligible(v, target, &pol, &ovr, &pools)).map(|v| v.value).sum();
    let ub = match (req.entry, req.pools) {
        (Entry::Shield, _) => ub_t,
        // every coin of account A sits at A's own address: an allow list naming only the other
        // account's address admits none of them
        (Entry::Transfer, Pools::AllPlusTransparent) => ub_s + if req.allow == Allow::Other { 0 } else { ub_t },
        _ => ub_s,
    };
    let amount = match (req.entry, req.amt) {
        (Entry::SendMax, _) => 0,
        (_, Amt::Fixed(a)) => a,
        (_, Amt::UbMinus(x)) => ub.saturating_sub(x),
        (_, Amt::UbPlus(x)) => ub + x,
        (_, Amt::MaxPlus(x)) => match max_paid {
            Some(p) => p + x,
            None => return Ok(ReqResult { outcomes: vec!["skipped:no-send-max-amount".into()], inputs: None, paid: None }),
        },
    };
    if req.entry != Entry::SendMax && req.entry != Entry::Shield && amount == 0 {
        return Ok(ReqResult { outcomes: vec!["skipped:zero-amount".into()], inputs: None, paid: None });
    }
    let tc = std::time::Instant::now();
    let res = call(env, w, req, amount)?;
    CALL_NS.fetch_add(tc.elapsed().as_nanos() as u64, std::sync::atomic::Ordering::Relaxed);
    CALLS.fetch_add(1, std::sync::atomic::Ordering::Relaxed);
    let mut outs = vec![];
    match res {
        Err(e) => {
            let kind = err_kind(&e);
            // diagnostics: why could funds be short?
            let any = |f: &dyn Fn(&NoteView) -> bool| ledger.iter().any(|v| v.owner == Owner::A && v.mined.is_some() && !v.spent_on_chain && f(v));
            let mut tags = vec![];
            if kind == "InsufficientFunds" {
                if any(&|v| v.lock.is_some_and(|(o, e)| e >= target && !ovr.contains(&o))) {
                    tags.push("foreign-lock");
                }
                if any(&|v| v.pending_spent) {
                    tags.push("pending-spend");
                }
                if any(&|v| !confirmed(v, target, &pol)) {
                    tags.push("unconfirmed");
                }
            }
            outs.push(format!("err:{kind}"));
            for t in tags {
                outs.push(format!("err:{kind}:state-has-{t}"));
            }
            Ok(ReqResult { outcomes: outs, inputs: None, paid: None })
        }
        Ok(p) => {
            // SOUNDNESS first (its messages name the specific clause), then COVERAGE
            let (o, inputs, paid) = match &p {
                AnyProp::Notes(p) => check_proposal(env, w, m, ledger, &utxos, req, amount, &pol, &ovr, &pools, p, cache)?,
                AnyProp::Shield(p) => check_proposal(env, w, m, ledger, &utxos, req, amount, &pol, &ovr, &pools, p, cache)?,
            };
            // propose_shielding: the threshold bounds the total input value (ShieldingSelector docs)
            let need = match req.entry {
                Entry::SendMax => MIN_FEE,
                Entry::Shield => amount.max(MIN_FEE),
                _ => amount + MIN_FEE,
            };
            if ub < need {
                let what = match req.entry {
                    Entry::Shield => format!("shielding threshold {amount}, minimum ZIP 317 fee {MIN_FEE}"),
                    Entry::SendMax => format!("minimum ZIP 317 fee {MIN_FEE}"),
                    _ => format!("amount {amount} + minimum ZIP 317 fee {MIN_FEE}"),
                };
                return Err(format!("a proposal was returned although the spendable funds cannot cover the request: reference upper bound of spendable value {ub} < {need} ({what}); target height {target}"));
            }
            outs.extend(o);
            Ok(ReqResult { outcomes: outs, inputs: Some(inputs), paid: Some(paid) })
        }
    }
}

#[allow(clippy::too_many_arguments)]
fn check_proposal<N>(
    env: &Env,
    w: &mut Wallet,
    m: &Model,
    ledger: &[NoteView],
    utxos: &[UtxoView],
    req: &Req,
    amount: u64,
    pol: &ConfirmationsPolicy,
    ovr: &BTreeSet<u8>,
    pools: &[ShieldedPool],
    p: &Proposal<StandardFeeRule, N>,
    cache: &mut WitnessCache,
) -> Result<(Vec<String>, Vec<NoteKey>, u64), String> {
    let target = m.target();
    let mut outs = vec![];
    if u32::from(p.min_target_height()) != target {
        return Err(format!("proposal target height {} != chain tip + 1 = {target}", u32::from(p.min_target_height())));
    }
    let mut used: BTreeSet<NoteKey> = BTreeSet::new();
    let mut order: Vec<NoteKey> = vec![];
    let mut paid_total: i128 = 0;
    let steps: Vec<_> = p.steps().iter().collect();
    let to_zaddr = recipient(env, req.rcpt).to_zcash_address(&env.u.network);
    let mut pools_used: BTreeSet<Pool> = BTreeSet::new();
    let mut bucketed = false;
    for (si, step) in steps.iter().enumerate() {
        let mut in_total: i128 = 0;
        if let Some(si_) = step.shielded_inputs() {
            let anchor = step.anchor_height().map(u32::from).ok_or_else(|| format!("step {si} spends shielded notes but carries no anchor height"))?;
            if anchor > target - u32::from(pol.trusted()) {
                return Err(format!(
                    "step {si}: anchor height {anchor} is above target height {target} minus the {} confirmations the policy requires (documented: ConfirmationsPolicy::anchor_height)",
                    u32::from(pol.trusted())
                ));
            }
            if anchor < target - u32::from(pol.trusted()) {
                bucketed = true;
                if std::env::var("C08_DEBUG_ANCHOR").is_ok() {
                    eprintln!("anchor {anchor} target {target} req {}", req.key());
                }
            }
            for n in si_.notes().iter() {
                let pool = pool_of(n.note().pool());
                let txid: [u8; 32] = *n.txid().as_ref();
                let idx = n.output_index() as usize;
                let v = ledger
                    .iter()
                    .find(|v| v.txid == txid && v.pool == pool && v.out_index == idx)
                    .ok_or_else(|| format!("step {si}: selected input {}:{pool:?}:{idx} is not a note of any wallet account in the ground truth", hex::encode(txid)))?;
                let name = env.label(v.key);
                if v.owner != Owner::A {
                    return Err(format!("step {si}: selected input {name} belongs to account {:?}, not to the requested account A", v.owner));
                }
                let val = u64::from(n.note().value());
                if val != v.value {
                    return Err(format!("step {si}: selected input {name} carries value {val}, ground truth {}", v.value));
                }
                let Some(h) = v.mined else {
                    return Err(format!("step {si}: selected input {name} is not mined in a scanned block of the current chain (tip {})", m.tip));
                };
                if v.spent_on_chain {
                    return Err(format!("step {si}: selected input {name} is spent by a transaction mined in a scanned block"));
                }
                if v.pending_spent {
                    return Err(format!("step {si}: selected input {name} is spent by a stored pending transaction that has not expired (target height {target}, stored {:?})", m.stored));
                }
                let (href, need) = conf_rule(v, pol).expect("mined");
                if target.saturating_sub(href) < need {
                    return Err(match v.shield_input_height {
                        Some(hs) => format!(
                            "step {si}: selected input {name} is the product of a shielding transaction whose newest transparent input was received at height {hs}: {} confirmations at target height {target}; the policy requires {need} (untrusted) for it",
                            target.saturating_sub(hs)
                        ),
                        None => format!("step {si}: selected input {name} ({:?} scope, mined at {h}) has {} confirmations at target height {target}; the policy requires {need}", v.scope, target - h),
                    });
                }
                if v.shield_input_height.is_some() {
                    outs.push("ok:used-shielding-product".into());
                }
                if let Some((o, e)) = v.lock {
                    if e >= target {
                        if !ovr.contains(&o) {
                            return Err(format!("step {si}: selected input {name} is locked by owner {o} until height {e} (target height {target}); the policy's overridable owners are {ovr:?}"));
                        }
                        outs.push("ok:spent-through-overridable-lock".into());
                    } else {
                        outs.push("ok:used-note-with-expired-lock".into());
                    }
                }
                if !pools.iter().any(|x| pool_of(*x) == pool) {
                    return Err(format!("step {si}: selected input {name} is in pool {pool:?}, which the spend policy does not permit"));
                }
                if !used.insert(v.key) {
                    return Err(format!("selected input {name} appears more than once in the proposal"));
                }
                if h > anchor {
                    return Err(format!("step {si}: selected input {name} is mined at {h}, above the step's anchor height {anchor} (target height {target}): it is not in the note commitment tree at the anchor, so it is not witnessable there"));
                }
                if h == anchor {
                    outs.push(if bucketed { "ok:input-mined-exactly-at-bucketed-anchor" } else { "ok:input-mined-exactly-at-anchor" }.into());
                }
                cache.check(env, w, m, v, anchor).map_err(|e| format!("step {si}: {e}"))?;
                if let NoteKey::U(i) = v.key {
                    if env.pend.iter().enumerate().any(|(pi, pd)| m.stored.contains(&pi) && pd.spends.contains(&i)) {
                        outs.push("ok:used-input-of-expired-pending".into());
                    }
                }
                if matches!(v.key, NoteKey::D(..)) {
                    outs.push("ok:used-change-of-mined-pending".into());
                }
                pools_used.insert(pool);
                order.push(v.key);
                in_total += v.value as i128;
            }
        }
        for t in step.transparent_inputs() {
            let hash: [u8; 32] = *t.outpoint().hash();
            let v = utxos
                .iter()
                .find(|v| v.hash == hash && t.outpoint().n() == 0)
                .ok_or_else(|| format!("step {si}: selected transparent input {:?} is not a coin of the ground truth", t.outpoint()))?;
            let name = env.label(v.key);
            if req.entry != Entry::Shield && req.pools != Pools::AllPlusTransparent {
                return Err(format!("step {si}: selected transparent input {name} although the spend policy permits no transparent spending"));
            }
            if v.owner != Owner::A {
                return Err(format!("step {si}: selected transparent input {name} was received at an address of account {:?}: it does not belong to the requested account A (transparent address allow list: {:?})", v.owner, req.allow));
            }
            if req.allow == Allow::Other {
                return Err(format!("step {si}: selected transparent input {name} sits at account A's own address, which the address allow list (the other account's address only) does not name"));
            }
            if !v.known {
                return Err(format!("step {si}: selected transparent input {name} was never reported to the wallet"));
            }
            let val = u64::from(t.txout().value());
            if val != v.value {
                return Err(format!("step {si}: selected transparent input {name} carries value {val}, ground truth {}", v.value));
            }
            if v.spent_on_chain {
                return Err(format!("step {si}: selected transparent input {name} is spent by a transaction mined in a scanned block"));
            }
            if v.pending_spent {
                return Err(format!("step {si}: selected transparent input {name} is spent by a stored pending transaction that has not expired (target height {target}, stored {:?})", m.stored));
            }
            if !pol.allow_zero_conf_shielding() {
                let need = u32::from(pol.untrusted());
                match v.mined {
                    Some(h) if target - h >= need => {}
                    other => return Err(format!("step {si}: selected transparent input {name} (mined at {other:?}) lacks the {need} confirmations the policy requires at target height {target} (zero-conf shielding not allowed)")),
                }
            }
            if let Some((o, e)) = v.lock {
                if e >= target {
                    if !ovr.contains(&o) {
                        return Err(format!("step {si}: selected transparent input {name} is locked by owner {o} until height {e} (target height {target}); the policy's overridable owners are {ovr:?}"));
                    }
                    outs.push("ok:spent-through-overridable-lock".into());
                } else {
                    outs.push("ok:used-note-with-expired-lock".into());
                }
            }
            if !used.insert(v.key) {
                return Err(format!("selected transparent input {name} appears more than once in the proposal"));
            }
            outs.push("ok:transparent-input".into());
            order.push(v.key);
            in_total += v.value as i128;
        }
        for r in step.prior_step_inputs() {
            let prior = steps.get(r.step_index()).filter(|_| r.step_index() < si).ok_or_else(|| format!("step {si}: reference to step {} is not a prior step", r.step_index()))?;
            let val = match r.output_index() {
                StepOutputIndex::Payment(i) => prior.transaction_request().payments().get(&i).and_then(|p| p.amount()).map(u64::from),
                StepOutputIndex::Change(i) => prior.balance().proposed_change().get(i).map(|c| u64::from(c.value())),
            }
            .ok_or_else(|| format!("step {si}: dangling prior-step reference {r:?}"))?;
            in_total += val as i128;
        }
        let mut pay: i128 = 0;
        for pm in step.transaction_request().payments().values() {
            let a = pm.amount().map(u64::from).ok_or_else(|| format!("step {si}: payment without amount"))? as i128;
            pay += a;
            if *pm.recipient_address() == to_zaddr {
                paid_total += a;
            }
        }
        let change: i128 = step.balance().proposed_change().iter().map(|c| u64::from(c.value()) as i128).sum();
        let fee = u64::from(step.balance().fee_required()) as i128;
        if in_total != pay + change + fee {
            return Err(format!("step {si}: inputs {in_total} != payments {pay} + change {change} + fee {fee}"));
        }
        outs.push(format!("ok:change-outputs={}", step.balance().proposed_change().len().min(3)));
    }
    if req.entry != Entry::SendMax && req.entry != Entry::Shield && paid_total != amount as i128 {
        return Err(format!("the proposal pays {paid_total} to the requested recipient, requested {amount}"));
    }
    outs.push(format!("ok:steps={}", steps.len()));
    outs.push(format!("ok:inputs={}", match used.len() { 0 => "0", 1 => "1", 2 => "2", _ => "3+" }));
    outs.push(format!("ok:pools={}", pools_used.iter().map(|p| p.prefix()).collect::<Vec<_>>().join("+")));
    if bucketed {
        outs.push("ok:anchor-below-policy-depth".into());
    }
    // skip statistics (ground truth says a note is spendable but for one reason, and it was not used)
    let base = |v: &&NoteView| v.owner == Owner::A && v.mined.is_some() && !v.spent_on_chain && !used.contains(&v.key);
    if ledger.iter().filter(base).any(|v| v.lock.is_some_and(|(o, e)| e >= target && !ovr.contains(&o))) {
        outs.push("ok:locked-note-skipped".into());
    }
    if ledger.iter().filter(base).any(|v| v.pending_spent) {
        outs.push("ok:pending-spent-note-skipped".into());
    }
    if ledger.iter().filter(base).any(|v| !confirmed(v, target, pol)) {
        if ledger.iter().filter(base).any(|v| v.shield_input_height.is_some() && !confirmed(v, target, pol)) {
            outs.push("ok:unconfirmed-shielding-product-skipped".into());
        }
        outs.push("ok:unconfirmed-note-skipped".into());
    }
    if ledger.iter().any(|v| v.owner == Owner::A && v.mined.is_none() && matches!(v.key, NoteKey::D(..))) {
        outs.push("ok:unmined-pending-change-skipped".into());
    }
    if ledger.iter().any(|v| v.owner == Owner::A && v.spent_on_chain) {
        outs.push("ok:chain-spent-note-skipped".into());
    }
    if req.entry == Entry::Shield || req.pools == Pools::AllPlusTransparent {
        if utxos.iter().any(|t| t.owner == Owner::A && t.known && !used.contains(&t.key) && t.lock.is_some_and(|(o, e)| e >= target && !ovr.contains(&o))) {
            outs.push("ok:locked-coin-skipped".into());
        }
        if utxos.iter().any(|t| t.owner == Owner::A && t.known && !used.contains(&t.key) && !t.pending_spent && !t.spent_on_chain && !utxo_eligible(t, target, pol, &(0u8..3).collect())) {
            outs.push("ok:unconfirmed-coin-skipped".into());
        }
        if utxos.iter().any(|t| t.owner == Owner::A && t.known && !used.contains(&t.key) && t.pending_spent) {
            outs.push("ok:pending-spent-coin-skipped".into());
        }
    }
    Ok((outs, order, paid_total.max(0) as u64))
}

// ---------------------------------------------------------------------------------------------
// The lattice
// ---------------------------------------------------------------------------------------------

pub struct Lattice {
    /// pure queries (lock: None); MaxPlus requests follow the send-max request with the same
    /// recipient / confirmations / lock policy / pools
    pub reqs: Vec<Req>,
    pub describe: String,
}

fn rq(entry: Entry, amt: Amt, rcpt: Rcpt, conf: Conf, lockpol: LockPol, chg: Chg, pools: Pools, everything: bool) -> Req {
    Req { entry, amt, rcpt, conf, lockpol, chg, pools, everything, lock: None, selpol: SelPol::Default, allow: Allow::Any }
}

fn with_sel(mut r: Req, s: SelPol) -> Req {
    r.selpol = s;
    r
}

fn with_allow(mut r: Req, a: Allow) -> Req {
    r.allow = a;
    r
}

/// Four sizes of the request lattice: level 0 = mini, 1 = core, 2 = quick, 3 = thorough.
pub fn lattice(level: usize) -> Lattice {
    use Amt::*;
    let mut v = vec![];
    let confs = [Conf::Min, Conf::Default];
    let lps = [LockPol::Exclude, LockPol::PreferUnlockedX, LockPol::PreferLockedX, LockPol::PreferUnlockedXY];
    if level >= 3 {
        let amts = [Fixed(30_000), Fixed(100_000), Fixed(1_000_000), Fixed(2_000_000), Fixed(5_000_000), Fixed(1_250_000), UbMinus(MIN_FEE), UbMinus(MIN_FEE - 1), UbPlus(1)];
        for a in amts {
            for r in [Rcpt::Sapling, Rcpt::Unified, Rcpt::Transparent, Rcpt::Tex] {
                for c in confs {
                    for l in lps {
                        for g in [Chg::Single, Chg::Split] {
                            v.push(rq(Entry::Transfer, a, r, c, l, g, Pools::All, false));
                        }
                    }
                }
            }
        }
        for a in [Fixed(30_000), Fixed(100_000), UbMinus(MIN_FEE - 1)] {
            for r in [Rcpt::Sapling, Rcpt::Unified] {
                for c in confs {
                    for l in [LockPol::Exclude, LockPol::PreferUnlockedX] {
                        v.push(rq(Entry::Transfer, a, r, c, l, Chg::Single, Pools::SaplingOnly, false));
                    }
                }
            }
        }
        for a in amts {
            for r in [Rcpt::Sapling, Rcpt::Unified, Rcpt::Transparent] {
                for c in confs {
                    v.push(rq(Entry::Standard, a, r, c, LockPol::Exclude, Chg::Single, Pools::All, false));
                }
            }
        }
        for r in [Rcpt::Sapling, Rcpt::Unified, Rcpt::Transparent, Rcpt::Tex] {
            for c in confs {
                for l in lps {
                    for pl in [Pools::All, Pools::SaplingOnly] {
                        v.push(rq(Entry::SendMax, Fixed(0), r, c, l, Chg::Single, pl, false));
                        v.push(rq(Entry::SendMax, Fixed(0), r, c, l, Chg::Single, pl, true));
                        if r != Rcpt::Tex {
                            for x in [0, 1] {
                                for g in [Chg::Single, Chg::Split] {
                                    v.push(rq(Entry::Transfer, MaxPlus(x), r, c, l, g, pl, false));
                                }
                            }
                        }
                    }
                }
            }
        }
        for a in [Fixed(10_000), Fixed(85_000), UbMinus(0), UbPlus(1)] {
            for c in [Conf::Min, Conf::Default, Conf::NoZeroConf] {
                for l in lps {
                    v.push(rq(Entry::Shield, a, Rcpt::Sapling, c, l, Chg::Single, Pools::All, false));
                }
            }
        }
        for a in [Fixed(30_000), Fixed(100_000), Fixed(1_250_000), UbMinus(MIN_FEE - 1), UbPlus(1)] {
            for r in [Rcpt::Sapling, Rcpt::Unified, Rcpt::Transparent] {
                for c in [Conf::Min, Conf::Default, Conf::NoZeroConf] {
                    for l in [LockPol::Exclude, LockPol::PreferLockedX] {
                        for sp in [SelPol::Default, SelPol::PreferUnlockedX, SelPol::PreferLockedX] {
                            v.push(with_sel(rq(Entry::Transfer, a, r, c, l, Chg::Single, Pools::AllPlusTransparent, false), sp));
                        }
                    }
                }
            }
        }
        for a in [Fixed(30_000), Fixed(100_000), UbMinus(MIN_FEE - 1), UbPlus(1)] {
            for r in [Rcpt::Sapling, Rcpt::Transparent] {
                for c in [Conf::Min, Conf::NoZeroConf] {
                    for l in [LockPol::Exclude, LockPol::PreferUnlockedXY] {
                        for al in [Allow::Own, Allow::Other, Allow::Both] {
                            v.push(with_allow(rq(Entry::Transfer, a, r, c, l, Chg::Single, Pools::AllPlusTransparent, false), al));
                        }
                    }
                }
            }
        }
        for l in lps {
            v.push(rq(Entry::SendMax, Fixed(0), Rcpt::Sapling, Conf::T1U10, l, Chg::Single, Pools::All, false));
            v.push(rq(Entry::Transfer, UbPlus(1), Rcpt::Sapling, Conf::T1U10, l, Chg::Single, Pools::SaplingOnly, false));
            v.push(rq(Entry::Transfer, UbMinus(MIN_FEE - 1), Rcpt::Sapling, Conf::T1U10, l, Chg::Single, Pools::SaplingOnly, false));
            for a in [Fixed(30_000), Fixed(100_000), UbMinus(MIN_FEE - 1), UbPlus(1)] {
                for r in [Rcpt::Sapling, Rcpt::Unified] {
                    v.push(rq(Entry::Transfer, a, r, Conf::T1U10, l, Chg::Single, Pools::All, false));
                }
            }
        }
        Lattice {
            reqs: v,
            describe: "thorough: propose_transfer {30k,100k,1M/2M/5M (canonical ZIP 318 denominations whose oldest single covering Orchard note lies before / at / after the bucketed anchor boundary),1.25M,UB-10000,UB-9999,UB+1} x {Sapling,UA/Orchard,P2PKH,TEX} x {MIN,3/10} x {Exclude,PreferUnlocked{X},PreferLocked{X},PreferUnlocked{X,Y}} x {single,split change}; \
                       Sapling-only spend policy for 3 amounts x 2 recipients x 2 x 2; propose_standard_transfer_to_address 9 amounts x 3 recipients x 2 policies; propose_send_max_transfer 4 recipients x 2 x 4 x {all pools,Sapling only} x {MaxSpendable,Everything}, \
                       each MaxSpendable one followed by propose_transfer of exactly the send-max amount and of that amount + 1 (single and split change); \
                       propose_shielding thresholds {10k,85k,UB,UB+1} x {MIN,3/10,1/2 without zero-conf} x 4 lock policies; propose_transfer with transparent spending permitted {30k,100k,1.25M,UB-9999,UB+1} x 3 recipients x 3 policies x {Exclude,PreferLocked{X}} x selector-instance lock policy {default,PreferUnlocked{X},PreferLocked{X}}; transparent address allow list {own,other account's,both} x {30k,100k,UB-9999,UB+1} x {Sapling,P2PKH} x 2 policies x 2 lock policies; policy trusted 1 / untrusted 10: send-max, {30k,100k,UB-9999,UB+1} x 2 recipients and Sapling-only {UB-9999,UB+1}, x 4 lock policies"
                .into(),
        }
    } else if level == 2 {
        for a in [Fixed(30_000), Fixed(100_000), Fixed(1_000_000), UbMinus(MIN_FEE - 1)] {
            for r in [Rcpt::Sapling, Rcpt::Unified] {
                for c in confs {
                    for l in lps {
                        v.push(rq(Entry::Transfer, a, r, c, l, Chg::Single, Pools::All, false));
                    }
                }
            }
        }
        // canonical ZIP 318 crossings whose covering note is mined at / after the bucketed boundary
        for a in [Fixed(2_000_000), Fixed(5_000_000)] {
            for c in confs {
                for l in lps {
                    v.push(rq(Entry::Transfer, a, Rcpt::Unified, c, l, Chg::Single, Pools::All, false));
                }
                v.push(rq(Entry::Standard, a, Rcpt::Unified, c, LockPol::Exclude, Chg::Single, Pools::All, false));
            }
        }
        for a in [Fixed(30_000), Fixed(100_000)] {
            for r in [Rcpt::Sapling, Rcpt::Unified] {
                for c in confs {
                    for l in [LockPol::Exclude, LockPol::PreferLockedX] {
                        v.push(rq(Entry::Transfer, a, r, c, l, Chg::Split, Pools::All, false));
                    }
                }
            }
        }
        for r in [Rcpt::Transparent, Rcpt::Tex] {
            for c in confs {
                for l in [LockPol::Exclude, LockPol::PreferUnlockedXY] {
                    v.push(rq(Entry::Transfer, Fixed(30_000), r, c, l, Chg::Single, Pools::All, false));
                }
            }
        }
        for c in confs {
            v.push(rq(Entry::Transfer, Fixed(100_000), Rcpt::Sapling, c, LockPol::PreferUnlockedX, Chg::Single, Pools::SaplingOnly, false));
        }
        for c in confs {
            for r in [Rcpt::Sapling, Rcpt::Unified, Rcpt::Transparent] {
                v.push(rq(Entry::Standard, Fixed(1_250_000), r, c, LockPol::Exclude, Chg::Single, Pools::All, false));
            }
            v.push(rq(Entry::Standard, Fixed(30_000), Rcpt::Transparent, c, LockPol::Exclude, Chg::Single, Pools::All, false));
        }
        for r in [Rcpt::Sapling, Rcpt::Unified] {
            for c in confs {
                for l in [LockPol::Exclude, LockPol::PreferUnlockedXY] {
                    v.push(rq(Entry::SendMax, Fixed(0), r, c, l, Chg::Single, Pools::All, false));
                }
                v.push(rq(Entry::SendMax, Fixed(0), r, c, LockPol::Exclude, Chg::Single, Pools::All, true));
                for x in [0, 1] {
                    v.push(rq(Entry::Transfer, MaxPlus(x), r, c, LockPol::Exclude, Chg::Single, Pools::All, false));
                }
            }
        }
        for a in [Fixed(10_000), UbPlus(1)] {
            for c in [Conf::Min, Conf::Default, Conf::NoZeroConf] {
                for l in [LockPol::Exclude, LockPol::PreferUnlockedXY] {
                    v.push(rq(Entry::Shield, a, Rcpt::Sapling, c, l, Chg::Single, Pools::All, false));
                }
            }
        }
        for a in [Fixed(100_000), UbMinus(MIN_FEE - 1)] {
            for c in [Conf::Min, Conf::NoZeroConf] {
                for l in [LockPol::Exclude, LockPol::PreferLockedX] {
                    v.push(rq(Entry::Transfer, a, Rcpt::Sapling, c, l, Chg::Single, Pools::AllPlusTransparent, false));
                }
            }
        }
        // the selector-instance lock policy crossed with the per-call one (must be inert for transfers)
        for a in [Fixed(30_000), Fixed(100_000)] {
            for l in [LockPol::Exclude, LockPol::PreferLockedX] {
                for sp in [SelPol::PreferUnlockedX, SelPol::PreferLockedX] {
                    v.push(with_sel(rq(Entry::Transfer, a, Rcpt::Sapling, Conf::Min, l, Chg::Single, Pools::AllPlusTransparent, false), sp));
                }
            }
        }
        v.push(with_sel(rq(Entry::Transfer, Fixed(100_000), Rcpt::Unified, Conf::Default, LockPol::Exclude, Chg::Single, Pools::All, false), SelPol::PreferLockedX));
        // transparent address allow list: own address / the OTHER account's address / both
        for a in [Fixed(100_000), UbMinus(MIN_FEE - 1)] {
            for al in [Allow::Own, Allow::Other, Allow::Both] {
                v.push(with_allow(rq(Entry::Transfer, a, Rcpt::Sapling, Conf::Min, LockPol::Exclude, Chg::Single, Pools::AllPlusTransparent, false), al));
            }
        }
        // trusted 1 / untrusted 10: shielding products are aged by their newest shielded coin
        v.push(rq(Entry::SendMax, Fixed(0), Rcpt::Sapling, Conf::T1U10, LockPol::Exclude, Chg::Single, Pools::All, false));
        v.push(rq(Entry::Transfer, Fixed(100_000), Rcpt::Sapling, Conf::T1U10, LockPol::Exclude, Chg::Single, Pools::All, false));
        v.push(rq(Entry::Transfer, UbPlus(1), Rcpt::Sapling, Conf::T1U10, LockPol::Exclude, Chg::Single, Pools::SaplingOnly, false));
        v.push(rq(Entry::Transfer, UbPlus(1), Rcpt::Sapling, Conf::T1U10, LockPol::Exclude, Chg::Single, Pools::All, false));
        Lattice {
            reqs: v,
            describe: "quick (pruned): propose_transfer {30k,100k,1M,UB-9999} x {Sapling,UA/Orchard} x {MIN,3/10} x 4 lock policies, single change; canonical 2M and 5M (covering Orchard note mined at / after the bucketed anchor boundary) to UA x 2 x 4 and through propose_standard_transfer_to_address x 2; split change for {30k,100k} x 2 recipients x 2 x {Exclude,PreferLocked{X}}; \
                       P2PKH and TEX recipients for 30k x 2 x {Exclude,PreferUnlocked{X,Y}}; one Sapling-only spend policy request per confirmation policy; propose_standard_transfer_to_address 1.25M x 3 recipients x 2 and 30k to P2PKH x 2; \
                       propose_send_max_transfer 2 recipients x 2 x {Exclude,PreferUnlocked{X,Y}} MaxSpendable and x Exclude Everything, the Exclude one followed by propose_transfer of exactly that amount and of that amount + 1; \
                       propose_shielding thresholds {10k,UB+1} x {MIN,3/10,1/2 without zero-conf} x {Exclude,PreferUnlocked{X,Y}}; propose_transfer with transparent spending permitted {100k,UB-9999} to Sapling x {MIN,1/2 without zero-conf} x {Exclude,PreferLocked{X}}; selector-instance lock policy {PreferUnlocked{X},PreferLocked{X}} x per-call {Exclude,PreferLocked{X}} x {30k,100k} with transparent spending permitted (and one shielded-only request); transparent address allow list {own,other account's,both} x {100k,UB-9999}; policy trusted 1 / untrusted 10: send-max, 100k, UB+1 and Sapling-only UB+1 to Sapling"
                .into(),
        }
    } else if level == 1 {
        for r in [Rcpt::Sapling, Rcpt::Unified] {
            for c in confs {
                v.push(rq(Entry::Transfer, Fixed(100_000), r, c, LockPol::Exclude, Chg::Single, Pools::All, false));
            }
        }
        v.push(rq(Entry::Transfer, Fixed(100_000), Rcpt::Sapling, Conf::Min, LockPol::PreferLockedX, Chg::Single, Pools::All, false));
        v.push(rq(Entry::Transfer, Fixed(30_000), Rcpt::Tex, Conf::Min, LockPol::Exclude, Chg::Single, Pools::All, false));
        // canonical ZIP 318 crossings: covering note mined at (2M) / after (5M) the bucketed boundary
        v.push(rq(Entry::Transfer, Fixed(2_000_000), Rcpt::Unified, Conf::Min, LockPol::Exclude, Chg::Single, Pools::All, false));
        v.push(rq(Entry::Transfer, Fixed(5_000_000), Rcpt::Unified, Conf::Min, LockPol::Exclude, Chg::Single, Pools::All, false));
        for (c, l) in [(Conf::Min, LockPol::Exclude), (Conf::Default, LockPol::Exclude), (Conf::Min, LockPol::PreferUnlockedXY)] {
            v.push(rq(Entry::SendMax, Fixed(0), Rcpt::Sapling, c, l, Chg::Single, Pools::All, false));
        }
        v.push(rq(Entry::Shield, Fixed(10_000), Rcpt::Sapling, Conf::Min, LockPol::Exclude, Chg::Single, Pools::All, false));
        v.push(rq(Entry::Transfer, Fixed(100_000), Rcpt::Sapling, Conf::Min, LockPol::Exclude, Chg::Single, Pools::AllPlusTransparent, false));
        v.push(with_sel(rq(Entry::Transfer, Fixed(100_000), Rcpt::Sapling, Conf::Min, LockPol::Exclude, Chg::Single, Pools::AllPlusTransparent, false), SelPol::PreferUnlockedX));
        v.push(with_allow(rq(Entry::Transfer, Fixed(100_000), Rcpt::Sapling, Conf::Min, LockPol::Exclude, Chg::Single, Pools::AllPlusTransparent, false), Allow::Both));
        v.push(rq(Entry::SendMax, Fixed(0), Rcpt::Sapling, Conf::T1U10, LockPol::Exclude, Chg::Single, Pools::All, false));
        v.push(rq(Entry::Transfer, UbPlus(1), Rcpt::Sapling, Conf::T1U10, LockPol::Exclude, Chg::Single, Pools::SaplingOnly, false));
        Lattice {
            reqs: v,
            describe: "core: propose_transfer 100k x {Sapling,UA/Orchard} x {MIN,3/10} Exclude, 100k to Sapling MIN PreferLocked{X}, 30k to TEX; canonical ZIP 318 crossings 2M and 5M to UA under MIN; \
                       propose_send_max_transfer (MaxSpendable: selects every eligible note) to Sapling under (MIN,Exclude), (3/10,Exclude), (MIN,PreferUnlocked{X,Y}); propose_shielding threshold 10k under MIN; propose_transfer 100k with transparent spending permitted, with the default selector, with a selector instance configured PreferUnlocked{X}, and with the address allow list {own, other account's}; send-max and Sapling-only UB+1 under trusted 1 / untrusted 10"
                .into(),
        }
    } else {
        // the broadest detectors only: send-max selects every eligible note, shielding every eligible coin
        for c in confs {
            v.push(rq(Entry::SendMax, Fixed(0), Rcpt::Sapling, c, LockPol::Exclude, Chg::Single, Pools::All, false));
        }
        v.push(rq(Entry::SendMax, Fixed(0), Rcpt::Sapling, Conf::T1U10, LockPol::Exclude, Chg::Single, Pools::All, false));
        // value-targeted selection (a different query than send-max) asked for one zatoshi more than
        // the reference bound of the Sapling pool: must be refused
        v.push(rq(Entry::Transfer, UbPlus(1), Rcpt::Sapling, Conf::T1U10, LockPol::Exclude, Chg::Single, Pools::SaplingOnly, false));
        v.push(rq(Entry::Shield, Fixed(10_000), Rcpt::Sapling, Conf::Min, LockPol::Exclude, Chg::Single, Pools::All, false));
        v.push(with_sel(rq(Entry::Transfer, Fixed(100_000), Rcpt::Sapling, Conf::Min, LockPol::Exclude, Chg::Single, Pools::AllPlusTransparent, false), SelPol::PreferUnlockedX));
        v.push(rq(Entry::Transfer, Fixed(100_000), Rcpt::Unified, Conf::Default, LockPol::Exclude, Chg::Single, Pools::All, false));
        v.push(rq(Entry::Transfer, Fixed(100_000), Rcpt::Sapling, Conf::Min, LockPol::PreferLockedX, Chg::Single, Pools::All, false));
        v.push(rq(Entry::Transfer, Fixed(5_000_000), Rcpt::Unified, Conf::Min, LockPol::Exclude, Chg::Single, Pools::All, false));
        Lattice {
            reqs: v,
            describe: "mini (last level only): propose_send_max_transfer to Sapling x {MIN,3/10,trusted 1/untrusted 10} Exclude (selects every eligible note); Sapling-only UB+1 under trusted 1/untrusted 10 (value-targeted query; must be refused); propose_shielding 10k under MIN (every eligible coin); propose_transfer 100k with transparent spending permitted and a selector instance configured PreferUnlocked{X}; \
                       100k to UA under 3/10; 100k to Sapling under MIN PreferLocked{X}; canonical 5M to UA under MIN"
                .into(),
        }
    }
}

/// `stop` is polled between requests; when it fires the evaluation of this state is abandoned and
/// the last component of the result is false (the caller reports the cap).
pub fn eval_state(env: &Env, w: &mut Wallet, m: &Model, lat: &Lattice, stop: &dyn Fn() -> bool) -> (Vec<String>, Vec<(Option<Req>, String)>, u64, bool) {
    let te = std::time::Instant::now();
    let ledger = m.ledger(env);
    let mut cache = WitnessCache::default();
    let mut outs = vec![];
    let mut fails = vec![];
    let mut n = 0u64;
    let before = super::model::lock_rows(w.db.conn());
    // amount paid by the MaxSpendable send-max proposal per (rcpt, conf, lockpol, pools)
    let mut max_paid: HashMap<(Rcpt, Conf, LockPol, Pools), u64> = HashMap::new();
    for r in &lat.reqs {
        if stop() {
            return (outs, fails, n, false);
        }
        let mp = max_paid.get(&(r.rcpt, r.conf, r.lockpol, r.pools)).copied();
        n += 1;
        match run_request_with(env, w, m, &ledger, r, &mut cache, mp) {
            Ok(res) => {
                if r.entry == Entry::SendMax && !r.everything {
                    if let Some(p) = res.paid {
                        max_paid.insert((r.rcpt, r.conf, r.lockpol, r.pools), p);
                    }
                }
                let tag = match r.entry {
                    Entry::Transfer => "transfer",
                    Entry::Standard => "standard",
                    Entry::SendMax => "sendmax",
                    Entry::Shield => "shield",
                };
                if res.inputs.is_some() {
                    outs.push(format!("{tag}:ok"));
                }
                for o in res.outcomes {
                    if o.starts_with("err:") {
                        outs.push(format!("{tag}:{o}"));
                    } else {
                        outs.push(o);
                    }
                }
            }
            Err(msg) => fails.push((Some(r.clone()), msg)),
        }
    }
    let after = super::model::lock_rows(w.db.conn());
    if before != after {
        fails.push((None, format!("proposals without a lock request changed the lock state: before {before:?} after {after:?}")));
    }
    EVAL_NS.fetch_add(te.elapsed().as_nanos() as u64, std::sync::atomic::Ordering::Relaxed);
    (outs, fails, n, true)
}
