//! C06 — note commitment trees and witnesses always agree with the chain.
//!
//! Evaluated in every state of the wallet state graph (see graph.rs): tree roots at every retained
//! checkpoint against the frontier recorded at generation time, Merkle paths of every wallet note
//! recomputed from the leaf, checkpoint alignment across pools, and the retained anchor grid.
use mc_core::{Args, Run, Tier};
use serde_json::{json, Value};

use crate::graph::{self, Ctx, Op};
use crate::universes;

fn setup(name: &str, depth: usize, rewinds: u32, wall: f64) -> (crate::universe::Universe, graph::Cfg) {
    graph::TRACK_SCAN_CHECKPOINTS.store(true, std::sync::atomic::Ordering::Relaxed);
    let (u, mut cfg) = crate::c01::setup(name, depth, rewinds, wall);
    cfg.with_roots = true;
    cfg.with_witness = true;
    cfg.check_trees = true;
    // one tip symbol is enough here: tips do not touch the trees
    cfg.tips.truncate(1);
    cfg.witness_subset = 1;
    (u, cfg)
}

pub fn replay(kind: &str, case: &Value) -> Result<(), String> {
    if kind != "history" {
        return Err(format!("unknown kind {kind}"));
    }
    let name = case["universe"].as_str().unwrap_or("tiny-trees");
    let ops: Vec<Op> = serde_json::from_value(case["ops"].clone()).map_err(|e| e.to_string())?;
    let (u, cfg) = setup(name, 99, 9, 1e9);
    let cx = Ctx { u: &u, cfg: &cfg, fresh: vec![] };
    graph::replay_history(&cx, &ops, &[&graph::check_trees])
}

pub fn run(args: &Args) -> i32 {
    let run = Run::new(args, "model_checking");
    // (universe, depth, rewinds, wall cap, segment-level alphabet first?) — see c01.rs `params`
    let plan: Vec<(&str, usize, u32, f64, bool)> = match args.tier {
        // segment-level (deep) search on `tiny` - cheap states, so it gets to depth 4-5 (orders of
        // Roots / scans / rewind / other-branch scans) - and the free-scan search on `tiny-trees`, whose
        // whole-chain and stretch scans are what the idle-pool and batch-interior symbols need
        Tier::Quick => vec![("tiny", 8, 1, 26.0, true), ("tiny-trees", 12, 1, 20.0, false)],
        Tier::Thorough => vec![("tiny", 14, 2, 150.0, true), ("tiny-trees", 14, 2, 200.0, true), ("tiny-trees", 14, 2, 200.0, false), ("small", 12, 1, 300.0, false), ("mid", 8, 1, 400.0, false)],
    };
    run.set_rule(
        "explicit-state BFS over the real SQLite wallet (operations Scan, Tip, Rewind+switch branch, PutSubtreeRoots), states matched on a canonical \
         logical dump + reference model; in every state every retained checkpoint x every pool is evaluated for its root, and every mined wallet note for its Merkle path at the first two, the middle and the last two retained checkpoints at or above it (all of them when there are at most five); a state is \
         non-trivial when reached by at least one operation and distinct by that key",
    );
    run.assume("a root / Merkle path must be computable only when every block from the birthday up to the checkpoint is scanned; when the wallet does compute one it must equal the chain's");
    run.assume("trusted: incrementalmerkletree frontier arithmetic (ground-truth roots) and the pools' Merkle hash functions");
    let (mut saw_witness, mut saw_grid) = (false, false);
    for (name, depth, rewinds, wall, seg_level) in plan {
        let (u, mut cfg) = setup(name, depth, rewinds, wall);
        if seg_level {
            cfg.free_scans = false;
            cfg.segment_scans = true;
        }
        let label = if seg_level { format!("{name}-segments") } else { name.to_string() };
        let cx = Ctx { u: &u, cfg: &cfg, fresh: vec![] };
        let (stats, failures) = graph::search(&cx, &[&graph::check_trees]);
        crate::c01::record(&run, &label, &u, &cfg, &stats, failures);
        saw_witness |= stats.outcomes.keys().any(|k| k.starts_with("witness:ok"));
        saw_grid |= stats.outcomes.contains_key("grid:present") || stats.outcomes.contains_key("grid:survived-pruning-depth");
    }
    run.require(saw_witness || run.failure_count() > 0, "no witness verified");
    run.require(saw_grid || run.failure_count() > 0, "no retained grid boundary observed");
    run.sample(json!({"universe": "tiny", "ops": [Op::Roots, Op::Scan{from: universes::FIRST + 2, to: universes::FIRST + 4}, Op::Scan{from: universes::FIRST, to: universes::FIRST + 1}]}));
    run.finish(&replay)
}
