//! C15(a) — every short insertion sequence on the real `SpanningTree`, against a pointwise
//! reference model of the documented dominance rule.
//!
//! Subject (real code, never re-implemented here): `SpanningTree::{Leaf, insert, into_vec}` in
//! /repo/zcash_client_backend/src/data_api/scanning/spanning_tree.rs.
//!
//! Alphabet: every range `s..e` with `0 <= s <= e <= hmax` (empty ranges included: they hit the
//! `a.end <= b.start` guards of `RangeOrdering::cmp`, the `is_empty` arms of
//! `truncate_start/_end`, the `None` arm of `split_at` and the `!entry.is_empty()` filter of
//! `into_vec`), every `ScanPriority` (7), `force_rescans` in {false, true}. With `hmax = 6` every one
//! of the seven `RangeOrdering` relations occurs against a span that itself has up to three
//! partition points, on both sides of every `split_point` comparison in `SpanningTree::insert`.
//!
//! Search: explicit-state BFS (`mc_core::explore::bfs`) from each first insertion (a `Leaf`), all
//! operations enabled in every state, state matching on the **full tree shape** (recursive walk of
//! the public enum: every span, every leaf range and priority, in order) plus the reference state.
//! The flattening is *not* used as the key: `insert` preserves partition points, so two trees with
//! equal flattening can have different futures. The same transition function is then run under
//! stateright's BFS checker and both engines must report the same number of unique states.
//!
//! Oracle (written from the documentation, see `RULE` below): an array `prio[h]` over the covered
//! interval, updated pointwise. After every insertion `tree.clone().into_vec()` must be sorted,
//! gap-free, non-overlapping, free of empty ranges, adjacent-distinct, and equal to the
//! run-length encoding of the array. A panic of `insert`/`into_vec` is a violation (the property
//! says the queue is *always* such a partition).
//!
//! Plans (heights, longest sequence): quick (0..=6, 3); thorough adds (0..=5, 4) and, only when the
//! measured speed says it fits `VERIF_C15A_EXTRA_BUDGET_S` (default 300 s from the start of the
//! run), the optional extra-depth plan (0..=3, 5). All evidence of this part is in the section
//! `spanning` of /verif/evidence/C15.json.

use mc_core::explore::{bfs, Limits, Subject};
use mc_core::{catch, key128, Run};
use rayon::prelude::*;
use serde_json::{json, Value};
use stateright::{Checker, Model, Property};
use std::cell::RefCell;
use std::collections::{BTreeMap, HashSet};
use std::hash::{Hash, Hasher};
use std::sync::atomic::{AtomicU64, Ordering};
use std::sync::Arc;
use std::time::{Duration, Instant};
use zcash_client_backend::data_api::scanning::{spanning_tree::SpanningTree, ScanPriority, ScanRange};
use zcash_protocol::consensus::BlockHeight;

// ---------------------------------------------------------------------------------------------
// Priorities. Indices are this file's own numbering (the order in which the variants are
// documented in scanning.rs: "Ignored ... lowest priority" first, "Verify ... highest priority"
// last); the oracle never uses the repository's `Ord` on `ScanPriority`.
// ---------------------------------------------------------------------------------------------
const I: u8 = 0; // Ignored
const S: u8 = 1; // Scanned
const H: u8 = 2; // Historic
const O: u8 = 3; // OpenAdjacent
const F: u8 = 4; // FoundNote
const C: u8 = 5; // ChainTip
const V: u8 = 6; // Verify
const NP: usize = 7;
const NAMES: [&str; NP] = ["Ignored", "Scanned", "Historic", "OpenAdjacent", "FoundNote", "ChainTip", "Verify"];
const NONE: u8 = 0xff;

fn real_prio(i: u8) -> ScanPriority {
    match i {
        I => ScanPriority::Ignored,
        S => ScanPriority::Scanned,
        H => ScanPriority::Historic,
        O => ScanPriority::OpenAdjacent,
        F => ScanPriority::FoundNote,
        C => ScanPriority::ChainTip,
        V => ScanPriority::Verify,
        _ => mc_core::machinery_error("C15a: priority index out of range"),
    }
}
fn prio_index(p: ScanPriority) -> u8 {
    match p {
        ScanPriority::Ignored => I,
        ScanPriority::Scanned => S,
        ScanPriority::Historic => H,
        ScanPriority::OpenAdjacent => O,
        ScanPriority::FoundNote => F,
        ScanPriority::ChainTip => C,
        ScanPriority::Verify => V,
    }
}
fn prio_by_name(n: &str) -> Option<u8> {
    NAMES.iter().position(|x| *x == n).map(|i| i as u8)
}

/// The documented dominance rule as an explicit table: `RULE[force][current][inserted]` is the
/// priority of a height that currently has priority `current` after a range with priority
/// `inserted` is inserted over it with `force_rescans = force`.
///
/// Where each cell comes from:
/// * diagonal — equal priorities: nothing to decide.
/// * column `V` — spanning_tree.rs, comment on `dominance`: "If the inserted range's priority is
///   `Verify`, this replaces any existing priority." (property: "verify ... override").
/// * column `S` — same comment: "if the new priority is `Scanned`, it overrides any existing
///   priority" (property: "... and scanned override"); this includes current `Verify`.
/// * row `S`, force = false — same comment: "Otherwise [inserted is not Verify], if the current
///   priority is `Scanned`, it remains as `Scanned`" (property: "scanned is sticky"); test comment
///   "a `ChainTip` insertion should not overwrite a scanned range".
/// * row `S`, force = true — property: "sticky unless a rescan is forced, otherwise the higher
///   priority wins": the row is the plain maximum. `Scanned` is documented second-lowest, so
///   everything from `Historic` up replaces it, and `Ignored` does not (test comment in
///   `spanning_tree_force_rescans`: "An insert of an ignored range should not override a scanned
///   range; the existing priority should prevail").
/// * every other cell — property: "otherwise the higher priority wins": the maximum in the
///   documented order Ignored < Scanned < Historic < OpenAdjacent < FoundNote < ChainTip < Verify.
#[rustfmt::skip]
pub(crate) const RULE: [[[u8; NP]; NP]; 2] = [
    // force_rescans = false
    [   // inserted:  I  S  H  O  F  C  V
        /* cur I */  [I, S, H, O, F, C, V],
        /* cur S */  [S, S, S, S, S, S, V],
        /* cur H */  [H, S, H, O, F, C, V],
        /* cur O */  [O, S, O, O, F, C, V],
        /* cur F */  [F, S, F, F, F, C, V],
        /* cur C */  [C, S, C, C, C, C, V],
        /* cur V */  [V, S, V, V, V, V, V],
    ],
    // force_rescans = true (differs from the table above only in row S, columns H O F C)
    [   // inserted:  I  S  H  O  F  C  V
        /* cur I */  [I, S, H, O, F, C, V],
        /* cur S */  [S, S, H, O, F, C, V],
        /* cur H */  [H, S, H, O, F, C, V],
        /* cur O */  [O, S, O, O, F, C, V],
        /* cur F */  [F, S, F, F, F, C, V],
        /* cur C */  [C, S, C, C, C, C, V],
        /* cur V */  [V, S, V, V, V, V, V],
    ],
];

fn rule_table_json() -> Value {
    let tab = |f: usize| -> Value {
        let mut m = serde_json::Map::new();
        for cur in 0..NP {
            let mut row = serde_json::Map::new();
            for ins in 0..NP {
                row.insert(format!("insert {}", NAMES[ins]), json!(NAMES[RULE[f][cur][ins] as usize]));
            }
            m.insert(format!("current {}", NAMES[cur]), Value::Object(row));
        }
        Value::Object(m)
    };
    json!({"force_rescans=false": tab(0), "force_rescans=true": tab(1)})
}

// ---------------------------------------------------------------------------------------------
// Operations
// ---------------------------------------------------------------------------------------------
#[derive(Clone, Copy, Debug, PartialEq, Eq, Hash)]
pub struct Op {
    s: u8,
    e: u8,
    p: u8,
    force: bool,
}

impl Op {
    fn show(&self) -> String {
        format!("{}..{}:{}:{}", self.s, self.e, NAMES[self.p as usize], if self.force { "force" } else { "noforce" })
    }
    fn to_json(self) -> Value {
        json!({"start": self.s, "end": self.e, "priority": NAMES[self.p as usize], "force_rescans": self.force})
    }
    fn from_json(v: &Value) -> Result<Op, String> {
        let s = v["start"].as_u64().ok_or("op.start")? as u8;
        let e = v["end"].as_u64().ok_or("op.end")? as u8;
        let p = prio_by_name(v["priority"].as_str().ok_or("op.priority")?).ok_or("op.priority name")?;
        let force = v["force_rescans"].as_bool().ok_or("op.force_rescans")?;
        if s > e || e as usize > MAXH {
            return Err(format!("op range {s}..{e} outside the model's domain"));
        }
        Ok(Op { s, e, p, force })
    }
    fn scan_range(&self) -> ScanRange {
        ScanRange::from_parts(BlockHeight::from(self.s as u32)..BlockHeight::from(self.e as u32), real_prio(self.p))
    }
}

fn history_key(h: &[Op]) -> String {
    format!("spanning:{}", h.iter().map(|o| o.show()).collect::<Vec<_>>().join(">"))
}

/// Every insertion over boundaries `0..=hmax`; `with_force = false` for first insertions (a first
/// insertion builds `SpanningTree::Leaf`, there is no flag).
fn all_ops(hmax: u8, with_force: bool) -> Vec<Op> {
    let mut v = Vec::new();
    for s in 0..=hmax {
        for e in s..=hmax {
            for p in 0..NP as u8 {
                v.push(Op { s, e, p, force: false });
                if with_force {
                    v.push(Op { s, e, p, force: true });
                }
            }
        }
    }
    v
}

// ---------------------------------------------------------------------------------------------
// Reference model
// ---------------------------------------------------------------------------------------------
const MAXH: usize = 8;

/// `prio[h]` for `lo <= h < hi`, `NONE` elsewhere. `lo..hi` is the covered interval: the hull of
/// every inserted range (an empty range counts as a position, exactly like a non-empty one).
#[derive(Clone, Debug, PartialEq, Eq)]
struct RefModel {
    lo: u8,
    hi: u8,
    prio: [u8; MAXH],
}

/// What one reference update observed (for outcome diversity only).
#[derive(Default)]
struct RefInfo {
    cells: Vec<(bool, u8, u8)>,
    relation: &'static str,
    gap_filled: bool,
}

impl RefModel {
    fn first(op: &Op) -> RefModel {
        let mut prio = [NONE; MAXH];
        for h in op.s..op.e {
            prio[h as usize] = op.p;
        }
        RefModel { lo: op.s, hi: op.e, prio }
    }

    fn relation(&self, op: &Op) -> &'static str {
        let (lo, hi, s, e) = (self.lo, self.hi, op.s, op.e);
        if s == e {
            return if lo == hi {
                "empty-insert/empty-span"
            } else if s < lo || s > hi {
                "empty-insert/outside-with-gap"
            } else if s == lo || s == hi {
                "empty-insert/at-span-edge"
            } else {
                "empty-insert/inside-span"
            };
        }
        if lo == hi {
            return if e < lo || s > hi {
                "empty-span/disjoint-with-gap"
            } else if e == lo || s == hi {
                "empty-span/adjacent"
            } else {
                "empty-span/covered"
            };
        }
        if e < lo {
            "before/gap"
        } else if e == lo {
            "before/adjacent"
        } else if s > hi {
            "after/gap"
        } else if s == hi {
            "after/adjacent"
        } else if s == lo && e == hi {
            "equal"
        } else if s <= lo && e >= hi {
            "covers-span"
        } else if s >= lo && e <= hi {
            "inside-span"
        } else if s < lo {
            "overlaps-start"
        } else {
            "overlaps-end"
        }
    }

    fn insert(&self, op: &Op) -> (RefModel, RefInfo) {
        let mut info = RefInfo { relation: self.relation(op), ..Default::default() };
        let lo = self.lo.min(op.s);
        let hi = self.hi.max(op.e);
        let mut prio = [NONE; MAXH];
        for h in lo..hi {
            let covered = self.lo <= h && h < self.hi;
            let inserted = op.s <= h && h < op.e;
            prio[h as usize] = match (covered, inserted) {
                (true, true) => {
                    let cur = self.prio[h as usize];
                    info.cells.push((op.force, cur, op.p));
                    RULE[op.force as usize][cur as usize][op.p as usize]
                }
                (true, false) => self.prio[h as usize],
                (false, true) => op.p,
                // between the previous span and a disjoint insertion: documented gap fill
                // (`join_nonoverlapping`: "there is a gap that will need to be filled" with
                // `ScanPriority::Historic`; property: "gaps become historic").
                (false, false) => {
                    info.gap_filled = true;
                    H
                }
            };
        }
        (RefModel { lo, hi, prio }, info)
    }

    /// Run-length encoding: maximal runs of equal priority, in height order.
    fn rle(&self) -> Vec<(u8, u8, u8)> {
        let mut out: Vec<(u8, u8, u8)> = Vec::new();
        for h in self.lo..self.hi {
            let p = self.prio[h as usize];
            match out.last_mut() {
                Some(last) if last.2 == p && last.1 == h => last.1 = h + 1,
                _ => out.push((h, h + 1, p)),
            }
        }
        out
    }
}

fn show_flat(v: &[(u8, u8, u8)]) -> String {
    let parts: Vec<String> = v.iter().map(|(s, e, p)| format!("{}..{}:{}", s, e, NAMES.get(*p as usize).copied().unwrap_or("?"))).collect();
    format!("[{}]", parts.join(", "))
}

/// The structural clauses of the property, then equality with the reference.
fn check_flat(flat: &[ScanRange], model: &RefModel) -> Result<(), String> {
    let got: Vec<(u8, u8, u8)> = flat
        .iter()
        .map(|r| (u32::from(r.block_range().start) as u8, u32::from(r.block_range().end) as u8, prio_index(r.priority())))
        .collect();
    for (i, r) in got.iter().enumerate() {
        if r.0 >= r.1 {
            return Err(format!("into_vec contains an empty or inverted range at index {i}: {}", show_flat(&got)));
        }
        if i > 0 {
            let p = got[i - 1];
            if p.1 > r.0 {
                return Err(format!("into_vec is not sorted / overlaps at index {i}: {}", show_flat(&got)));
            }
            if p.1 < r.0 {
                return Err(format!("into_vec has a gap before index {i}: {}", show_flat(&got)));
            }
            if p.2 == r.2 {
                return Err(format!("into_vec leaves adjacent ranges of equal priority unmerged at index {i}: {}", show_flat(&got)));
            }
        }
    }
    let want = model.rle();
    if got != want {
        return Err(format!("into_vec = {} but the dominance rule applied pointwise gives {}", show_flat(&got), show_flat(&want)));
    }
    Ok(())
}

// ---------------------------------------------------------------------------------------------
// State and the single transition function (used by both engines and by replay)
// ---------------------------------------------------------------------------------------------
#[derive(Clone, Debug)]
struct St {
    /// `None` only for states first reached by a history of the maximum length: they are never
    /// expanded, so only their key is kept (memory).
    tree: Option<SpanningTree>,
    model: RefModel,
    /// canonical bytes of the full tree shape followed by the reference state
    key: Vec<u8>,
    /// length of the history that first produced the state (not part of the key)
    len: u8,
}
impl PartialEq for St {
    fn eq(&self, o: &St) -> bool {
        self.key == o.key
    }
}
impl Eq for St {}
impl Hash for St {
    fn hash<Hs: Hasher>(&self, h: &mut Hs) {
        self.key.hash(h)
    }
}

#[derive(Default, Clone, Copy)]
struct Shape {
    leaves: u32,
    nonempty_leaves: u32,
    depth: u32,
    span_inconsistent: bool,
}

fn h8(h: BlockHeight) -> u8 {
    u32::from(h) as u8
}

/// Pre-order walk with fixed-size records: injective on tree shapes. Returns the hull of the
/// leaves below `t` (used only for the non-verdict span diagnostic).
fn walk(t: &SpanningTree, out: &mut Vec<u8>, sh: &mut Shape, depth: u32) -> (u8, u8) {
    sh.depth = sh.depth.max(depth);
    match t {
        SpanningTree::Leaf(r) => {
            sh.leaves += 1;
            if !r.block_range().is_empty() {
                sh.nonempty_leaves += 1;
            }
            let (s, e) = (h8(r.block_range().start), h8(r.block_range().end));
            out.extend_from_slice(&[b'L', s, e, prio_index(r.priority())]);
            (s, e)
        }
        SpanningTree::Parent { span, left, right } => {
            out.extend_from_slice(&[b'P', h8(span.start), h8(span.end)]);
            let l = walk(left, out, sh, depth + 1);
            let r = walk(right, out, sh, depth + 1);
            // Not part of the property (which speaks about the flattening only): recorded as a
            // diagnostic, never as a violation.
            if (h8(span.start), h8(span.end)) != (l.0, r.1) || l.1 > r.0 {
                sh.span_inconsistent = true;
            }
            (l.0, r.1)
        }
    }
}

struct Info {
    reference: RefInfo,
    flat_changed: bool,
    flat_len_before: usize,
    flat_len_after: usize,
    shape: Shape,
}

/// Insert `op` into `prev` (or build the first leaf) on the real code, update the reference, and
/// evaluate the oracle. `Err` = the property is violated on this transition.
fn apply(prev: Option<&St>, op: &Op, keep_tree: bool) -> Result<(St, Info), String> {
    let range = op.scan_range();
    let (tree, model, reference, len) = match prev {
        None => (SpanningTree::Leaf(range), RefModel::first(op), RefInfo { relation: "first", ..Default::default() }, 1),
        Some(st) => {
            let t = match &st.tree {
                Some(t) => t.clone(),
                None => mc_core::machinery_error("C15a: attempt to expand a state kept without its tree"),
            };
            let force = op.force;
            let tree = catch(move || t.insert(range, force)).map_err(|p| format!("SpanningTree::insert panicked: {p}"))?;
            let (m, i) = st.model.insert(op);
            (tree, m, i, st.len + 1)
        }
    };
    let t2 = tree.clone();
    let flat = catch(move || t2.into_vec()).map_err(|p| format!("SpanningTree::into_vec panicked: {p}"))?;
    check_flat(&flat, &model)?;
    let mut key = Vec::with_capacity(64);
    let mut shape = Shape::default();
    walk(&tree, &mut key, &mut shape, 0);
    key.push(b'|');
    key.push(model.lo);
    key.push(model.hi);
    key.extend_from_slice(&model.prio);
    let (flat_changed, flat_len_before) = match prev {
        None => (true, 0),
        Some(st) => (st.model != model, st.model.rle().len()),
    };
    let info = Info { reference, flat_changed, flat_len_before, flat_len_after: flat.len(), shape };
    Ok((St { tree: keep_tree.then_some(tree), model, key, len }, info))
}

/// Decide one whole history from scratch (sweep counterexamples and `--replay` both end here).
fn check_history(ops: &[Op]) -> Result<St, String> {
    let mut st: Option<St> = None;
    for (i, op) in ops.iter().enumerate() {
        match apply(st.as_ref(), op, true) {
            Ok((n, _)) => st = Some(n),
            Err(m) => return Err(format!("after insertion #{} ({}): {}", i + 1, op.show(), m)),
        }
    }
    st.ok_or_else(|| "empty history".to_string())
}

fn case_json(hmax: u8, ops: &[Op]) -> Value {
    json!({"hmax": hmax, "ops": ops.iter().map(|o| o.to_json()).collect::<Vec<_>>()})
}

pub fn replay(kind: &str, case: &Value) -> Result<(), String> {
    if kind != "spanning" {
        return Err(format!("C15a: unknown replay kind {kind}"));
    }
    let ops: Vec<Op> = case["ops"].as_array().ok_or("case.ops missing")?.iter().map(Op::from_json).collect::<Result<_, _>>()?;
    check_history(&ops).map(|_| ())
}

// ---------------------------------------------------------------------------------------------
// Engine 1: mc_core BFS, one search per first insertion
// ---------------------------------------------------------------------------------------------
#[derive(Default)]
struct Acc {
    transitions: u64,
    flat_changed: u64,
    flat_unchanged: u64,
    coalesced_in_into_vec: u64,
    flat_shrunk: u64,
    gap_filled: u64,
    span_inconsistent: u64,
    cells: [[[u64; NP]; NP]; 2],
    relations: BTreeMap<&'static str, u64>,
    leaves_hist: BTreeMap<u32, u64>,
    depth_hist: BTreeMap<u32, u64>,
    /// key hashes of every state discovered / of those below the depth bound (the expanded ones)
    keys: Vec<u128>,
    expanded: Vec<u128>,
    /// violating transitions by class (all of them, not only the reported counterexamples)
    violations: BTreeMap<String, u64>,
}

/// Coarse class of a violation message (drops the concrete ranges).
fn class_of(msg: &str) -> String {
    if let Some(i) = msg.find("panicked: ") {
        let head = if msg.contains("into_vec panicked") { "panic in into_vec" } else { "panic in insert" };
        return format!("{head}: {}", &msg[i + "panicked: ".len()..]);
    }
    if msg.contains("into_vec = ") {
        return "flattening differs from the pointwise dominance rule".into();
    }
    for c in ["empty or inverted range", "not sorted / overlaps", "has a gap", "equal priority unmerged"] {
        if msg.contains(c) {
            return format!("structure: {c}");
        }
    }
    "other".into()
}

impl Acc {
    fn record(&mut self, i: &Info) {
        self.transitions += 1;
        if i.flat_changed {
            self.flat_changed += 1;
        } else {
            self.flat_unchanged += 1;
        }
        if (i.shape.nonempty_leaves as usize) > i.flat_len_after {
            self.coalesced_in_into_vec += 1;
        }
        if i.flat_len_after < i.flat_len_before {
            self.flat_shrunk += 1;
        }
        if i.reference.gap_filled {
            self.gap_filled += 1;
        }
        if i.shape.span_inconsistent {
            self.span_inconsistent += 1;
        }
        for (f, c, n) in &i.reference.cells {
            self.cells[*f as usize][*c as usize][*n as usize] += 1;
        }
        *self.relations.entry(i.reference.relation).or_insert(0) += 1;
        *self.leaves_hist.entry(i.shape.leaves).or_insert(0) += 1;
        *self.depth_hist.entry(i.shape.depth).or_insert(0) += 1;
    }
    fn merge(&mut self, o: Acc) {
        self.transitions += o.transitions;
        self.flat_changed += o.flat_changed;
        self.flat_unchanged += o.flat_unchanged;
        self.coalesced_in_into_vec += o.coalesced_in_into_vec;
        self.flat_shrunk += o.flat_shrunk;
        self.gap_filled += o.gap_filled;
        self.span_inconsistent += o.span_inconsistent;
        for f in 0..2 {
            for c in 0..NP {
                for n in 0..NP {
                    self.cells[f][c][n] += o.cells[f][c][n];
                }
            }
        }
        for (k, v) in o.relations {
            *self.relations.entry(k).or_insert(0) += v;
        }
        for (k, v) in o.leaves_hist {
            *self.leaves_hist.entry(k).or_insert(0) += v;
        }
        for (k, v) in o.depth_hist {
            *self.depth_hist.entry(k).or_insert(0) += v;
        }
        for (k, v) in o.violations {
            *self.violations.entry(k).or_insert(0) += v;
        }
    }
}

struct Sub<'a> {
    ops: &'a [Op],
    max_len: u8,
    acc: RefCell<Acc>,
}

impl Subject for Sub<'_> {
    type State = St;
    type Op = Op;
    fn ops(&self, _s: &St, _depth: usize) -> Vec<Op> {
        self.ops.to_vec()
    }
    fn step(&self, s: &St, op: &Op) -> Result<Option<St>, String> {
        match apply(Some(s), op, s.len + 1 < self.max_len) {
            Ok((n, info)) => {
                self.acc.borrow_mut().record(&info);
                Ok(Some(n))
            }
            Err(m) => {
                *self.acc.borrow_mut().violations.entry(class_of(&m)).or_insert(0) += 1;
                Err(m)
            }
        }
    }
    fn key(&self, s: &St) -> Vec<u8> {
        s.key.clone()
    }
    /// Called once per newly discovered state. The oracle is evaluated on the transition (in
    /// `step`); here the state is only registered for the cross-root census.
    fn check(&self, s: &St) -> Result<(), String> {
        let k = key128(&s.key);
        let mut acc = self.acc.borrow_mut();
        acc.keys.push(k);
        if s.len < self.max_len {
            acc.expanded.push(k);
        }
        Ok(())
    }
}

// ---------------------------------------------------------------------------------------------
// Engine 2: stateright, same transition function
// ---------------------------------------------------------------------------------------------
struct SrModel {
    root: St,
    max_len: u8,
    ops: Arc<Vec<Op>>,
    rejected: Arc<AtomicU64>,
}

impl Model for SrModel {
    type State = St;
    type Action = Op;
    fn init_states(&self) -> Vec<St> {
        vec![self.root.clone()]
    }
    fn actions(&self, _s: &St, actions: &mut Vec<Op>) {
        actions.extend(self.ops.iter().copied());
    }
    fn next_state(&self, s: &St, a: Op) -> Option<St> {
        match apply(Some(s), &a, s.len + 1 < self.max_len) {
            Ok((n, _)) => Some(n),
            Err(_) => {
                self.rejected.fetch_add(1, Ordering::Relaxed);
                None
            }
        }
    }
    fn properties(&self) -> Vec<Property<Self>> {
        // stateright stops expanding once every property has a discovery; a `sometimes` property
        // that never holds keeps the search running to the depth bound.
        vec![Property::sometimes("sentinel (never true)", |_, _| false)]
    }
}

/// Plans (in list order) that every run of the tier completes or reports as capped; later plans are
/// optional extra depth.
const MANDATORY_PLANS: usize = 2;

/// Counterexamples kept per first insertion / reported per violation class.
const MAX_CEX_PER_ROOT: usize = 4096;
const PER_CLASS: usize = 6;

struct RootResult {
    root: Op,
    states: u64,
    transitions: u64,
    per_depth: Vec<u64>,
    capped: Option<String>,
    cex: Vec<(Vec<Op>, String)>,
    acc: Acc,
    sr_states: u64,
    sr_generated: u64,
    sr_rejected: u64,
    sr_max_depth: usize,
    root_failed: bool,
}

fn explore_root(root: &Op, ops: &Arc<Vec<Op>>, max_len: u8, deadline: Instant) -> RootResult {
    let mut res = RootResult {
        root: *root,
        states: 0,
        transitions: 0,
        per_depth: vec![],
        capped: None,
        cex: vec![],
        acc: Acc::default(),
        sr_states: 0,
        sr_generated: 0,
        sr_rejected: 0,
        sr_max_depth: 0,
        root_failed: false,
    };
    let (init, info) = match apply(None, root, true) {
        Ok(x) => x,
        Err(m) => {
            // the first insertion alone already violates the property: nothing to search from
            res.acc.violations.insert(class_of(&m), 1);
            res.cex.push((vec![*root], m));
            res.root_failed = true;
            return res;
        }
    };
    let sub = Sub { ops, max_len, acc: RefCell::new(Acc::default()) };
    sub.acc.borrow_mut().record(&info);
    let remaining = deadline.saturating_duration_since(Instant::now());
    if remaining.is_zero() {
        res.capped = Some("not started: wall budget of the tier already used up".into());
        return res;
    }
    let lim = Limits { max_depth: (max_len - 1) as usize, max_states: u64::MAX, max_wall_s: remaining.as_secs_f64() };
    let (stats, cex) = bfs(&sub, vec![init.clone()], &lim, MAX_CEX_PER_ROOT);
    res.states = stats.states;
    res.transitions = stats.transitions;
    res.per_depth = stats.per_depth.clone();
    res.capped = stats.capped.clone();
    for c in cex {
        let mut h = vec![*root];
        h.extend(c.history);
        res.cex.push((h, c.msg));
    }
    res.acc = sub.acc.into_inner();
    if res.capped.is_none() {
        let rejected = Arc::new(AtomicU64::new(0));
        let checker = SrModel { root: init, max_len, ops: ops.clone(), rejected: rejected.clone() }
            .checker()
            .threads(1)
            .target_max_depth(max_len as usize)
            .timeout(deadline.saturating_duration_since(Instant::now()) + Duration::from_secs(1))
            .spawn_bfs()
            .join();
        if Instant::now() >= deadline {
            res.capped = Some("stateright pass cut by the wall budget of the tier".into());
        }
        res.sr_states = checker.unique_state_count() as u64;
        res.sr_generated = checker.state_count() as u64;
        res.sr_max_depth = checker.max_depth();
        res.sr_rejected = rejected.load(Ordering::Relaxed);
    }
    res
}

fn describe(ops: &[Op]) -> Value {
    match check_history(ops) {
        Ok(st) => json!({
            "insertions": ops.iter().map(|o| o.show()).collect::<Vec<_>>(),
            "into_vec": show_flat(&st.model.rle()),
            "tree": st.tree.as_ref().map(|t| format!("{:?}", t).replace("BlockHeight", "").replace("ScanRange ", "")),
            "verdict": "agrees with the reference",
        }),
        Err(m) => json!({"insertions": ops.iter().map(|o| o.show()).collect::<Vec<_>>(), "verdict": m}),
    }
}

pub fn explore(run: &Run) {
    let quick = run.tier == mc_core::Tier::Quick;
    // (hmax, longest insertion sequence)
    let plans: Vec<(u8, u8)> = if quick { vec![(6, 3)] } else { vec![(6, 3), (5, 4), (3, 5)] };
    let mut sec = serde_json::Map::new();
    sec.insert(
        "rule".into(),
        json!("C15a: all insertion sequences (range s..e with 0<=s<=e<=hmax incl. empty, 7 priorities, force flag) up to the stated length from \
         every first insertion, explored breadth-first with state matching on the full SpanningTree shape (+ reference array); a case is a \
         (reached tree shape, next insertion) pair, executed on the real SpanningTree and compared with the pointwise dominance table. \
         Plans: quick = heights 0..=6 with <=3 insertions; thorough = that plus heights 0..=5 with <=4 insertions, plus (optional, only when the \
         wall budget allows; see plans) heights 0..=3 with <=5 insertions"),
    );
    run.assume(
        "C15a: the covered interval is the hull of all inserted ranges, an empty range counting as a position (so an empty range away from \
         the span extends it and the gap becomes Historic, as join_nonoverlapping documents for any non-adjacent pair)",
    );
    run.assume("C15a: priority order for 'the higher priority wins' is the documented declaration order Ignored < Scanned < Historic < OpenAdjacent < FoundNote < ChainTip < Verify");
    sec.insert("dominance_table".into(), rule_table_json());

    // One wall budget for all plans of the tier, measured from the start of the run. A search that
    // the budget cuts is reported with `cap_hit` (never silently).
    let budget_s: u64 = if quick { 50 } else { 540 };
    // The optional extra-depth plan gets a smaller budget (part (b) of C15 runs after this in the same
    // process); VERIF_C15A_EXTRA_BUDGET_S=540 lets it run on this class of machine (it then needs
    // about 190 s idle / 340 s loaded).
    let extra_budget_s: u64 = std::env::var("VERIF_C15A_EXTRA_BUDGET_S").ok().and_then(|v| v.parse().ok()).unwrap_or(300);
    let run_start = Instant::now() - Duration::from_secs_f64(run.elapsed());
    let mut total = Acc::default();
    let mut plan_reports = Vec::new();
    let mut any_failure = false;
    let mut last_plan_wall = 0.0f64;
    let mut skipped: Vec<Value> = Vec::new();
    for (pi, (hmax, max_len)) in plans.into_iter().enumerate() {
        // The extra-depth plan costs 1.5x - 2.3x the wall time of the plan before it (measured, idle
        // and loaded machine); it is run only when 2.5x fits the remaining budget, and is otherwise
        // reported as skipped.
        let budget_s = if pi >= MANDATORY_PLANS { extra_budget_s } else { budget_s };
        let deadline = run_start + Duration::from_secs(budget_s);
        if pi >= MANDATORY_PLANS && run.elapsed() + 2.5 * last_plan_wall > budget_s as f64 {
            skipped.push(json!({"heights": format!("0..={hmax}"), "max_insertions": max_len,
                "skipped": format!("optional extra-depth plan not started: {:.0}s used, previous plan took {:.0}s, budget {}s (VERIF_C15A_EXTRA_BUDGET_S)", run.elapsed(), last_plan_wall, budget_s)}));
            continue;
        }
        let t0 = Instant::now();
        let roots = all_ops(hmax, false);
        let ops = Arc::new(all_ops(hmax, true));
        let results: Vec<RootResult> = roots.par_iter().map(|r| explore_root(r, &ops, max_len, deadline)).collect();

        let mut sum_states = 0u64;
        let mut sum_sr = 0u64;
        let mut sum_sr_generated = 0u64;
        let mut sr_max_depth = 0usize;
        let mut transitions = 0u64;
        let mut per_len: Vec<u64> = vec![];
        let mut all_keys: Vec<u128> = Vec::new();
        let mut expanded_keys: HashSet<u128> = HashSet::new();
        let mut engines_agree = true;
        let mut disagreements = Vec::new();
        let mut found: BTreeMap<String, Vec<Vec<Op>>> = BTreeMap::new();
        let mut capped_roots = 0u64;
        let mut first_cap: Option<String> = None;
        for mut r in results {
            if let Some(c) = &r.capped {
                capped_roots += 1;
                first_cap.get_or_insert_with(|| format!("{}: {c}", r.root.show()));
            }
            for (h, m) in &r.cex {
                any_failure = true;
                found.entry(class_of(m)).or_default().push(h.clone());
            }
            sum_states += r.states;
            sum_sr += r.sr_states;
            sum_sr_generated += r.sr_generated;
            sr_max_depth = sr_max_depth.max(r.sr_max_depth);
            transitions += r.transitions;
            for (d, n) in r.per_depth.iter().enumerate() {
                if per_len.len() <= d {
                    per_len.resize(d + 1, 0);
                }
                per_len[d] += n;
            }
            if r.cex.is_empty() && r.capped.is_none() && (r.states != r.sr_states || r.sr_rejected != 0) {
                engines_agree = false;
                if disagreements.len() < 5 {
                    disagreements.push(format!("{}: mc_core {} vs stateright {} (rejected {})", r.root.show(), r.states, r.sr_states, r.sr_rejected));
                }
            }
            // with violations present, both engines must still have seen the same number of
            // violating transitions (neither expands past one)
            let violating: u64 = r.acc.violations.values().sum();
            if !r.cex.is_empty() && !r.root_failed && r.capped.is_none() && (r.sr_rejected != violating || r.states != r.sr_states) {
                engines_agree = false;
                if disagreements.len() < 5 {
                    disagreements.push(format!(
                        "{}: mc_core {} states / {} violating transitions vs stateright {} / {}",
                        r.root.show(), r.states, violating, r.sr_states, r.sr_rejected
                    ));
                }
            }
            all_keys.append(&mut r.acc.keys);
            expanded_keys.extend(r.acc.expanded.drain(..));
            total.merge(r.acc);
        }
        run.require(engines_agree, &format!("C15a hmax={hmax}: mc_core and stateright disagree: {:?}", disagreements));
        if capped_roots > 0 {
            run.cap_hit(&format!(
                "C15a plan heights 0..={hmax}, <= {max_len} insertions: wall budget {budget_s}s of the tier cut {capped_roots} of {} first insertions (first: {}); \
                 plans listed before this one in c15a_plans were completed",
                roots.len(),
                first_cap.unwrap_or_default()
            ));
        }
        // Report the shortest (then lexicographically first) counterexamples of every violation
        // class, so that one frequent class cannot crowd the others out of the failure list.
        for (_class, mut hs) in std::mem::take(&mut found) {
            hs.sort_by_cached_key(|h| (h.len(), history_key(h)));
            for h in hs.iter().take(PER_CLASS) {
                // the message recorded is the one the replay path produces
                match check_history(h) {
                    Err(m) => run.fail("spanning", history_key(h), m, case_json(hmax, h)),
                    Ok(_) => mc_core::machinery_error(&format!("C15a: counterexample {} does not reproduce from scratch", history_key(h))),
                }
            }
        }
        all_keys.par_sort_unstable();
        all_keys.dedup();
        let distinct_transitions = expanded_keys.len() as u64 * ops.len() as u64;
        // every transition (and every first insertion) is an execution on the real SpanningTree
        let executed = transitions + roots.len() as u64;
        run.add_graph(all_keys.len() as u64, executed, executed);
        let distinct = distinct_transitions.min(transitions) + roots.len() as u64;
        run.eval_distinct(distinct);
        run.add_evaluations(executed - distinct);
        plan_reports.push(json!({
            "heights": format!("0..={hmax}"),
            "max_insertions": max_len,
            "first_insertions": roots.len(),
            "operations": ops.len(),
            "raw_sequences_of_max_length": (roots.len() as u128) * (ops.len() as u128).pow((max_len - 1) as u32),
            "unique_states_global": all_keys.len(),
            "unique_states_summed_over_roots_mc_core": sum_states,
            "unique_states_summed_over_roots_stateright": sum_sr,
            "stateright_generated_states_summed_over_roots": sum_sr_generated,
            "stateright_max_depth": sr_max_depth,
            "states_by_history_length_summed_over_roots": per_len,
            "expanded_states_global": expanded_keys.len(),
            "transitions_executed": transitions,
            "first_insertions_cut_by_wall_budget": capped_roots,
            "wall_s": t0.elapsed().as_secs_f64(),
        }));
        last_plan_wall = t0.elapsed().as_secs_f64();
    }
    plan_reports.extend(skipped);
    sec.insert("plans".into(), json!(plan_reports));
    sec.insert("violating_transitions_by_class".into(), json!(total.violations));
    sec.insert(
        "diagnostics_not_verdicts".into(),
        json!({"transitions_whose_tree_has_a_parent_span_differing_from_the_hull_of_its_children_or_misordered_children": total.span_inconsistent}),
    );

    // outcome diversity
    run.outcome_n("spanning:flattening-changed", total.flat_changed);
    run.outcome_n("spanning:flattening-unchanged", total.flat_unchanged);
    run.outcome_n("spanning:into_vec-coalesced-leaves", total.coalesced_in_into_vec);
    run.outcome_n("spanning:flattening-got-shorter", total.flat_shrunk);
    run.outcome_n("spanning:gap-filled-historic", total.gap_filled);
    for (k, v) in &total.relations {
        run.outcome_n(&format!("spanning:relation:{k}"), *v);
    }
    let mut cells_hit = 0;
    let mut cells = serde_json::Map::new();
    let mut missing = Vec::new();
    for f in 0..2 {
        for c in 0..NP {
            for n in 0..NP {
                let name = format!("force={} current={} inserted={} => {}", f == 1, NAMES[c], NAMES[n], NAMES[RULE[f][c][n] as usize]);
                if total.cells[f][c][n] > 0 {
                    cells_hit += 1;
                } else {
                    missing.push(name.clone());
                }
                cells.insert(name, json!(total.cells[f][c][n]));
            }
        }
    }
    run.outcome_n("spanning:dominance-cells-hit", cells_hit);
    sec.insert("dominance_cells_pointwise_applications".into(), Value::Object(cells));
    sec.insert(
        "tree_shapes".into(),
        json!({
            "leaves_histogram": total.leaves_hist.iter().map(|(k, v)| (k.to_string(), *v)).collect::<BTreeMap<_, _>>(),
            "depth_histogram": total.depth_hist.iter().map(|(k, v)| (k.to_string(), *v)).collect::<BTreeMap<_, _>>(),
        }),
    );

    // a few written-out histories (the repository's own documented examples plus boundary shapes)
    let op = |s, e, p, force| Op { s, e, p, force };
    let mut written = Vec::new();
    for (i, h) in [
        vec![op(0, 3, V, false), op(2, 6, S, false), op(5, 6, V, false)],
        vec![op(0, 2, C, false), op(2, 4, S, false), op(0, 6, C, false)],
        vec![op(0, 2, O, false), op(5, 6, O, false)],
        vec![op(1, 4, S, false), op(2, 6, O, true), op(0, 3, I, true)],
        vec![op(0, 3, H, false), op(3, 3, F, false), op(3, 6, H, false)],
        vec![op(3, 3, F, false), op(5, 5, C, false), op(0, 1, S, false)],
        // panicked in `from_split` before the fix "SpanningTree::insert no longer panics when an
        // empty range sits at an end of the span"
        vec![op(0, 3, S, false), op(3, 3, H, false), op(0, 3, H, true)],
    ]
    .iter()
    .enumerate()
    {
        let d = describe(h);
        // part (b) shares the run's sample list: keep only a few there, all of them in the section
        if [0, 3, 4, 6].contains(&i) {
            run.sample(d.clone());
        }
        written.push(d);
    }
    sec.insert("written_out_histories".into(), json!(written));
    run.section("spanning", Value::Object(sec));

    if !any_failure {
        run.require(missing.is_empty(), &format!("C15a: dominance cells never exercised: {:?}", missing));
        run.require(total.flat_changed > 0 && total.flat_unchanged > 0, "C15a: flattening changed/unchanged not both observed");
        run.require(total.coalesced_in_into_vec > 0 && total.flat_shrunk > 0, "C15a: no merge of adjacent equal priorities observed");
        run.require(total.gap_filled > 0, "C15a: no Historic gap fill observed");
        run.require(total.relations.len() >= 17, &format!("C15a: only {} range relations observed", total.relations.len()));
    }
}
