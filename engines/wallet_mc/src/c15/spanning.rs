//! C15(a) — not built yet.
use mc_core::Run;
use serde_json::Value;

pub fn replay(_kind: &str, _case: &Value) -> Result<(), String> {
    Err("C15a: not built".into())
}

pub fn explore(_run: &Run) {
    mc_core::machinery_error("C15a: not built")
}
